import Proofs.C05
import VerifModel.Model.DetRank
import VerifModel.Spec.Rank
import VerifModel.Base.TrSqrt
import Mathlib.Order.Monotone.Basic
/-
  C05, part 2 — the correlation-type scores and LEPS (corr, kge, rankcorr, kendallcorr, leps).

  Spec: `VerifModel/Spec/Rank.lean` (Pearson, average ranks, Spearman, Kendall tau-b, KGE, LEPS as
  published).  Model: `corr`, `kge` (`Model/DetMetrics.lean`, np.corrcoef), `rankcorr`,
  `kendallcorr`, `leps` (`Model/DetRank.lean`; SciPy's rankdata / kendalltau quantities, the
  Leps loop).  Theorems, for all finite data of any length:

  * definitions: `C05_corr_def`, `C05_rankcorr_def`, `C05_kendall_def`, `C05_kge_def` — the model
    returns the published coefficient, limited to [-1, 1] as NumPy/SciPy do, NaN exactly where it
    is undefined (`…_undefined`); `…_def_exact`: the limiting is the identity when the roots are
    exact; `C05_leps_def_partial` (the full statement is false: known finding `leps-perfect`,
    `C05_leps_never_perfect`).
  * perfect scores: `C05_perfect_corr|rankcorr|kendallcorr|kge` — fcst = obs gives 1 for every
    non-constant series.
  * bounds: Cauchy–Schwarz `C05_bound_pearson_sq`, `C05_bound_pearson`, `C05_bound_spearman_sq`,
    `C05_bound_kendall` (|C − D| ≤ untied pairs), and for the values as computed, for every `Tr` and
    all data (NaN and ±inf included): `C05_bound_corr|rankcorr|kendallcorr|kge`.
  * invariance under strictly increasing maps: `C05_avgRanks_strictMono`,
    `C05_spearman_strictMono`, `C05_tauB_strictMono`, `C05_rank_invariant`; symmetry in
    (obs, fcst): `C05_pearson_symm`, `C05_spearman_symm`, `C05_tauB_symm`, `C05_symm`.

  The square root is the parameter `Tr`.  `√q·√q = q` has no rational-valued instance, so facts
  about roots are hypotheses at the one argument used (`Base/TrSqrt.lean`): `SqrtPos`,
  `SqrtExactAt q`, `SqrtBelowAt q`; the last section shows they are satisfiable on non-trivial
  data (`TrEx`, exact at 0, 1, 4, 9).
-/
namespace VerifModel.C05
open VerifModel XR Spec.Det Spec.Rank
set_option linter.unusedSimpArgs false

/-! ### helpers -/

theorem mul_ofRats (xs ys : List Rat) :
    Vec.mul (Vec.ofRats xs) (Vec.ofRats ys) = Vec.ofRats (List.zipWith (· * ·) xs ys) := by
  unfold Vec.mul
  induction xs generalizing ys with
  | nil => simp
  | cons x xs ih => cases ys <;> simp [ih]

theorem clipUnit_fin (q : Rat) :
    clipUnit (fin q) = fin (if 1 < q then 1 else if q < -1 then -1 else q) := by
  unfold clipUnit
  simp only [XR.lt, decide_eq_true_eq]
  split_ifs <;> rfl

theorem sxx_nonneg (xs : List Rat) : 0 ≤ sxx xs := GenEq.Det.sum_map_sq_nonneg xs _

theorem corrCore_fins (T : Tr) (os fs : List Rat) (ho : os ≠ []) (hf : fs ≠ []) :
    corrCore T (fins os) (fins fs)
      = clipUnit (fin (sxy os fs) / T.sqrt (fin (sxx os)) / T.sqrt (fin (sxx fs))) := by
  unfold corrCore clipUnit
  simp only [fins, Vec.mean_ofRats os ho, Vec.mean_ofRats fs hf, Vec.subS_ofRats, mul_ofRats,
    Vec.npow_ofRats, Vec.sum_ofRats, List.zipWith_map_left, List.zipWith_map_right, List.map_map,
    Function.comp_def, sxy, sxx, Spec.Det.mean]
  rfl


/-! ### Cauchy–Schwarz for list sums (no square root involved) -/

private theorem cs_key (a b A B C : Rat) (hA : 0 ≤ A) (hB : 0 ≤ B) (h : C ^ 2 ≤ A * B) :
    2 * a * b * C ≤ a ^ 2 * B + b ^ 2 * A := by
  have hu : 0 ≤ a ^ 2 * B + b ^ 2 * A := by positivity
  have h2 : (2 * a * b * C) ^ 2 ≤ (a ^ 2 * B + b ^ 2 * A) ^ 2 := by
    nlinarith [mul_le_mul_of_nonneg_left h (by positivity : (0 : Rat) ≤ 4 * a ^ 2 * b ^ 2),
      sq_nonneg (a ^ 2 * B - b ^ 2 * A)]
  exact (abs_le_of_sq_le_sq' h2 hu).2

theorem sum_sq_nonneg (xs : List Rat) : 0 ≤ (xs.map (· ^ 2)).sum := by
  apply List.sum_nonneg
  intro x hx
  simp only [List.mem_map] at hx
  obtain ⟨y, _, rfl⟩ := hx
  positivity

/-- (Σ aᵢbᵢ)² ≤ Σ aᵢ² · Σ bᵢ² -/
theorem cauchy_schwarz (as bs : List Rat) :
    (List.zipWith (· * ·) as bs).sum ^ 2 ≤ (as.map (· ^ 2)).sum * (bs.map (· ^ 2)).sum := by
  induction as generalizing bs with
  | nil => simpa using sum_sq_nonneg bs
  | cons a as ih =>
    cases bs with
    | nil => simpa using sum_sq_nonneg (a :: as)
    | cons b bs =>
      have h := ih bs
      have hA := sum_sq_nonneg as
      have hB := sum_sq_nonneg bs
      have hk := cs_key a b _ _ _ hA hB h
      simp only [List.zipWith_cons_cons, List.sum_cons, List.map_cons]
      nlinarith [hk, h]

theorem sxy_as_zip (xs ys : List Rat) :
    sxy xs ys = (List.zipWith (· * ·) (xs.map (· - mean xs)) (ys.map (· - mean ys))).sum := by
  simp [sxy, List.zipWith_map_left, List.zipWith_map_right]

theorem sxx_as_map (xs : List Rat) : sxx xs = ((xs.map (· - mean xs)).map (· ^ 2)).sum := by
  simp [sxx, Function.comp_def]

/-- the squared form of |r| ≤ 1: (Σ(x−x̄)(y−ȳ))² ≤ Σ(x−x̄)² · Σ(y−ȳ)² -/
theorem C05_bound_pearson_sq (xs ys : List Rat) : sxy xs ys ^ 2 ≤ sxx xs * sxx ys := by
  rw [sxy_as_zip, sxx_as_map, sxx_as_map]
  exact cauchy_schwarz _ _


/-! ### constant samples: Σ(x−x̄)² = 0 -/

/-- the sample takes one value only -/
def Constant (xs : List Rat) : Prop := ∀ a ∈ xs, ∀ b ∈ xs, a = b

private theorem sum_eq_zero_all (xs : List Rat) (hn : ∀ x ∈ xs, 0 ≤ x) (h : xs.sum = 0) :
    ∀ x ∈ xs, x = 0 := by
  induction xs with
  | nil => simp
  | cons a as ih =>
    have ha : 0 ≤ a := hn a (by simp)
    have has : 0 ≤ as.sum := List.sum_nonneg fun x hx => hn x (by simp [hx])
    simp only [List.sum_cons] at h
    intro x hx
    rcases List.mem_cons.mp hx with rfl | hx
    · linarith
    · exact ih (fun y hy => hn y (by simp [hy])) (by linarith) x hx

private theorem sum_const (xs : List Rat) (c : Rat) (h : ∀ x ∈ xs, x = c) : xs.sum = xs.length * c := by
  induction xs with
  | nil => simp
  | cons a as ih =>
    have := ih fun x hx => h x (by simp [hx])
    simp only [List.sum_cons, List.length_cons, this, h a (by simp)]
    push_cast; ring

theorem sxx_eq_zero_iff (xs : List Rat) : sxx xs = 0 ↔ Constant xs := by
  constructor
  · intro h a ha b hb
    have hz := sum_eq_zero_all _ (by
      intro x hx
      simp only [List.mem_map] at hx
      obtain ⟨y, _, rfl⟩ := hx
      positivity) h
    have e : ∀ x ∈ xs, x = mean xs := by
      intro x hx
      have := hz ((x - mean xs) ^ 2) (List.mem_map.mpr ⟨x, hx, rfl⟩)
      have := pow_eq_zero_iff (two_ne_zero) |>.mp this
      linarith
    rw [e a ha, e b hb]
  · intro h
    cases xs with
    | nil => simp [sxx]
    | cons c cs =>
      have hc : ∀ x ∈ c :: cs, x = c := fun x hx => h x hx c (by simp)
      have hm : mean (c :: cs) = c := by
        unfold mean
        rw [sum_const _ c hc]
        have : ((c :: cs).length : Rat) ≠ 0 := by simp; positivity
        field_simp
      unfold sxx
      rw [hm]
      apply List.sum_eq_zero
      intro x hx
      simp only [List.mem_map] at hx
      obtain ⟨y, hy, rfl⟩ := hx
      rw [hc y hy]; ring

theorem sxx_short (xs : List Rat) (h : xs.length ≤ 1) : sxx xs = 0 := by
  rw [sxx_eq_zero_iff]
  match xs, h with
  | [], _ => intro a ha; simp at ha
  | [x], _ => intro a ha b hb; simp at ha hb; rw [ha, hb]

theorem sxy_zero_left (xs ys : List Rat) (h : sxx xs = 0) : sxy xs ys = 0 := by
  have := C05_bound_pearson_sq xs ys
  rw [h, zero_mul] at this
  exact pow_eq_zero_iff (two_ne_zero) |>.mp (le_antisymm this (sq_nonneg _))

theorem sxy_zero_right (xs ys : List Rat) (h : sxx ys = 0) : sxy xs ys = 0 := by
  have := C05_bound_pearson_sq xs ys
  rw [h, mul_zero] at this
  exact pow_eq_zero_iff (two_ne_zero) |>.mp (le_antisymm this (sq_nonneg _))

theorem var_eq_sxx (xs : List Rat) : Spec.Det.var xs = sxx xs / xs.length := by
  simp [Spec.Det.var, sxx, Spec.Det.mean, pow_two]

theorem var_fins (xs : List Rat) (h : xs ≠ []) : Vec.var (fins xs) = fin (Spec.Det.var xs) := by
  rw [fins, Vec.var_ofRats xs h]
  simp [Spec.Det.var, Spec.Det.mean]

theorem var_eq_zero_iff (xs : List Rat) (h : xs ≠ []) : Spec.Det.var xs = 0 ↔ sxx xs = 0 := by
  rw [var_eq_sxx]
  have : (xs.length : Rat) ≠ 0 := by
    have : 0 < xs.length := List.length_pos_iff.mpr h
    exact_mod_cast this.ne'
  constructor
  · intro h0; field_simp at h0; simpa using h0
  · intro h0; rw [h0]; simp


/-! ### corr: `np.corrcoef` = Pearson's r -/

theorem clipUnit_nan : clipUnit nan = nan := rfl

/-- np.corrcoef of two non-constant finite series is Pearson's r limited to [-1, 1] -/
theorem corrCore_pearson (T : Tr) (hpos : T.SqrtPos) (os fs : List Rat)
    (ho : sxx os ≠ 0) (hf : sxx fs ≠ 0) :
    corrCore T (fins os) (fins fs) = clipUnit (pearson T os fs) := by
  have hone : os ≠ [] := by rintro rfl; exact ho (by simp [sxx])
  have hfne : fs ≠ [] := by rintro rfl; exact hf (by simp [sxx])
  have hop : 0 < sxx os := lt_of_le_of_ne (sxx_nonneg os) (Ne.symm ho)
  have hfp : 0 < sxx fs := lt_of_le_of_ne (sxx_nonneg fs) (Ne.symm hf)
  have hso := hpos _ hop
  have hsf := hpos _ hfp
  rw [corrCore_fins T os fs hone hfne]
  unfold pearson
  simp only [ho, hf, or_self, if_false, Tr.sqrt_fin, not_lt.mpr hop.le, not_lt.mpr hfp.le, fin_mul,
    fin_div, hso.ne', hsf.ne', mul_eq_zero]
  rw [div_div]

/-- a constant series: 0/0 -/
theorem corrCore_constant (T : Tr) (hT : T.Lawful) (os fs : List Rat) (ho : os ≠ []) (hf : fs ≠ [])
    (h : sxx os = 0 ∨ sxx fs = 0) : corrCore T (fins os) (fins fs) = nan := by
  rw [corrCore_fins T os fs ho hf]
  rcases h with h | h
  · simp [sxy_zero_left os fs h, h, Tr.sqrt_fin, hT.sqrt_zero, fin_div, infOfSign, clipUnit_nan]
  · rw [sxy_zero_right os fs h, h]
    simp only [Tr.sqrt_fin, lt_irrefl, if_false, hT.sqrt_zero, not_lt.mpr (sxx_nonneg os)]
    by_cases h0 : T.sqrtQ (sxx os) = 0
    · simp [h0, fin_div, infOfSign, clipUnit_nan]
    · simp [h0, fin_div, infOfSign, clipUnit_nan]

/-- **corr equals its definition.**  For every lawful `Tr` with positive roots and all finite
data of equal length, `Corr` returns Pearson's r limited to [-1, 1]; in particular NaN exactly
where r is undefined (fewer than two pairs, or a constant series). -/
theorem C05_corr_def (T : Tr) (hT : T.Lawful) (hpos : T.SqrtPos) (os fs : List Rat)
    (hl : os.length = fs.length) :
    corr T (fins os) (fins fs) = clipUnit (pearson T os fs) := by
  unfold corr
  by_cases h1 : os.length ≤ 1
  · have : sxx os = 0 := sxx_short os h1
    simp [fins, h1, pearson, this, clipUnit_nan]
  · have hone : os ≠ [] := by rintro rfl; simp at h1
    have hfne : fs ≠ [] := by rintro rfl; apply hone; simpa using hl
    simp only [fins, Vec.ofRats_length, h1, if_false]
    rw [← fins, ← fins, var_fins fs hfne]
    by_cases hf : sxx fs = 0
    · have : Spec.Det.var fs = 0 := (var_eq_zero_iff fs hfne).mpr hf
      simp [this, pearson, hf, clipUnit_nan]
    · have hv : Spec.Det.var fs ≠ 0 := fun h => hf ((var_eq_zero_iff fs hfne).mp h)
      simp only [eqb_fin, hv, decide_false, Bool.false_eq_true, if_false]
      by_cases ho : sxx os = 0
      · rw [corrCore_constant T hT os fs hone hfne (Or.inl ho)]
        simp [pearson, ho, clipUnit_nan]
      · exact corrCore_pearson T hpos os fs ho hf


theorem clipUnit_id (q : Rat) (h1 : -1 ≤ q) (h2 : q ≤ 1) : clipUnit (fin q) = fin q := by
  rw [clipUnit_fin]; simp [not_lt.mpr h2, not_lt.mpr h1]

/-- whatever its argument, the limited value is NaN or lies in [-1, 1] -/
theorem clipUnit_range (r : XR) : clipUnit r = nan ∨ ∃ q : Rat, clipUnit r = fin q ∧ -1 ≤ q ∧ q ≤ 1 := by
  cases r with
  | nan => left; rfl
  | pinf => right; exact ⟨1, rfl, by norm_num, le_refl _⟩
  | ninf => right; exact ⟨-1, rfl, le_refl _, by norm_num⟩
  | fin q =>
    right
    rw [clipUnit_fin]
    refine ⟨_, rfl, ?_⟩
    split_ifs with h1 h2
    · norm_num
    · norm_num
    · exact ⟨not_lt.mp h2, not_lt.mp h1⟩

theorem sqrt_sxx (T : Tr) (xs : List Rat) : T.sqrt (fin (sxx xs)) = fin (T.sqrtQ (sxx xs)) := by
  simp [Tr.sqrt_fin, not_lt.mpr (sxx_nonneg xs)]

theorem exact_pos (T : Tr) (q : Rat) (h : T.SqrtExactAt q) (hq : q ≠ 0) : 0 < T.sqrtQ q := by
  rcases h with ⟨h0, h1⟩
  rcases h0.lt_or_eq with h | h
  · exact h
  · exfalso; apply hq; rw [← h1, ← h]; ring

/-- **|r| ≤ 1** (Cauchy–Schwarz) wherever the two roots are exact -/
theorem C05_bound_pearson (T : Tr) (xs ys : List Rat)
    (hx : T.SqrtExactAt (sxx xs)) (hy : T.SqrtExactAt (sxx ys)) :
    pearson T xs ys = nan ∨ ∃ q : Rat, pearson T xs ys = fin q ∧ -1 ≤ q ∧ q ≤ 1 := by
  unfold pearson
  by_cases h : sxx xs = 0 ∨ sxx ys = 0
  · left; simp [h]
  · right
    have h1 : sxx xs ≠ 0 := fun e => h (Or.inl e)
    have h2 : sxx ys ≠ 0 := fun e => h (Or.inr e)
    have px := exact_pos T _ hx h1
    have py := exact_pos T _ hy h2
    have pxy := mul_pos px py
    simp only [h, if_false, sqrt_sxx, fin_mul, fin_div, pxy.ne']
    refine ⟨_, rfl, ?_⟩
    have hcs := C05_bound_pearson_sq xs ys
    have hsq : sxy xs ys ^ 2 ≤ (T.sqrtQ (sxx xs) * T.sqrtQ (sxx ys)) ^ 2 := by
      have : (T.sqrtQ (sxx xs) * T.sqrtQ (sxx ys)) ^ 2 = sxx xs * sxx ys := by
        conv_rhs => rw [← hx.2, ← hy.2]
        ring
      rw [this]; exact hcs
    have := abs_le_of_sq_le_sq' hsq pxy.le
    constructor
    · rw [le_div_iff₀ pxy]; linarith [this.1]
    · rw [div_le_one pxy]; exact this.2

/-- with exact roots `Corr` returns Pearson's r itself -/
theorem C05_corr_def_exact (T : Tr) (hT : T.Lawful) (hpos : T.SqrtPos) (os fs : List Rat)
    (hl : os.length = fs.length)
    (hx : T.SqrtExactAt (sxx os)) (hy : T.SqrtExactAt (sxx fs)) :
    corr T (fins os) (fins fs) = pearson T os fs := by
  rw [C05_corr_def T hT hpos os fs hl]
  rcases C05_bound_pearson T os fs hx hy with h | ⟨q, h, h1, h2⟩
  · rw [h]; rfl
  · rw [h]; exact clipUnit_id q h1 h2

/-- undefined ⇒ NaN: fewer than two pairs or a constant series -/
theorem C05_corr_undefined (T : Tr) (hT : T.Lawful) (os fs : List Rat) (hl : os.length = fs.length)
    (h : Constant os ∨ Constant fs) : corr T (fins os) (fins fs) = nan := by
  unfold corr
  by_cases h1 : os.length ≤ 1
  · simp [fins, h1]
  · have hone : os ≠ [] := by rintro rfl; simp at h1
    have hfne : fs ≠ [] := by rintro rfl; apply hone; simpa using hl
    simp only [fins, Vec.ofRats_length, h1, if_false]
    rw [← fins, ← fins, var_fins fs hfne]
    by_cases hf : sxx fs = 0
    · have : Spec.Det.var fs = 0 := (var_eq_zero_iff fs hfne).mpr hf
      simp [this]
    · have hv : Spec.Det.var fs ≠ 0 := fun h => hf ((var_eq_zero_iff fs hfne).mp h)
      simp only [eqb_fin, hv, decide_false, Bool.false_eq_true, if_false]
      apply corrCore_constant T hT os fs hone hfne
      rcases h with h | h
      · exact Or.inl ((sxx_eq_zero_iff os).mpr h)
      · exact absurd ((sxx_eq_zero_iff fs).mpr h) hf

/-- **no forecast scores better than the perfect score 1** (and none below −1): for every `Tr`
and all data whatsoever (NaN, ±inf included) -/
theorem C05_bound_corr (T : Tr) (obs fcst : Vec) :
    corr T obs fcst = nan ∨ ∃ q : Rat, corr T obs fcst = fin q ∧ -1 ≤ q ∧ q ≤ 1 := by
  unfold corr
  split_ifs
  · left; rfl
  · left; rfl
  · exact clipUnit_range _

theorem sxy_self (zs : List Rat) : sxy zs zs = sxx zs := by
  unfold sxy sxx
  congr 1
  induction zs with
  | nil => rfl
  | cons z zs ih => simp [pow_two]

theorem corrCore_self (T : Tr) (zs : List Rat) (hne : sxx zs ≠ 0) (hb : T.SqrtBelowAt (sxx zs)) :
    corrCore T (fins zs) (fins zs) = fin 1 := by
  have hz : zs ≠ [] := by rintro rfl; exact hne (by simp [sxx])
  have hp : 0 < sxx zs := lt_of_le_of_ne (sxx_nonneg zs) (Ne.symm hne)
  rw [corrCore_fins T zs zs hz hz, sxy_self, sqrt_sxx]
  simp only [fin_div, hb.1.ne', if_false, clipUnit_fin]
  have h1 : 1 ≤ sxx zs / T.sqrtQ (sxx zs) / T.sqrtQ (sxx zs) := by
    rw [div_div, one_le_div (mul_pos hb.1 hb.1)]; exact hb.2
  congr 1
  split_ifs with a b
  · rfl
  · linarith
  · linarith

/-- **perfect score of corr**: a non-constant series correlates with itself with r = 1 — exactly
1 whenever the computed root of Σ(o−ō)² is exact or rounded down (the limiting to [-1, 1] then
absorbs the excess); a root rounded up gives 1 − O(ε) (IEEE rounding, trusted base) -/
theorem C05_perfect_corr (T : Tr) (os : List Rat) (hnc : ¬ Constant os) (hb : T.SqrtBelowAt (sxx os)) :
    corr T (fins os) (fins os) = fin 1 := by
  have hne : sxx os ≠ 0 := fun h => hnc ((sxx_eq_zero_iff os).mp h)
  have h1 : ¬ os.length ≤ 1 := fun h => hne (sxx_short os h)
  have hone : os ≠ [] := by rintro rfl; simp at h1
  unfold corr
  simp only [fins, Vec.ofRats_length, h1, if_false]
  rw [← fins, var_fins os hone]
  have hv : Spec.Det.var os ≠ 0 := fun h => hne ((var_eq_zero_iff os hone).mp h)
  simp only [eqb_fin, hv, decide_false, Bool.false_eq_true, if_false]
  exact corrCore_self T os hne hb

/-- symmetry of Pearson's r -/
theorem sxy_comm (xs ys : List Rat) : sxy xs ys = sxy ys xs := by
  unfold sxy
  rw [List.zipWith_comm]
  congr 2
  funext a b; ring

theorem C05_pearson_symm (T : Tr) (xs ys : List Rat) : pearson T xs ys = pearson T ys xs := by
  unfold pearson
  rw [sxy_comm xs ys]
  by_cases h : sxx xs = 0 ∨ sxx ys = 0
  · simp [h, h.symm]
  · have h' : ¬ (sxx ys = 0 ∨ sxx xs = 0) := fun e => h e.symm
    simp only [h, h', if_false, sqrt_sxx, fin_mul, mul_comm]


/-- np.corrcoef of finite data is Pearson's r limited to [-1, 1] (NaN for a constant series) -/
theorem corrCore_eq (T : Tr) (hT : T.Lawful) (hpos : T.SqrtPos) (os fs : List Rat)
    (ho : os ≠ []) (hf : fs ≠ []) : corrCore T (fins os) (fins fs) = clipUnit (pearson T os fs) := by
  by_cases h : sxx os = 0 ∨ sxx fs = 0
  · rw [corrCore_constant T hT os fs ho hf h]
    simp [pearson, h, clipUnit_nan]
  · exact corrCore_pearson T hpos os fs (fun e => h (Or.inl e)) (fun e => h (Or.inr e))

/-! ### average ranks, rankcorr -/

private theorem filter_fins_length (p : XR → Bool) (q : Rat → Bool) (h : ∀ y, p (fin y) = q y)
    (xs : List Rat) : ((fins xs).filter p).length = (xs.filter q).length := by
  induction xs with
  | nil => rfl
  | cons x xs ih =>
    simp only [fins, Vec.ofRats_cons, List.filter_cons, h] at ih ⊢
    split <;> simp [ih]

theorem countLe_eq (xs : List Rat) (x : Rat) :
    (xs.filter fun y => y ≤ x).length = countLt xs x + countEq xs x := by
  unfold countLt countEq
  induction xs with
  | nil => rfl
  | cons y ys ih =>
    simp only [List.filter_cons]
    rcases lt_trichotomy y x with h | h | h
    · simp [h, h.le, h.ne, ih]; omega
    · simp [h, ih]; omega
    · simp [not_le.mpr h, not_lt.mpr h.le, h.ne', ih]

/-- SciPy's `0.5 * (count[dense] + count[dense-1] + 1)` is the textbook average rank -/
theorem rankdata_fins (xs : List Rat) : rankdata (fins xs) = fins (avgRanks xs) := by
  unfold rankdata avgRanks
  have hle : ∀ x, ((fins xs).filter fun y => XR.le y (fin x)).length = (xs.filter fun y => y ≤ x).length :=
    fun x => filter_fins_length _ _ (fun y => rfl) xs
  have hlt : ∀ x, ((fins xs).filter fun y => XR.lt y (fin x)).length = countLt xs x :=
    fun x => filter_fins_length _ _ (fun y => rfl) xs
  simp only [fins, Vec.ofRats_map, List.map_map]
  apply List.map_congr_left
  intro x _
  simp only [Function.comp_def]
  have h1 := hle x
  have h2 := hlt x
  simp only [fins, Vec.ofRats_map] at h1 h2
  rw [h1, h2, countLe_eq]
  congr 1
  unfold avgRank
  push_cast; ring

theorem avgRanks_length (xs : List Rat) : (avgRanks xs).length = xs.length := by simp [avgRanks]

/-- **rankcorr equals its definition**: Spearman's coefficient = Pearson's r of the average ranks,
limited to [-1, 1]; NaN for fewer than two pairs or a constant series -/
theorem C05_rankcorr_def (T : Tr) (hT : T.Lawful) (hpos : T.SqrtPos) (os fs : List Rat)
    (hl : os.length = fs.length) :
    rankcorr T (fins os) (fins fs) = clipUnit (spearman T os fs) := by
  unfold rankcorr spearman
  by_cases h1 : os.length ≤ 1
  · have : sxx (avgRanks os) = 0 := sxx_short _ (by rw [avgRanks_length]; exact h1)
    simp [fins, h1, pearson, this, clipUnit_nan]
  · have hone : avgRanks os ≠ [] := by
      intro h; have := avgRanks_length os; rw [h] at this; simp at this; omega
    have hfne : avgRanks fs ≠ [] := by
      intro h; have := avgRanks_length fs; rw [h] at this; simp at this; omega
    simp only [fins, Vec.ofRats_length, h1, if_false]
    rw [← fins, ← fins, rankdata_fins, rankdata_fins]
    exact corrCore_eq T hT hpos _ _ hone hfne

theorem rankcorr_short (T : Tr) (obs fcst : Vec) (h : obs.length ≤ 1) : rankcorr T obs fcst = nan := by
  simp [rankcorr, h]

/-- **invariance**: average ranks depend only on the order of the values — any strictly
increasing re-scaling (°C → K, a logarithm of positive data, …) leaves them unchanged -/
theorem C05_avgRanks_strictMono (g : Rat → Rat) (hg : StrictMono g) (xs : List Rat) :
    avgRanks (xs.map g) = avgRanks xs := by
  unfold avgRanks
  rw [List.map_map]
  apply List.map_congr_left
  intro x _
  simp only [Function.comp_def, avgRank, countLt, countEq, List.filter_map, List.length_map,
    hg.lt_iff_lt, hg.injective.eq_iff]

theorem C05_spearman_strictMono (T : Tr) (g : Rat → Rat) (hg : StrictMono g) (xs ys : List Rat) :
    spearman T (xs.map g) ys = spearman T xs ys ∧ spearman T xs (ys.map g) = spearman T xs ys := by
  simp [spearman, C05_avgRanks_strictMono g hg]

theorem C05_spearman_symm (T : Tr) (xs ys : List Rat) : spearman T xs ys = spearman T ys xs :=
  C05_pearson_symm T _ _

/-- |Spearman| ≤ 1 in the squared, root-free form -/
theorem C05_bound_spearman_sq (xs ys : List Rat) :
    sxy (avgRanks xs) (avgRanks ys) ^ 2 ≤ sxx (avgRanks xs) * sxx (avgRanks ys) :=
  C05_bound_pearson_sq _ _

/-- the model never returns a value outside [-1, 1], for every `Tr` and all data -/
theorem C05_bound_rankcorr (T : Tr) (obs fcst : Vec) :
    rankcorr T obs fcst = nan ∨ ∃ q : Rat, rankcorr T obs fcst = fin q ∧ -1 ≤ q ∧ q ≤ 1 := by
  unfold rankcorr
  split_ifs
  · left; rfl
  · exact clipUnit_range _


/-! ### perfect score of rankcorr -/

private theorem countLe_le_countLt (xs : List Rat) (a b : Rat) (h : a < b) :
    (xs.filter fun y => y ≤ a).length ≤ countLt xs b := by
  unfold countLt
  induction xs with
  | nil => simp
  | cons y ys ih =>
    simp only [List.filter_cons]
    by_cases hy : y ≤ a
    · have : y < b := lt_of_le_of_lt hy h
      simp only [hy, this, decide_true, if_true, List.length_cons]
      omega
    · simp only [hy, decide_false, Bool.false_eq_true, if_false]
      split
      · simp only [List.length_cons]; omega
      · exact ih

private theorem countEq_pos (xs : List Rat) (a : Rat) (h : a ∈ xs) : 1 ≤ countEq xs a := by
  unfold countEq
  exact List.length_pos_of_mem (List.mem_filter.mpr ⟨h, by simp⟩)

/-- a larger value has a larger average rank -/
theorem avgRank_lt (xs : List Rat) (a b : Rat) (ha : a ∈ xs) (h : a < b) :
    avgRank xs a < avgRank xs b := by
  have h1 := countLe_le_countLt xs a b h
  rw [countLe_eq] at h1
  have h2 := countEq_pos xs a ha
  have h1' : (countLt xs a : Rat) + countEq xs a ≤ countLt xs b := by exact_mod_cast h1
  have h2' : (1 : Rat) ≤ countEq xs a := by exact_mod_cast h2
  have h3 : (0 : Rat) ≤ countEq xs b := Nat.cast_nonneg _
  unfold avgRank
  linarith

theorem ranks_not_constant (os : List Rat) (h : ¬ Constant os) : ¬ Constant (avgRanks os) := by
  unfold Constant at h
  push_neg at h
  obtain ⟨a, ha, b, hb, hab⟩ := h
  intro hc
  have e := hc (avgRank os a) (List.mem_map.mpr ⟨a, ha, rfl⟩) (avgRank os b) (List.mem_map.mpr ⟨b, hb, rfl⟩)
  rcases lt_or_gt_of_ne hab with h | h
  · exact absurd e (avgRank_lt os a b ha h).ne
  · exact absurd e (avgRank_lt os b a hb h).ne'

/-- **perfect score of rankcorr**: a non-constant series has rank correlation 1 with itself
(exactly 1 whenever the computed root of the rank sum of squares is exact or rounded down) -/
theorem C05_perfect_rankcorr (T : Tr) (os : List Rat) (hnc : ¬ Constant os)
    (hb : T.SqrtBelowAt (sxx (avgRanks os))) : rankcorr T (fins os) (fins os) = fin 1 := by
  have hr := ranks_not_constant os hnc
  have hne : sxx (avgRanks os) ≠ 0 := fun h => hr ((sxx_eq_zero_iff _).mp h)
  have h1 : ¬ os.length ≤ 1 := fun h => hne (sxx_short _ (by rw [avgRanks_length]; exact h))
  unfold rankcorr
  simp only [fins, Vec.ofRats_length, h1, if_false]
  rw [← fins, rankdata_fins]
  exact corrCore_self T _ hne hb

/-- a constant series has no rank correlation: NaN -/
theorem C05_rankcorr_undefined (T : Tr) (hT : T.Lawful) (hpos : T.SqrtPos) (os fs : List Rat)
    (hl : os.length = fs.length) (h : Constant os ∨ Constant fs) :
    rankcorr T (fins os) (fins fs) = nan := by
  rw [C05_rankcorr_def T hT hpos os fs hl]
  have hc : ∀ xs : List Rat, Constant xs → sxx (avgRanks xs) = 0 := by
    intro xs hx
    rw [sxx_eq_zero_iff]
    intro a ha b hb
    obtain ⟨x, hx', rfl⟩ := List.mem_map.mp ha
    obtain ⟨y, hy', rfl⟩ := List.mem_map.mp hb
    rw [hx x hx' y hy']
  unfold spearman pearson
  rcases h with h | h
  · simp [hc _ h, clipUnit_nan]
  · simp [hc _ h, clipUnit_nan]


/-! ### Kendall's tau-b -/

/-- every pair is concordant, discordant, tied in x only, tied in y only, or tied in both
(SciPy's `tot = con + dis + xtie + ytie - ntie`) -/theorem kendall_partition (ps : List ((Rat × Rat) × (Rat × Rat))) :
    ps.length + (ps.filter fun p => decide (p.1.1 = p.2.1) && decide (p.1.2 = p.2.2)).length
      = (ps.filter fun p => concordant p.1 p.2).length + (ps.filter fun p => discordant p.1 p.2).length
        + (ps.filter fun p => decide (p.1.1 = p.2.1)).length
        + (ps.filter fun p => decide (p.1.2 = p.2.2)).length := by
  induction ps with
  | nil => rfl
  | cons p ps ih =>
    obtain ⟨⟨a, b⟩, ⟨c, d⟩⟩ := p
    simp only [List.filter_cons, concordant, discordant, List.length_cons] at ih ⊢
    rcases lt_trichotomy a c with h1 | h1 | h1 <;> rcases lt_trichotomy b d with h2 | h2 | h2 <;>
      simp [h1, h2, lt_asymm, ne_of_lt, ne_of_gt] <;> omega

theorem pairsOf_eq {α : Type} (l : List α) : pairsOf l = Spec.Rank.pairs l := by
  induction l with
  | nil => rfl
  | cons x xs ih => simp [pairsOf, Spec.Rank.pairs, ih]

theorem pairs_map {α β : Type} (h : α → β) (l : List α) :
    Spec.Rank.pairs (l.map h) = (Spec.Rank.pairs l).map (Prod.map h h) := by
  induction l with
  | nil => rfl
  | cons x xs ih => simp [Spec.Rank.pairs, ih, List.map_map, Function.comp_def]

def finPair (p : Rat × Rat) : XR × XR := (fin p.1, fin p.2)

theorem zip_fins (xs ys : List Rat) : (fins xs).zip (fins ys) = (xs.zip ys).map finPair := by
  simp only [fins, Vec.ofRats_map, List.zip_map]
  rfl

@[simp] theorem lt_fin (a b : Rat) : XR.lt (fin a) (fin b) = decide (a < b) := rfl

theorem kendallCore_fins (T : Tr) (xs ys : List Rat) :
    kendallCore T (fins xs) (fins ys) =
      if n1 xs ys = n0 xs ys ∨ n2 xs ys = n0 xs ys then nan
      else clipUnit (fin ((nConc xs ys : Rat) - (nDisc xs ys : Rat))
        / T.sqrt (fin (((n0 xs ys : Rat) - (n1 xs ys : Rat)) * ((n0 xs ys : Rat) - (n2 xs ys : Rat))))) := by
  have hp := kendall_partition (Spec.Rank.pairs (xs.zip ys))
  unfold kendallCore n0 n1 n2 nConc nDisc
  rw [pairsOf_eq, zip_fins, pairs_map]
  simp only [List.filter_map, List.length_map, Function.comp_def, Prod.map, finPair, eqb_fin, lt_fin]
  simp only [discordant] at hp ⊢
  generalize (Spec.Rank.pairs (xs.zip ys)).length = tot at hp ⊢
  generalize (List.filter (fun x => decide (x.1.1 = x.2.1)) (Spec.Rank.pairs (xs.zip ys))).length = xt at hp ⊢
  generalize (List.filter (fun x => decide (x.1.2 = x.2.2)) (Spec.Rank.pairs (xs.zip ys))).length = yt at hp ⊢
  generalize (List.filter (fun x => decide (x.1.1 = x.2.1) && decide (x.1.2 = x.2.2))
    (Spec.Rank.pairs (xs.zip ys))).length = nt at hp ⊢
  generalize (List.filter (fun pq => concordant pq.1 pq.2) (Spec.Rank.pairs (xs.zip ys))).length = c at hp ⊢
  generalize (List.filter (fun x => decide (x.1.1 < x.2.1) && decide (x.2.2 < x.1.2) ||
    decide (x.2.1 < x.1.1) && decide (x.1.2 < x.2.2)) (Spec.Rank.pairs (xs.zip ys))).length = d at hp ⊢
  have hq : (tot : Rat) + nt = c + d + xt + yt := by exact_mod_cast hp
  split_ifs
  · rfl
  · congr 3
    · push_cast; linarith
    · congr 1; push_cast; ring


theorem mem_pairs {α : Type} (l : List α) (pq : α × α) (h : pq ∈ Spec.Rank.pairs l) :
    pq.1 ∈ l ∧ pq.2 ∈ l := by
  induction l with
  | nil => simp [Spec.Rank.pairs] at h
  | cons x xs ih =>
    simp only [Spec.Rank.pairs, List.mem_append, List.mem_map] at h
    rcases h with ⟨y, hy, rfl⟩ | h
    · simp [hy]
    · have := ih h; simp [this.1, this.2]

theorem pairs_short {α : Type} (l : List α) (h : l.length ≤ 1) : Spec.Rank.pairs l = [] := by
  match l, h with
  | [], _ => rfl
  | [x], _ => rfl

theorem n2_constant (xs ys : List Rat) (h : Constant ys) : n2 xs ys = n0 xs ys := by
  unfold n2 n0
  congr 1
  rw [List.filter_eq_self]
  intro pq hpq
  have := mem_pairs _ pq hpq
  have h1 := (List.of_mem_zip (show (pq.1.1, pq.1.2) ∈ xs.zip ys from this.1)).2
  have h2 := (List.of_mem_zip (show (pq.2.1, pq.2.2) ∈ xs.zip ys from this.2)).2
  simp [h _ h1 _ h2]

theorem n1_constant (xs ys : List Rat) (h : Constant xs) : n1 xs ys = n0 xs ys := by
  unfold n1 n0
  congr 1
  rw [List.filter_eq_self]
  intro pq hpq
  have := mem_pairs _ pq hpq
  have h1 := (List.of_mem_zip (show (pq.1.1, pq.1.2) ∈ xs.zip ys from this.1)).1
  have h2 := (List.of_mem_zip (show (pq.2.1, pq.2.2) ∈ xs.zip ys from this.2)).1
  simp [h _ h1 _ h2]

/-- **kendallcorr equals its definition**: tau-b limited to [-1, 1] (SciPy's counting identity
`con − dis = tot − xtie − ytie + ntie − 2·dis` is part of what is proved); NaN for fewer than two
pairs or a constant series.  For every `Tr`. -/
theorem C05_kendall_def (T : Tr) (os fs : List Rat) (hl : os.length = fs.length) :
    kendallcorr T (fins os) (fins fs) = clipUnit (tauB T os fs) := by
  unfold kendallcorr
  by_cases h1 : os.length ≤ 1
  · have : Spec.Rank.pairs (os.zip fs) = [] := pairs_short _ (by simp; omega)
    simp [fins, h1, tauB, n0, n1, this, clipUnit_nan]
  · have hone : os ≠ [] := by rintro rfl; simp at h1
    have hfne : fs ≠ [] := by rintro rfl; apply hone; simpa using hl
    simp only [fins, Vec.ofRats_length, h1, if_false]
    rw [← fins, ← fins, var_fins fs hfne]
    by_cases hf : sxx fs = 0
    · have : Spec.Det.var fs = 0 := (var_eq_zero_iff fs hfne).mpr hf
      have hc := n2_constant os fs ((sxx_eq_zero_iff fs).mp hf)
      simp [this, tauB, hc, clipUnit_nan]
    · have hv : Spec.Det.var fs ≠ 0 := fun h => hf ((var_eq_zero_iff fs hfne).mp h)
      simp only [eqb_fin, hv, decide_false, Bool.false_eq_true, if_false]
      rw [kendallCore_fins]
      unfold tauB
      split_ifs
      · rfl
      · rfl

theorem C05_kendall_undefined (T : Tr) (os fs : List Rat) (hl : os.length = fs.length)
    (h : Constant os ∨ Constant fs) : kendallcorr T (fins os) (fins fs) = nan := by
  rw [C05_kendall_def T os fs hl]
  unfold tauB
  rcases h with h | h
  · simp [n1_constant os fs h, clipUnit_nan]
  · simp [n2_constant os fs h, clipUnit_nan]

/-- the model never returns a value outside [-1, 1], for every `Tr` and all data -/
theorem C05_bound_kendallcorr (T : Tr) (obs fcst : Vec) :
    kendallcorr T obs fcst = nan ∨ ∃ q : Rat, kendallcorr T obs fcst = fin q ∧ -1 ≤ q ∧ q ≤ 1 := by
  unfold kendallcorr kendallCore
  simp only
  split_ifs
  · left; rfl
  · left; rfl
  · left; rfl
  · exact clipUnit_range _

private theorem filter_and_le {α : Type} (p q : α → Bool) (l : List α) :
    (l.filter fun x => p x && q x).length ≤ (l.filter q).length := by
  induction l with
  | nil => simp
  | cons x xs ih =>
    simp only [List.filter_cons]
    cases hp : p x <;> cases hq : q x <;> simp <;> omega

/-- **|tau-b| ≤ 1**, root-free: |C − D| ≤ C + D ≤ number of pairs untied in x (and in y), hence
(C − D)² ≤ (n₀ − n₁)(n₀ − n₂) -/
theorem C05_bound_kendall (xs ys : List Rat) :
    nConc xs ys + nDisc xs ys + n1 xs ys ≤ n0 xs ys ∧ nConc xs ys + nDisc xs ys + n2 xs ys ≤ n0 xs ys
    ∧ ((nConc xs ys : Rat) - nDisc xs ys) ^ 2
        ≤ ((n0 xs ys : Rat) - n1 xs ys) * ((n0 xs ys : Rat) - n2 xs ys) := by
  have hp := kendall_partition (Spec.Rank.pairs (xs.zip ys))
  have h1 := filter_and_le (fun p : (Rat × Rat) × (Rat × Rat) => decide (p.1.1 = p.2.1))
    (fun p => decide (p.1.2 = p.2.2)) (Spec.Rank.pairs (xs.zip ys))
  have h2 := filter_and_le (fun p : (Rat × Rat) × (Rat × Rat) => decide (p.1.2 = p.2.2))
    (fun p => decide (p.1.1 = p.2.1)) (Spec.Rank.pairs (xs.zip ys))
  simp only [Bool.and_comm] at h2
  have a : nConc xs ys + nDisc xs ys + n1 xs ys ≤ n0 xs ys := by
    unfold nConc nDisc n1 n0; omega
  have b : nConc xs ys + nDisc xs ys + n2 xs ys ≤ n0 xs ys := by
    unfold nConc nDisc n2 n0; omega
  refine ⟨a, b, ?_⟩
  have a' : (nConc xs ys : Rat) + nDisc xs ys + n1 xs ys ≤ n0 xs ys := by exact_mod_cast a
  have b' : (nConc xs ys : Rat) + nDisc xs ys + n2 xs ys ≤ n0 xs ys := by exact_mod_cast b
  have c0 : (0 : Rat) ≤ nConc xs ys := Nat.cast_nonneg _
  have d0 : (0 : Rat) ≤ nDisc xs ys := Nat.cast_nonneg _
  have e1 : ((nConc xs ys : Rat) - nDisc xs ys) ^ 2 ≤ ((nConc xs ys : Rat) + nDisc xs ys) ^ 2 := by
    nlinarith [mul_nonneg c0 d0]
  have e2 : ((nConc xs ys : Rat) + nDisc xs ys) ^ 2
      ≤ ((n0 xs ys : Rat) - n1 xs ys) * ((n0 xs ys : Rat) - n2 xs ys) := by
    rw [pow_two]
    apply mul_le_mul <;> linarith
  linarith

/-- with an exact root tau-b itself lies in [-1, 1] and `KendallCorr` returns it unchanged -/
theorem C05_kendall_def_exact (T : Tr) (os fs : List Rat) (hl : os.length = fs.length)
    (hx : T.SqrtExactAt (((n0 os fs : Rat) - n1 os fs) * ((n0 os fs : Rat) - n2 os fs))) :
    kendallcorr T (fins os) (fins fs) = tauB T os fs := by
  rw [C05_kendall_def T os fs hl]
  unfold tauB
  split_ifs with h
  · rfl
  · obtain ⟨a, b, c⟩ := C05_bound_kendall os fs
    have h1 : n1 os fs ≠ n0 os fs := fun e => h (Or.inl e)
    have h2 : n2 os fs ≠ n0 os fs := fun e => h (Or.inr e)
    have p1 : (0 : Rat) < (n0 os fs : Rat) - n1 os fs := by
      have : n1 os fs < n0 os fs := by omega
      have : (n1 os fs : Rat) < n0 os fs := by exact_mod_cast this
      linarith
    have p2 : (0 : Rat) < (n0 os fs : Rat) - n2 os fs := by
      have : n2 os fs < n0 os fs := by omega
      have : (n2 os fs : Rat) < n0 os fs := by exact_mod_cast this
      linarith
    have pp := mul_pos p1 p2
    have ps := exact_pos T _ hx pp.ne'
    simp only [Tr.sqrt_fin, not_lt.mpr pp.le, if_false, fin_div, ps.ne']
    apply clipUnit_id
    · have hsq : ((nConc os fs : Rat) - nDisc os fs) ^ 2 ≤ (T.sqrtQ (((n0 os fs : Rat) - n1 os fs) * ((n0 os fs : Rat) - n2 os fs))) ^ 2 := by
        rw [pow_two (T.sqrtQ _), hx.2]; exact c
      have := abs_le_of_sq_le_sq' hsq ps.le
      rw [le_div_iff₀ ps]; linarith [this.1]
    · have hsq : ((nConc os fs : Rat) - nDisc os fs) ^ 2 ≤ (T.sqrtQ (((n0 os fs : Rat) - n1 os fs) * ((n0 os fs : Rat) - n2 os fs))) ^ 2 := by
        rw [pow_two (T.sqrtQ _), hx.2]; exact c
      have := abs_le_of_sq_le_sq' hsq ps.le
      rw [div_le_one ps]; exact this.2

/-! perfect score -/

theorem zip_self (xs : List Rat) : xs.zip xs = xs.map fun x => (x, x) := by
  induction xs with
  | nil => rfl
  | cons x xs ih => simp [ih]

private theorem disc_self (a c : Rat) : discordant (a, a) (c, c) = false := by
  unfold discordant
  rcases lt_trichotomy a c with h | h | h <;> simp [h, lt_asymm]

theorem nDisc_self (os : List Rat) : nDisc os os = 0 := by
  unfold nDisc
  rw [zip_self, pairs_map, List.filter_map, List.length_map]
  simp [Function.comp_def, Prod.map, disc_self]

theorem n2_self (os : List Rat) : n2 os os = n1 os os := by
  unfold n1 n2
  rw [zip_self, pairs_map, List.filter_map, List.filter_map]
  simp [Function.comp_def, Prod.map]

theorem nConc_self (os : List Rat) : nConc os os + n1 os os = n0 os os := by
  have hp := kendall_partition (Spec.Rank.pairs (os.zip os))
  have hd := nDisc_self os
  have h2 := n2_self os
  have hn : (List.filter (fun p : (Rat × Rat) × (Rat × Rat) => decide (p.1.1 = p.2.1) && decide (p.1.2 = p.2.2))
      (Spec.Rank.pairs (os.zip os))).length = n1 os os := by
    unfold n1
    rw [zip_self, pairs_map, List.filter_map, List.filter_map]
    simp [Function.comp_def, Prod.map]
  unfold nDisc at hd
  unfold n2 at h2
  rw [hn, hd, h2] at hp
  unfold nConc n0
  unfold n1 at hp ⊢
  omega

theorem mem_pairs_of_ne (l : List Rat) (a b : Rat) (ha : a ∈ l) (hb : b ∈ l) (hab : a ≠ b) :
    (a, b) ∈ Spec.Rank.pairs l ∨ (b, a) ∈ Spec.Rank.pairs l := by
  induction l with
  | nil => simp at ha
  | cons x xs ih =>
    simp only [Spec.Rank.pairs, List.mem_append, List.mem_map, Prod.mk.injEq]
    rcases List.mem_cons.mp ha with rfl | ha' <;> rcases List.mem_cons.mp hb with rfl | hb'
    · exact absurd rfl hab
    · left; left; exact ⟨b, hb', rfl, rfl⟩
    · right; left; exact ⟨a, ha', rfl, rfl⟩
    · rcases ih ha' hb' with h | h
      · left; right; exact h
      · right; right; exact h

theorem n1_lt_of_not_constant (os : List Rat) (h : ¬ Constant os) : n1 os os < n0 os os := by
  unfold Constant at h
  push_neg at h
  obtain ⟨a, ha, b, hb, hab⟩ := h
  unfold n1 n0
  rw [List.length_filter_lt_length_iff_exists]
  rw [zip_self, pairs_map]
  rcases mem_pairs_of_ne os a b ha hb hab with h | h
  · exact ⟨_, List.mem_map.mpr ⟨(a, b), h, rfl⟩, by simp [Prod.map, hab]⟩
  · exact ⟨_, List.mem_map.mpr ⟨(b, a), h, rfl⟩, by simp [Prod.map, Ne.symm hab]⟩

/-- **perfect score of kendallcorr**: a non-constant series has tau-b = 1 with itself: every
pair untied in the observations is concordant, none is discordant (exactly 1 whenever the computed
root of m·m, m = number of untied pairs, does not exceed m — as for an exact root) -/
theorem C05_perfect_kendallcorr (T : Tr) (os : List Rat) (hnc : ¬ Constant os)
    (hb : T.SqrtBelowAt (((n0 os os : Rat) - n1 os os) * ((n0 os os : Rat) - n1 os os))) :
    kendallcorr T (fins os) (fins os) = fin 1 := by
  rw [C05_kendall_def T os os rfl]
  have hlt := n1_lt_of_not_constant os hnc
  have hc := nConc_self os
  have hm : (nConc os os : Rat) = (n0 os os : Rat) - n1 os os := by
    have : (nConc os os : Rat) + n1 os os = n0 os os := by exact_mod_cast hc
    linarith
  have hpos : (0 : Rat) < (n0 os os : Rat) - n1 os os := by
    have : (n1 os os : Rat) < n0 os os := by exact_mod_cast hlt
    linarith
  unfold tauB
  rw [n2_self, nDisc_self]
  have hne : ¬ (n1 os os = n0 os os ∨ n1 os os = n0 os os) := by omega
  simp only [hne, if_false, Tr.sqrt_fin, not_lt.mpr (mul_pos hpos hpos).le, fin_div, hb.1.ne',
    Nat.cast_zero, sub_zero, hm, clipUnit_fin]
  have hs : T.sqrtQ (((n0 os os : Rat) - n1 os os) * ((n0 os os : Rat) - n1 os os)) ≤ (n0 os os : Rat) - n1 os os := by
    have h2 : (T.sqrtQ (((n0 os os : Rat) - n1 os os) * ((n0 os os : Rat) - n1 os os))) ^ 2 ≤ ((n0 os os : Rat) - n1 os os) ^ 2 := by
      rw [pow_two, pow_two]; exact hb.2
    exact (abs_le_of_sq_le_sq' h2 hpos.le).2
  have h1 : 1 ≤ ((n0 os os : Rat) - n1 os os) / T.sqrtQ (((n0 os os : Rat) - n1 os os) * ((n0 os os : Rat) - n1 os os)) := by
    rw [one_le_div hb.1]; exact hs
  congr 1
  split_ifs with a b
  · rfl
  · linarith
  · linarith

/-! invariance and symmetry of tau-b -/

theorem zip_map_left (g : Rat → Rat) (xs ys : List Rat) :
    (xs.map g).zip ys = (xs.zip ys).map (Prod.map g id) := by
  rw [← List.zip_map, List.map_id]

theorem zip_map_right (g : Rat → Rat) (xs ys : List Rat) :
    xs.zip (ys.map g) = (xs.zip ys).map (Prod.map id g) := by
  rw [← List.zip_map, List.map_id]

/-- the five pair counts are unchanged by a strictly increasing map of the first series -/
theorem counts_strictMono_left (g : Rat → Rat) (hg : StrictMono g) (xs ys : List Rat) :
    n0 (xs.map g) ys = n0 xs ys ∧ n1 (xs.map g) ys = n1 xs ys ∧ n2 (xs.map g) ys = n2 xs ys
    ∧ nConc (xs.map g) ys = nConc xs ys ∧ nDisc (xs.map g) ys = nDisc xs ys := by
  unfold n0 n1 n2 nConc nDisc
  simp only [zip_map_left, pairs_map, List.length_map, List.filter_map, Function.comp_def, Prod.map,
    concordant, discordant, id, hg.lt_iff_lt, hg.injective.eq_iff, and_self]

theorem counts_strictMono_right (g : Rat → Rat) (hg : StrictMono g) (xs ys : List Rat) :
    n0 xs (ys.map g) = n0 xs ys ∧ n1 xs (ys.map g) = n1 xs ys ∧ n2 xs (ys.map g) = n2 xs ys
    ∧ nConc xs (ys.map g) = nConc xs ys ∧ nDisc xs (ys.map g) = nDisc xs ys := by
  unfold n0 n1 n2 nConc nDisc
  simp only [zip_map_right, pairs_map, List.length_map, List.filter_map, Function.comp_def, Prod.map,
    concordant, discordant, id, hg.lt_iff_lt, hg.injective.eq_iff, and_self]

/-- **invariance**: tau-b is unchanged by a strictly increasing map of either series -/
theorem C05_tauB_strictMono (T : Tr) (g : Rat → Rat) (hg : StrictMono g) (xs ys : List Rat) :
    tauB T (xs.map g) ys = tauB T xs ys ∧ tauB T xs (ys.map g) = tauB T xs ys := by
  obtain ⟨a0, a1, a2, a3, a4⟩ := counts_strictMono_left g hg xs ys
  obtain ⟨b0, b1, b2, b3, b4⟩ := counts_strictMono_right g hg xs ys
  unfold tauB
  simp only [a0, a1, a2, a3, a4, b0, b1, b2, b3, b4, and_self]

theorem zip_swap' (xs ys : List Rat) : ys.zip xs = (xs.zip ys).map Prod.swap :=
  (List.zip_swap xs ys).symm

theorem counts_swap (xs ys : List Rat) :
    n0 ys xs = n0 xs ys ∧ n1 ys xs = n2 xs ys ∧ n2 ys xs = n1 xs ys
    ∧ nConc ys xs = nConc xs ys ∧ nDisc ys xs = nDisc xs ys := by
  unfold n0 n1 n2 nConc nDisc
  rw [zip_swap' xs ys]
  simp only [pairs_map, List.length_map, List.filter_map, Function.comp_def, Prod.map, Prod.swap,
    concordant, discordant, true_and]
  refine ⟨?_, ?_⟩
  · congr 2; funext p; simp only [Bool.and_comm]
  · congr 2; funext p
    rw [Bool.or_comm]
    simp only [Bool.and_comm]

/-- **symmetry** of tau-b in (obs, fcst) -/
theorem C05_tauB_symm (T : Tr) (xs ys : List Rat) : tauB T ys xs = tauB T xs ys := by
  obtain ⟨a0, a1, a2, a3, a4⟩ := counts_swap xs ys
  unfold tauB
  simp only [a0, a1, a2, a3, a4]
  rw [mul_comm]
  simp only [or_comm]

/-! ### KGE -/

theorem xr_add_right_comm (a b c : XR) : a + b + c = a + c + b := by
  cases a <;> cases b <;> cases c <;> first | rfl | (simp only [fin_add]; congr 1; ring)

theorem std_fins (T : Tr) (xs : List Rat) (h : xs ≠ []) :
    Vec.std T (fins xs) = fin (T.sqrtQ (Spec.Det.var xs)) := by
  unfold Vec.std
  rw [var_fins xs h, Tr.sqrt_fin]
  simp [not_lt.mpr (var_nonneg xs)]

/-- **kge equals its definition** (Gupta et al. 2009) wherever Pearson's r needs no limiting
(`hclip`; true whenever the two roots are exact, `C05_bound_pearson`); NaN when a series is
constant. -/
theorem C05_kge_def (T : Tr) (hT : T.Lawful) (hpos : T.SqrtPos) (os fs : List Rat)
    (hne : os ≠ []) (hl : os.length = fs.length)
    (hclip : clipUnit (pearson T os fs) = pearson T os fs) :
    VerifModel.kge T (fins os) (fins fs) = Spec.Rank.kge T os fs := by
  have hfne : fs ≠ [] := by rintro rfl; apply hne; simpa using hl
  unfold VerifModel.kge Spec.Rank.kge
  simp only [std_fins T os hne, std_fins T fs hfne, eqb_fin]
  by_cases h : Spec.Det.var os = 0 ∨ Spec.Det.var fs = 0
  · rcases h with h | h <;> simp [h, hT.sqrt_zero]
  · have h1 : Spec.Det.var os ≠ 0 := fun e => h (Or.inl e)
    have h2 : Spec.Det.var fs ≠ 0 := fun e => h (Or.inr e)
    have p1 := hpos _ (lt_of_le_of_ne (var_nonneg os) (Ne.symm h1))
    have p2 := hpos _ (lt_of_le_of_ne (var_nonneg fs) (Ne.symm h2))
    simp only [h, if_false, p1.ne', p2.ne', decide_false, Bool.or_self, Bool.false_eq_true,
      Tr.sqrt_fin, not_lt.mpr (var_nonneg os), not_lt.mpr (var_nonneg fs)]
    rw [corrCore_eq T hT hpos os fs hne hfne, hclip, Vec.mean_ofRats os hne, Vec.mean_ofRats fs hfne]
    rw [xr_add_right_comm]
    rfl

/-- a constant series: NaN -/
theorem C05_kge_undefined (T : Tr) (hT : T.Lawful) (os fs : List Rat) (hne : os ≠ [])
    (hl : os.length = fs.length) (h : Constant os ∨ Constant fs) :
    VerifModel.kge T (fins os) (fins fs) = nan := by
  have hfne : fs ≠ [] := by rintro rfl; apply hne; simpa using hl
  unfold VerifModel.kge
  simp only [std_fins T os hne, std_fins T fs hfne, eqb_fin]
  rcases h with h | h
  · have : Spec.Det.var os = 0 := (var_eq_zero_iff os hne).mpr ((sxx_eq_zero_iff os).mpr h)
    simp [this, hT.sqrt_zero]
  · have : Spec.Det.var fs = 0 := (var_eq_zero_iff fs hfne).mpr ((sxx_eq_zero_iff fs).mpr h)
    simp [this, hT.sqrt_zero]

/-- **perfect score of kge**: fcst = obs gives r = 1, σ_f/σ_o = 1, μ_f/μ_o = 1, hence KGE = 1
(for a non-constant series with non-zero mean; with mean 0 the ratio of the means is 0/0 and KGE
is NaN; root of Σ(o−ō)² exact or rounded down as for `C05_perfect_corr`) -/
theorem C05_perfect_kge (T : Tr) (hT : T.Lawful) (hpos : T.SqrtPos) (os : List Rat)
    (hnc : ¬ Constant os) (hm : Spec.Det.mean os ≠ 0) (hb : T.SqrtBelowAt (sxx os)) :
    VerifModel.kge T (fins os) (fins os) = fin 1 := by
  have hne : sxx os ≠ 0 := fun h => hnc ((sxx_eq_zero_iff os).mp h)
  have hone : os ≠ [] := by rintro rfl; exact hne (by simp [sxx])
  have hv : Spec.Det.var os ≠ 0 := fun h => hne ((var_eq_zero_iff os hone).mp h)
  have p1 := hpos _ (lt_of_le_of_ne (var_nonneg os) (Ne.symm hv))
  have hm' : os.sum / (os.length : Rat) ≠ 0 := hm
  unfold VerifModel.kge
  simp only [std_fins T os hone, eqb_fin, p1.ne', decide_false, Bool.or_self, Bool.false_eq_true, if_false]
  rw [corrCore_self T os hne hb, Vec.mean_ofRats os hone]
  simp [p1.ne', hm', Tr.sqrt_fin, hT.sqrt_zero]

/-- with mean 0 the perfect forecast has no KGE -/
theorem C05_perfect_kge_mean0 (T : Tr) (hpos : T.SqrtPos) (os : List Rat)
    (hnc : ¬ Constant os) (hm : Spec.Det.mean os = 0) (hb : T.SqrtBelowAt (sxx os)) :
    VerifModel.kge T (fins os) (fins os) = nan := by
  have hne : sxx os ≠ 0 := fun h => hnc ((sxx_eq_zero_iff os).mp h)
  have hone : os ≠ [] := by rintro rfl; exact hne (by simp [sxx])
  have hv : Spec.Det.var os ≠ 0 := fun h => hne ((var_eq_zero_iff os hone).mp h)
  have p1 := hpos _ (lt_of_le_of_ne (var_nonneg os) (Ne.symm hv))
  have hm' : os.sum / (os.length : Rat) = 0 := hm
  unfold VerifModel.kge
  simp only [std_fins T os hone, eqb_fin, p1.ne', decide_false, Bool.or_self, Bool.false_eq_true, if_false]
  rw [corrCore_self T os hne hb, Vec.mean_ofRats os hone, hm']
  have e : (fin (0 : Rat) / fin 0 : XR) = nan := by simp [fin_div, infOfSign]
  have e2 : XR.npow nan 2 = nan := rfl
  have e3 : T.sqrt nan = nan := rfl
  simp only [e, nan_sub, e2, add_nan, nan_add, e3, sub_nan]

/-- **no forecast has KGE above the perfect score 1**: for every lawful `Tr` and all data
whatsoever the result is NaN, −inf or a number ≤ 1 -/
theorem C05_bound_kge (T : Tr) (hT : T.Lawful) (obs fcst : Vec) :
    VerifModel.kge T obs fcst = nan ∨ VerifModel.kge T obs fcst = ninf
      ∨ ∃ q : Rat, VerifModel.kge T obs fcst = fin q ∧ q ≤ 1 := by
  unfold VerifModel.kge
  simp only
  split_ifs
  · left; rfl
  · generalize XR.npow (corrCore T obs fcst - fin 1) 2 + XR.npow (Vec.mean fcst / Vec.mean obs - fin 1) 2
      + XR.npow (Vec.std T fcst / Vec.std T obs - fin 1) 2 = X
    cases X with
    | nan => left; rfl
    | ninf => left; rfl
    | pinf => right; left; rfl
    | fin q =>
      rw [Tr.sqrt_fin]
      by_cases hq : q < 0
      · left; simp [hq]
      · right; right
        simp only [hq, if_false, fin_sub]
        exact ⟨_, rfl, by linarith [hT.sqrt_nonneg q (not_lt.mp hq)]⟩

/-! ### LEPS -/

theorem insertSorted_filter_length (p : Rat → Bool) (x : Rat) (ys : List Rat) :
    ((Spec.Det.insertSorted x ys).filter p).length = ((x :: ys).filter p).length := by
  induction ys with
  | nil => rfl
  | cons y ys ih =>
    simp only [Spec.Det.insertSorted]
    split
    · simp only [List.filter_cons] at ih ⊢
      cases hy : p y <;> cases hx : p x <;> simp_all
    · rfl

theorem sort_filter_length (p : Rat → Bool) (xs : List Rat) :
    ((Spec.Det.sort xs).filter p).length = (xs.filter p).length := by
  induction xs with
  | nil => rfl
  | cons x xs ih =>
    have : Spec.Det.sort (x :: xs) = Spec.Det.insertSorted x (Spec.Det.sort xs) := rfl
    rw [this, insertSorted_filter_length]
    simp only [List.filter_cons]
    split <;> simp [ih]

theorem insertSorted_sorted (x : Rat) (ys : List Rat) (h : ys.Pairwise (· ≤ ·)) :
    (Spec.Det.insertSorted x ys).Pairwise (· ≤ ·) := by
  induction ys with
  | nil => simp [Spec.Det.insertSorted]
  | cons y ys ih =>
    simp only [Spec.Det.insertSorted]
    have hy := List.pairwise_cons.mp h
    split
    next hlt =>
      refine List.pairwise_cons.mpr ⟨?_, ih hy.2⟩
      intro z hz
      have hl : ((Spec.Det.insertSorted x ys).filter fun w => decide (w = z)).length
          = ((x :: ys).filter fun w => decide (w = z)).length := insertSorted_filter_length _ x ys
      have hz' : z ∈ x :: ys := by
        have h1 : 0 < ((Spec.Det.insertSorted x ys).filter fun w => decide (w = z)).length :=
          List.length_pos_of_mem (List.mem_filter.mpr ⟨hz, by simp⟩)
        rw [hl] at h1
        obtain ⟨w, hw⟩ := List.exists_mem_of_length_pos h1
        have := List.mem_filter.mp hw
        have e : w = z := by simpa using this.2
        rw [← e]; exact this.1
      rcases List.mem_cons.mp hz' with rfl | hz'
      · exact hlt.le
      · exact hy.1 z hz'
    next hge =>
      refine List.pairwise_cons.mpr ⟨?_, h⟩
      intro z hz
      rcases List.mem_cons.mp hz with rfl | hz'
      · exact not_lt.mp hge
      · exact le_trans (not_lt.mp hge) (hy.1 z hz')

theorem sort_sorted (xs : List Rat) : (Spec.Det.sort xs).Pairwise (· ≤ ·) := by
  induction xs with
  | nil => simp [Spec.Det.sort]
  | cons x xs ih => exact insertSorted_sorted x _ ih

/-- in a sorted list the first position holding a value > f is the number of values ≤ f -/
theorem firstGreater_sorted (f : Rat) (s : List Rat) (hs : s.Pairwise (· ≤ ·)) (k : Nat) :
    firstGreater (fin f) (fins s) k
      = if (s.filter fun y => y ≤ f).length < s.length then some (k + (s.filter fun y => y ≤ f).length)
        else none := by
  induction s generalizing k with
  | nil => rfl
  | cons y ys ih =>
    have hy := List.pairwise_cons.mp hs
    simp only [fins, Vec.ofRats_cons, firstGreater, lt_fin]
    by_cases hfy : f < y
    · have hnil : (y :: ys).filter (fun z => decide (z ≤ f)) = [] := by
        rw [List.filter_eq_nil_iff]
        intro z hz
        rcases List.mem_cons.mp hz with rfl | hz'
        · simpa using hfy
        · have := hy.1 z hz'; simp; linarith
      simp [hfy, hnil]
    · have hle : y ≤ f := not_lt.mp hfy
      have := ih hy.2 (k + 1)
      simp only [fins] at this
      simp only [hfy, decide_false, Bool.false_eq_true, if_false, this, List.filter_cons, hle,
        decide_true, if_true, List.length_cons]
      split_ifs <;> first | rfl | omega | (congr 1; omega)

theorem len_pos_cast (os : List Rat) (hne : os ≠ []) : (os.length : Rat) ≠ 0 := by
  have : 0 < os.length := List.length_pos_iff.mpr hne
  exact_mod_cast this.ne'

/-- the forecast term of the code IS the empirical CDF of the observations at the forecast -/
theorem qfcst_fins (os : List Rat) (hne : os ≠ []) (f : Rat) :
    lepsQfcst (Vec.len (fins os)) (Vec.sort (fins os)) (fin f) = fin (ecdf os f) := by
  have hn := len_pos_cast os hne
  unfold lepsQfcst
  rw [fins, GenEq.Det.sort_ofRats, ← fins, firstGreater_sorted f _ (sort_sorted os) 0,
    sort_filter_length, GenEq.Det.sort_length]
  unfold ecdf
  split_ifs with h
  · simp only [Nat.zero_add, XR.ofNat, Vec.len_ofRats, fin_div, hn, if_false]
  · have hle : (os.filter fun y => decide (y ≤ f)).length ≤ os.length := List.length_filter_le _ _
    have : (os.filter fun y => decide (y ≤ f)).length = os.length := by omega
    simp only [this]
    rw [div_self hn]

/-- what `Leps` computes on finite data, for any argsort result `iobs` -/
theorem lepsWith_fins (iobs : List Nat) (os fs : List Rat) (hne : os ≠ [])
    (hz : List.zipWith (fun f (i : Nat) => ecdf os f - (i : Rat) / (os.length : Rat)) fs iobs ≠ []) :
    lepsWith iobs (fins os) (fins fs)
      = fin (mean ((List.zipWith (fun f (i : Nat) => ecdf os f - (i : Rat) / (os.length : Rat)) fs iobs).map rabs)) := by
  have hn := len_pos_cast os hne
  unfold lepsWith
  simp only
  have hq : (List.map (fun i => XR.ofNat i / Vec.len (fins os)) iobs)
      = Vec.ofRats (iobs.map fun (i : Nat) => ((i : Nat) : Rat) / (os.length : Rat)) := by
    have hlen : Vec.len (fins os) = fin (os.length : Rat) := Vec.len_ofRats os
    rw [hlen]
    simp only [Vec.ofRats_map, List.map_map]
    apply List.map_congr_left
    intro i _
    simp only [Function.comp_def, XR.ofNat, fin_div, hn, if_false]
  have hf : (List.map (lepsQfcst (Vec.len (fins os)) (Vec.sort (fins os))) (fins fs))
      = Vec.ofRats (fs.map (ecdf os)) := by
    simp only [fins, Vec.ofRats_map, List.map_map]
    apply List.map_congr_left
    intro f _
    simp only [Function.comp_def]
    exact qfcst_fins os hne f
  rw [hq, hf, Vec.sub_ofRats, Vec.abs_ofRats]
  have e : List.zipWith (fun x1 x2 => x1 - x2) (List.map (ecdf os) fs)
      (List.map (fun (i : Nat) => (i : Rat) / (os.length : Rat)) iobs)
      = List.zipWith (fun f (i : Nat) => ecdf os f - (i : Rat) / (os.length : Rat)) fs iobs := by
    simp [List.zipWith_map_left, List.zipWith_map_right]
  rw [e, Vec.mean_ofRats _ (by simpa using hz)]
  simp only [Spec.Det.mean, GenEq.Det.map_rabs]

/-! the argsort of the model is a rearrangement of 0 … N−1 -/

theorem argsortIns_length (p : XR × Nat) (l : List (XR × Nat)) :
    (argsortIns p l).length = l.length + 1 := by
  induction l with
  | nil => rfl
  | cons q qs ih => simp only [argsortIns]; split <;> simp [ih]

theorem mem_argsortIns (p r : XR × Nat) (l : List (XR × Nat)) :
    r ∈ argsortIns p l ↔ r = p ∨ r ∈ l := by
  induction l with
  | nil => simp [argsortIns]
  | cons q qs ih =>
    simp only [argsortIns]
    split
    · simp only [List.mem_cons, ih]; tauto
    · simp only [List.mem_cons]

theorem foldr_argsortIns (L : List (XR × Nat)) :
    (L.foldr argsortIns []).length = L.length ∧ ∀ r, r ∈ L.foldr argsortIns [] ↔ r ∈ L := by
  induction L with
  | nil => simp
  | cons p ps ih =>
    simp only [List.foldr_cons, argsortIns_length, ih.1, List.length_cons, true_and]
    intro r
    rw [mem_argsortIns, ih.2, List.mem_cons]

theorem withIdx_length (v : Vec) (k : Nat) : (withIdx v k).length = v.length := by
  induction v generalizing k with
  | nil => rfl
  | cons x xs ih => simp [withIdx, ih]

theorem argsort_length (v : Vec) : (argsort v).length = v.length := by
  simp [argsort, (foldr_argsortIns _).1, withIdx_length]

theorem zero_mem_argsort (v : Vec) (h : v ≠ []) : 0 ∈ argsort v := by
  cases v with
  | nil => exact absurd rfl h
  | cons x xs =>
    unfold argsort
    rw [List.mem_map]
    exact ⟨(x, 0), ((foldr_argsortIns _).2 _).mpr (by simp [withIdx]), rfl⟩

theorem ecdf_pos (os : List Rat) (o : Rat) (h : o ∈ os) : 0 < ecdf os o := by
  unfold ecdf
  have h1 : 0 < (os.filter fun y => decide (y ≤ o)).length :=
    List.length_pos_of_mem (List.mem_filter.mpr ⟨h, by simp⟩)
  have h2 : 0 < os.length := List.length_pos_of_mem h
  have h1' : (0 : Rat) < ((os.filter fun y => decide (y ≤ o)).length : Rat) := by exact_mod_cast h1
  have h2' : (0 : Rat) < (os.length : Rat) := by exact_mod_cast h2
  exact div_pos h1' h2'

private theorem sum_pos_of_mem (l : List Rat) (hn : ∀ x ∈ l, 0 ≤ x) (t : Rat) (ht : t ∈ l) (hp : 0 < t) :
    0 < l.sum := by
  induction l with
  | nil => simp at ht
  | cons a as ih =>
    have ha : 0 ≤ a := hn a (by simp)
    have has : 0 ≤ as.sum := List.sum_nonneg fun x hx => hn x (by simp [hx])
    simp only [List.sum_cons]
    rcases List.mem_cons.mp ht with rfl | ht'
    · linarith
    · have := ih (fun x hx => hn x (by simp [hx])) ht'
      linarith

/-- **the perfect score 0 of `Leps` is unreachable** (known finding `leps-perfect`): whatever order
`np.argsort` returns (any list `iobs` of the right length that contains the index 0, as every
rearrangement of 0 … N−1 does), LEPS of a forecast identical to the observations is a positive
number: the observation term is `argsort[i]/N`, not the cumulative probability F_o(o_i). -/
theorem C05_leps_never_perfect_with (iobs : List Nat) (os : List Rat) (hne : os ≠ [])
    (hlen : iobs.length = os.length) (h0 : 0 ∈ iobs) :
    ∃ q : Rat, lepsWith iobs (fins os) (fins os) = fin q ∧ 0 < q := by
  obtain ⟨k, hk, hk0⟩ := List.getElem_of_mem h0
  have hko : k < os.length := hlen ▸ hk
  have hzl : (List.zipWith (fun f (i : Nat) => ecdf os f - (i : Rat) / (os.length : Rat)) os iobs).length
      = os.length := by simp [hlen]
  have hz : List.zipWith (fun f (i : Nat) => ecdf os f - (i : Rat) / (os.length : Rat)) os iobs ≠ [] := by
    intro e; rw [e] at hzl; simp at hzl; omega
  rw [lepsWith_fins iobs os os hne hz]
  refine ⟨_, rfl, ?_⟩
  unfold Spec.Det.mean
  apply div_pos
  · apply sum_pos_of_mem _ _ (rabs (ecdf os os[k] - ((iobs[k] : Nat) : Rat) / (os.length : Rat)))
    · apply List.mem_map.mpr
      refine ⟨_, ?_, rfl⟩
      rw [List.mem_iff_getElem]
      exact ⟨k, by rw [hzl]; exact hko, by simp⟩
    · rw [hk0, GenEq.Det.rabs_eq]
      have := ecdf_pos os os[k] (List.getElem_mem hko)
      simp only [Nat.cast_zero, zero_div, sub_zero]
      exact abs_pos.mpr this.ne'
    · intro x hx
      obtain ⟨y, _, rfl⟩ := List.mem_map.mp hx
      exact rabs_nonneg y
  · have : 0 < os.length := List.length_pos_iff.mpr hne
    simp only [List.length_map, hzl]
    exact_mod_cast this

/-- … in particular with the (stable) argsort of the model -/
theorem C05_leps_never_perfect (os : List Rat) (hne : os ≠ []) :
    ∃ q : Rat, VerifModel.leps (fins os) (fins os) = fin q ∧ 0 < q := by
  unfold VerifModel.leps
  have hv : fins os ≠ [] := by cases os <;> simp_all [fins]
  exact C05_leps_never_perfect_with _ os hne (by simp [argsort_length]) (zero_mem_argsort _ hv)

/-
  Full statement (FALSE for the code, known finding `leps-perfect`):

    theorem C05_leps_def (os fs : List Rat) (hne : os ≠ []) (hl : os.length = fs.length) :
        VerifModel.leps (fins os) (fins fs) = Spec.Rank.leps os fs
    -- i.e. mean |F_o(f_i) − F_o(o_i)|, which is 0 for fs = os.

  What the code computes is proved instead: the forecast term is right, the observation term is
  the position in `np.argsort(obs)` divided by N.
-/
theorem C05_leps_def_partial (os fs : List Rat) (hne : os ≠ []) (hl : os.length = fs.length) :
    VerifModel.leps (fins os) (fins fs)
      = fin (mean ((List.zipWith (fun f (i : Nat) => ecdf os f - (i : Rat) / (os.length : Rat)) fs
          (argsort (fins os))).map rabs)) := by
  unfold VerifModel.leps
  apply lepsWith_fins _ os fs hne
  intro e
  have : (List.zipWith (fun f (i : Nat) => ecdf os f - (i : Rat) / (os.length : Rat)) fs
      (argsort (fins os))).length = os.length := by simp [argsort_length, hl]
  rw [e] at this
  have : 0 < os.length := List.length_pos_iff.mpr hne
  simp_all

/-- the witness of the known finding: LEPS([7/4, 1, 3], [7/4, 1, 3]) = 1/3 in the model (and in
the code), 0 by the definition -/
example : VerifModel.leps (fins [7/4, 1, 3]) (fins [7/4, 1, 3]) = fin (1/3)
    ∧ Spec.Rank.leps [7/4, 1, 3] [7/4, 1, 3] = fin 0 := by
  constructor <;> decide +kernel

/-- the definition gives the perfect score 0 to a perfect forecast -/
theorem C05_leps_spec_perfect (os : List Rat) : Spec.Rank.leps os os = fin 0 := by
  unfold Spec.Rank.leps
  have : List.zipWith (fun o f => rabs (ecdf os f - ecdf os o)) os os = os.map fun _ => 0 := by
    generalize ecdf os = F
    induction os with
    | nil => rfl
    | cons x xs ih => simp [rabs]
  rw [this]
  simp [Spec.Det.mean]

/-- the number of pairs is n(n−1)/2 -/
theorem pairs_length {α : Type} (l : List α) :
    2 * (Spec.Rank.pairs l).length + l.length = l.length * l.length := by
  induction l with
  | nil => rfl
  | cons x xs ih =>
    simp only [Spec.Rank.pairs, List.length_append, List.length_map, List.length_cons]
    nlinarith [ih]

/-- `n0` of the Spec is the textbook n(n−1)/2 -/
theorem C05_n0_eq (xs ys : List Rat) (hl : xs.length = ys.length) :
    2 * n0 xs ys + xs.length = xs.length * xs.length := by
  have := pairs_length (xs.zip ys)
  simpa [n0, List.length_zip, hl] using this

/-! ### symmetry and invariance of the three coefficients as computed -/

/-- corr, rankcorr and kendallcorr do not depend on which series is called the observation -/
theorem C05_symm (T : Tr) (hT : T.Lawful) (hpos : T.SqrtPos) (os fs : List Rat)
    (hl : os.length = fs.length) :
    corr T (fins os) (fins fs) = corr T (fins fs) (fins os)
    ∧ rankcorr T (fins os) (fins fs) = rankcorr T (fins fs) (fins os)
    ∧ kendallcorr T (fins os) (fins fs) = kendallcorr T (fins fs) (fins os) := by
  refine ⟨?_, ?_, ?_⟩
  · rw [C05_corr_def T hT hpos os fs hl, C05_corr_def T hT hpos fs os hl.symm, C05_pearson_symm]
  · rw [C05_rankcorr_def T hT hpos os fs hl, C05_rankcorr_def T hT hpos fs os hl.symm, C05_spearman_symm]
  · rw [C05_kendall_def T os fs hl, C05_kendall_def T fs os hl.symm, C05_tauB_symm]

/-- rankcorr and kendallcorr are unchanged when the observations (or the forecasts) are
re-expressed through any strictly increasing function -/
theorem C05_rank_invariant (T : Tr) (hT : T.Lawful) (hpos : T.SqrtPos) (g : Rat → Rat)
    (hg : StrictMono g) (os fs : List Rat) (hl : os.length = fs.length) :
    rankcorr T (fins (os.map g)) (fins fs) = rankcorr T (fins os) (fins fs)
    ∧ rankcorr T (fins os) (fins (fs.map g)) = rankcorr T (fins os) (fins fs)
    ∧ kendallcorr T (fins (os.map g)) (fins fs) = kendallcorr T (fins os) (fins fs)
    ∧ kendallcorr T (fins os) (fins (fs.map g)) = kendallcorr T (fins os) (fins fs) := by
  have h1 : (os.map g).length = fs.length := by simpa using hl
  have h2 : os.length = (fs.map g).length := by simpa using hl
  refine ⟨?_, ?_, ?_, ?_⟩
  · rw [C05_rankcorr_def T hT hpos _ fs h1, C05_rankcorr_def T hT hpos os fs hl,
      (C05_spearman_strictMono T g hg os fs).1]
  · rw [C05_rankcorr_def T hT hpos os _ h2, C05_rankcorr_def T hT hpos os fs hl,
      (C05_spearman_strictMono T g hg os fs).2]
  · rw [C05_kendall_def T _ fs h1, C05_kendall_def T os fs hl, (C05_tauB_strictMono T g hg os fs).1]
  · rw [C05_kendall_def T os _ h2, C05_kendall_def T os fs hl, (C05_tauB_strictMono T g hg os fs).2]

/-! ### non-vacuity: the hypotheses of the theorems above are satisfiable on non-trivial data -/

/-- a rational, monotone "square root" that is exact at 0, 1, 4 and 9 (piecewise linear between
the perfect squares) -/
def TrEx : Tr where
  sqrtQ q := if q ≤ 1 then q else if q ≤ 4 then 1 + (q - 1) / 3 else 2 + (q - 4) / 5
  logQ q := q - 1
  expQ q := q + 1
  cbrtQ q := q

theorem TrEx_lawful : TrEx.Lawful := by
  refine ⟨by simp [TrEx], ?_, ?_, by simp [TrEx], fun p q _ h => by simpa [TrEx] using h, rfl,
    fun _ h => h, by simp [TrEx]⟩
  · intro q hq
    simp only [TrEx]
    split_ifs <;> linarith
  · intro p q hp hpq
    simp only [TrEx]
    split_ifs <;> linarith

theorem TrEx_pos : TrEx.SqrtPos := by
  intro q hq
  simp only [TrEx]
  split_ifs <;> linarith

theorem TrEx_exact4 : TrEx.SqrtExactAt 4 := by
  simp only [Tr.SqrtExactAt, TrEx]; norm_num
theorem TrEx_exact9 : TrEx.SqrtExactAt 9 := by
  simp only [Tr.SqrtExactAt, TrEx]; norm_num
theorem TrEx_below4 : TrEx.SqrtBelowAt 4 := by
  simp only [Tr.SqrtBelowAt, TrEx]; norm_num
theorem TrEx_below9 : TrEx.SqrtBelowAt 9 := by
  simp only [Tr.SqrtBelowAt, TrEx]; norm_num

/-- data: Σ(o−ō)² = Σ(f−f̄)² = 4 and r = 3/4; the rank sums of squares are 9 and Spearman's
coefficient is 3/4 too; `C05_corr_def(_exact)`, `C05_rankcorr_def`, `C05_bound_pearson` apply -/
example : sxx [0, 0, 1, 2, 2] = 4 ∧ sxx [0, 0, 2, 1, 2] = 4
    ∧ corr TrEx (fins [0, 0, 1, 2, 2]) (fins [0, 0, 2, 1, 2]) = fin (3 / 4)
    ∧ pearson TrEx [0, 0, 1, 2, 2] [0, 0, 2, 1, 2] = fin (3 / 4)
    ∧ sxx (avgRanks [0, 0, 1, 2, 2]) = 9 ∧ sxx (avgRanks [0, 0, 2, 1, 2]) = 9
    ∧ avgRanks [0, 0, 1, 2, 2] = [3 / 2, 3 / 2, 3, 9 / 2, 9 / 2]
    ∧ rankcorr TrEx (fins [0, 0, 1, 2, 2]) (fins [0, 0, 2, 1, 2]) = fin (3 / 4)
    ∧ spearman TrEx [0, 0, 1, 2, 2] [0, 0, 2, 1, 2] = fin (3 / 4) := by
  refine ⟨?_, ?_, ?_, ?_, ?_, ?_, ?_, ?_, ?_⟩ <;> decide +kernel

/-- `C05_perfect_corr`, `C05_perfect_rankcorr`, `C05_perfect_kge` (mean 1 ≠ 0): hypotheses hold -/
example : ¬ Constant [0, 0, 1, 2, 2] ∧ TrEx.SqrtBelowAt (sxx [0, 0, 1, 2, 2])
    ∧ TrEx.SqrtBelowAt (sxx (avgRanks [0, 0, 1, 2, 2])) ∧ Spec.Det.mean [0, 0, 1, 2, 2] ≠ 0 := by
  refine ⟨?_, ?_, ?_, ?_⟩
  · intro h; have := h 0 (by simp) 1 (by simp); norm_num at this
  · rw [show sxx [0, 0, 1, 2, 2] = 4 by decide +kernel]; exact TrEx_below4
  · rw [show sxx (avgRanks [0, 0, 1, 2, 2]) = 9 by decide +kernel]; exact TrEx_below9
  · decide +kernel

/-- Kendall: [1,2,3] against [1,3,2]: 3 pairs, none tied, 2 concordant, 1 discordant, tau-b = 1/3;
(n₀−n₁)(n₀−n₂) = 9 where `TrEx` is exact (`C05_kendall_def_exact`, `C05_perfect_kendallcorr`) -/
example : kendallcorr TrEx (fins [1, 2, 3]) (fins [1, 3, 2]) = fin (1 / 3)
    ∧ tauB TrEx [1, 2, 3] [1, 3, 2] = fin (1 / 3)
    ∧ ((n0 [1, 2, 3] [1, 3, 2] : Rat) - n1 [1, 2, 3] [1, 3, 2]) * ((n0 [1, 2, 3] [1, 3, 2] : Rat) - n2 [1, 2, 3] [1, 3, 2]) = 9
    ∧ ((n0 [1, 2, 3] [1, 2, 3] : Rat) - n1 [1, 2, 3] [1, 2, 3]) * ((n0 [1, 2, 3] [1, 2, 3] : Rat) - n1 [1, 2, 3] [1, 2, 3]) = 9
    ∧ kendallcorr TrEx (fins [1, 2, 3]) (fins [1, 2, 3]) = fin 1 := by
  refine ⟨?_, ?_, ?_, ?_, ?_⟩ <;> decide +kernel

/-- ties: tau-b of [1,1,2] against [1,2,3] has n₁ = 1, n₂ = 0: (3−1)(3−0) = 6, C − D = 2 -/
example : nConc [1, 1, 2] [1, 2, 3] = 2 ∧ nDisc [1, 1, 2] [1, 2, 3] = 0 ∧ n1 [1, 1, 2] [1, 2, 3] = 1
    ∧ n2 [1, 1, 2] [1, 2, 3] = 0 ∧ n0 [1, 1, 2] [1, 2, 3] = 3 := by
  refine ⟨?_, ?_, ?_, ?_, ?_⟩ <;> decide +kernel

/-- a strictly increasing map (`C05_avgRanks_strictMono`, `C05_tauB_strictMono`) -/
example : StrictMono (fun x : Rat => 2 * x + 1) := by
  intro a b h; simp only; linarith

/-- KGE on non-trivial data (the clip hypothesis of `C05_kge_def` holds: r = 3/4) -/
example : clipUnit (pearson TrEx [0, 0, 1, 2, 2] [0, 0, 2, 1, 2]) = pearson TrEx [0, 0, 1, 2, 2] [0, 0, 2, 1, 2]
    ∧ VerifModel.kge TrEx (fins [0, 0, 1, 2, 2]) (fins [0, 0, 1, 2, 2]) = fin 1 := by
  constructor <;> decide +kernel

end VerifModel.C05
