import VerifModel.Model.FigProps
/-
  C17 — Plot appearance options are honoured in the produced figure.

  Model = VerifModel/Model/FigProps.lean (`applyOptions`, composed from the tables that the translator
  regenerates from /repo's driver.py and output.py on every run: Gen/Appearance.lean),
  Spec  = VerifModel/Spec/Appearance.lean (the documented table flag ↦ figure property).

  What is proved here (re-checked against the REGENERATED tables on every run):
    * C17_connected      — wiring: every documented appearance flag is parsed into a local that is
                           assigned to an Output attribute (or Data keyword) that an output method reads,
                           the value lands in the documented figure property and in no other, no other
                           flag lands in that property, and no read on the route is guarded by a
                           different appearance option's attribute unless the help text documents that
                           dependency (Spec.dependsOn).
    * C17_parsers        — the parser applied to the value admits the documented value type.
    * C17_order          — no call that resets another option's property (set_xscale/set_yscale reset the
                           tick locator and formatter) is made after the call that sets it.
    * C17_effect_<opt>   — in the model the documented property equals the option's (documented) value,
                           whatever other options precede or follow (the last occurrence wins).
    * C17_independent    — adding option o changes no property documented for another option o'.
  What is NOT proved but tied by the correspondence stream `fig.props` / `fig.indep` (real
  verif.driver.run, live matplotlib figure read back): that the matplotlib calls named in
  `setterField` change the figure as that table says, that plots pass `_get_plot_options` on to their
  lines, rendering, and the file format.
-/
namespace VerifModel.C17
open VerifModel.FigProps
open VerifModel.Spec.Appearance (Entry Field ValueKind)
open VerifModel.Gen.Appearance

/-! ## 1. Decidable checks on the regenerated tables -/

/-- the flag occurs in the argument loop -/
def presentOK (e : Entry) : Bool := symId e.flag < sym.length

/-- the option's value lands in exactly the documented property -/
def routeOK (e : Entry) : Bool := route e.flag == [e.field]

/-- no other command-line flag lands in that property -/
def exclusiveOK (e : Entry) : Bool :=
  routeTable.all fun r => r.1 == symId e.flag || !(r.2.contains e.field)

/-- every Output attribute the flag is assigned to is read by some output method, and the flag reaches
    at least one attribute or Data keyword -/
def readOK (e : Entry) : Bool :=
  ((attrsOf (symId e.flag)).all fun a => attrReadsN.any fun r => r.2 == a) &&
  (!(attrsOf (symId e.flag)).isEmpty || (localsOf (symId e.flag)).any fun l => !(fieldsOfLocalData l).isEmpty)

/-- guard attributes (ids) on the reads that carry the flag's value into the figure -/
def routeGuards (flag : String) : List Nat :=
  (attrsOf (symId flag)).flatMap fun a =>
    (landings a).flatMap fun mf =>
      (attrGuardsN.filter fun g => g.1 == mf.1 && g.2.1 == a).map (·.2.2)

/-- a guard on a DIFFERENT appearance option's attribute must be a documented dependency -/
def guardsOK (e : Entry) : Bool :=
  (routeGuards e.flag).all fun g =>
    Spec.Appearance.table.all fun e' =>
      symId e'.flag == symId e.flag || !((attrsOf (symId e'.flag)).contains g) ||
        Spec.Appearance.dependsOn.contains (e.flag, e'.flag)

/-- the '_' convention of the code is the documented one -/
def valueOK (e : Entry) : Bool := usesUnderscore e.flag == Spec.Appearance.usesUnderscore e.flag

def kindsOf (flag : String) : List Nat := (flagLocalN.filter fun x => x.1 == symId flag).map (·.2.2)

def postOf (flag : String) : List Nat :=
  (localsOf (symId flag)).flatMap fun l => (localPostN.filter fun p => p.1 == l).map (·.2)

def convsOf (flag : String) : List Nat :=
  (attrsOf (symId flag)).flatMap fun a => (attrConvN.filter fun c => c.2.1 == a).map (·.2.2)

/-- parser kinds (Gen.flagLocal) that admit every value of the documented type -/
def admits : ValueKind → List String
  | .text => ["label", "str"]
  | .textUnderscore => ["label", "str", "replace_", "label.replace_"]
  | .number => ["float"]
  | .integer => ["int"]
  | .numbers => ["numbers"]
  | .sizes => ["numbers"]
  | .pair => ["str", "numbers"]
  | .words => ["split,", "label.split,"]
  | .wordsUnderscore => ["label", "str"]
  | .colors => ["colors"]
  | .color => ["color", "expr:verif.util.parse_colors(arg_next)[0]"]
  | .flag => ["bool-true", "bool-false"]

def parserOK (e : Entry) : Bool :=
  (!(kindsOf e.flag).isEmpty && (kindsOf e.flag).all fun k => ((admits e.kind).map symId).contains k) &&
  (match e.kind with
   | .pair => (kindsOf e.flag).contains (symId "numbers") ||
        ((postOf e.flag).contains (symId "split,") && (convsOf e.flag).contains (symId "float") &&
          !(convsOf e.flag).contains (symId "int"))
   | .wordsUnderscore => (postOf e.flag).contains (symId "split,")
   | _ => true)

def entryOK (e : Entry) : Bool :=
  presentOK e && routeOK e && exclusiveOK e && readOK e && guardsOK e && valueOK e

/-- distinct documented flags control distinct properties -/
def injectiveOK : Bool :=
  Spec.Appearance.table.all fun a => Spec.Appearance.table.all fun b => a.field != b.field || a.flag == b.flag

/-- non-vacuity of the guard clause: grid styling is read under `if self.grid` (and that is documented) -/
def guardExampleOK : Bool := (routeGuards "-gc").map symAt == ["grid"] && (routeGuards "-yrot").isEmpty

/-- ONE kernel evaluation for all table checks (interning and routes are shared between them) -/
private theorem all_ok :
    (Spec.Appearance.table.all entryOK && Spec.Appearance.table.all parserOK && injectiveOK
      && guardExampleOK && orderOK) = true := by decide +kernel

private theorem table_ok : Spec.Appearance.table.all entryOK = true := by
  have := all_ok; simp only [Bool.and_eq_true] at this; exact this.1.1.1.1
private theorem parsers_ok : Spec.Appearance.table.all parserOK = true := by
  have := all_ok; simp only [Bool.and_eq_true] at this; exact this.1.1.1.2
private theorem injective_ok : injectiveOK = true := by
  have := all_ok; simp only [Bool.and_eq_true] at this; exact this.1.1.2
private theorem order_ok : orderOK = true := by
  have := all_ok; simp only [Bool.and_eq_true] at this; exact this.2

/-! ## 2. Wiring on the regenerated tables -/

/-- readable form of the per-entry check -/
structure Connected (e : Entry) : Prop where
  /-- the flag is one of the `elif arg == "<flag>"` branches -/
  present : symId e.flag < sym.length
  /-- flag → local → attribute / Data keyword → reader → exactly the documented property -/
  route_eq : route e.flag = [e.field]
  /-- no other flag of the argument loop reaches that property -/
  exclusive : ∀ r ∈ routeTable, r.1 = symId e.flag ∨ e.field ∉ r.2
  /-- every attribute the flag is assigned to is read by an output method (catches `pl.grid_width`) -/
  read : readOK e = true
  /-- no read on the route sits under a test of a different appearance option's attribute, unless
      Spec.dependsOn documents it (catches "-yrot only under `if self.xrot is not None`") -/
  unguarded : guardsOK e = true
  /-- '_' ↦ blank exactly where documented -/
  value_eq : ∀ v, modelValue e.flag v = Spec.Appearance.value e.flag v

private theorem entryOK_of_mem {e : Entry} (he : e ∈ Spec.Appearance.table) : entryOK e = true :=
  List.all_eq_true.mp table_ok e he

private theorem connected_of_ok {e : Entry} (h : entryOK e = true) : Connected e := by
  simp only [entryOK, Bool.and_eq_true] at h
  obtain ⟨⟨⟨⟨⟨h0, h1⟩, h2⟩, h3⟩, h4⟩, h5⟩ := h
  refine ⟨?_, ?_, ?_, h3, h4, ?_⟩
  · simpa [presentOK] using h0
  · simpa [routeOK] using h1
  · intro r hr
    have := List.all_eq_true.mp h2 r hr
    simp only [Bool.or_eq_true, beq_iff_eq, Bool.not_eq_true', List.contains_eq_mem,
      decide_eq_false_iff_not] at this
    exact this
  · intro v
    have hv : usesUnderscore e.flag = Spec.Appearance.usesUnderscore e.flag := by
      simpa [valueOK] using h5
    simp [modelValue, Spec.Appearance.value, hv, underscoreToSpace]

/-- **C17_connected.**  Every documented appearance flag is wired through to the documented figure
    property (on the tables regenerated from /repo on this run). -/
theorem C17_connected : ∀ e ∈ Spec.Appearance.table, Connected e :=
  fun _ he => connected_of_ok (entryOK_of_mem he)

/-- **C17_parsers.**  The parser applied to each documented flag admits every value of the documented
    type: real-valued sizes for `-ms` (not int()), a colour in any documented form for `-gc`
    (`parse_colors`, as for `-lc`), `-fs` split at the comma and converted with float() (not int()). -/
theorem C17_parsers : ∀ e ∈ Spec.Appearance.table, parserOK e = true :=
  fun e he => List.all_eq_true.mp parsers_ok e he

/-- **C17_order.**  In the regenerated call order of `Output._adjust_axis`, the calls that reset the tick
    locator/formatter (`ax.set_xscale`, `ax.set_yscale`) come before `ax.set_xticks` /
    `ax.set_xticklabels` (resp. y), so the log options cannot discard the tick and tick-label options: this is what makes the independence of the tick options from the log options
    (C17_independent, an update lemma of the model) true of the code's order of calls as well. -/
theorem C17_order :
    ∀ r ∈ resets, ∀ i j, callPos (symId r.1) (symId r.2.1) = some i →
      callPos (symId r.1) (symId r.2.2) = some j → i < j := by
  intro r hr i j hi hj
  have := List.all_eq_true.mp order_ok r hr
  simp only [hi, hj, decide_eq_true_eq] at this
  exact this

/-! ## 3. Effect and independence in the model (generic lemmas about record updates) -/

private theorem foldl_step_congr (l : Opts) (s s' : FigProps) (g : Field) (h : s g = s' g) :
    (l.foldl step s) g = (l.foldl step s') g := by
  induction l generalizing s s' with
  | nil => simpa using h
  | cons x xs ih =>
    simp only [List.foldl_cons]
    apply ih
    simp only [step]
    split <;> simp_all

private theorem foldl_step_not_routed (l : Opts) (s : FigProps) (g : Field)
    (h : ∀ x ∈ l, g ∉ route x.1) : (l.foldl step s) g = s g := by
  induction l generalizing s with
  | nil => rfl
  | cons x xs ih =>
    simp only [List.foldl_cons]
    rw [ih _ (fun y hy => h y (List.mem_cons_of_mem _ hy))]
    have := h x List.mem_cons_self
    simp [step, this]

/-- update lemma: the option given last for a property determines it -/
private theorem applyOpts_effect (pre post : Opts) (o v : String) (f : Field) (hf : f ∈ route o)
    (hpost : ∀ x ∈ post, f ∉ route x.1) :
    applyOpts (pre ++ (o, v) :: post) f = some (modelValue o v) := by
  simp only [applyOpts, List.foldl_append, List.foldl_cons]
  rw [foldl_step_not_routed _ _ _ hpost]
  simp [step, hf]

/-- update lemma: an option leaves every property off its route unchanged -/
private theorem applyOpts_frame (pre post : Opts) (o v : String) (g : Field) (hg : g ∉ route o) :
    applyOpts (pre ++ (o, v) :: post) g = applyOpts (pre ++ post) g := by
  simp only [applyOpts, List.foldl_append, List.foldl_cons]
  apply foldl_step_congr
  simp [step, hg]

private theorem symId?_sound {a : String} {i : Nat} (h : symId? a = some i) : symAt i = a := by
  unfold symId? at h
  split at h
  · split at h
    · split at h
      · next hv => simp only [Option.some.injEq] at h; rw [← h]; simpa using hv
      · simp at h
    · simp at h
  · simp at h

private theorem symId_inj {a b : String} (hb : symId b < sym.length) (h : symId a = symId b) : a = b := by
  have ha : symId a < sym.length := h ▸ hb
  unfold symId at ha hb h
  cases hA : symId? a with
  | none => simp [hA] at ha
  | some i =>
    cases hB : symId? b with
    | none => simp [hB] at hb
    | some j =>
      simp only [hA, hB, Option.getD_some] at h
      rw [← symId?_sound hA, ← symId?_sound hB, h]

private theorem route_of_ne {e : Entry} (hc : Connected e) (o : String) (ho : o ≠ e.flag) :
    e.field ∉ route o := by
  unfold route
  split
  · next r hr =>
    have hmem := List.mem_of_find?_eq_some hr
    have hk := List.find?_some hr
    simp only [beq_iff_eq] at hk
    rcases hc.exclusive r hmem with h | h
    · exact absurd (symId_inj hc.present (hk.symm.trans h)) ho
    · exact h
  · simp

/-- **C17_effect (generic).**  For every documented entry (flag ↦ property): if the flag is given value
    `v` and not given again later, the property of the modelled figure is the documented value of `v`,
    whatever the other options are. -/
theorem C17_effect_documented (e : Entry) (he : e ∈ Spec.Appearance.table) (plot : String) (n : Nat)
    (pre post : Opts) (v : String) (h : ∀ x ∈ post, x.1 ≠ e.flag) :
    applyOptions ⟨plot, n, pre ++ (e.flag, v) :: post⟩ e.field = some (Spec.Appearance.value e.flag v) := by
  have hc := C17_connected e he
  have hf : e.field ∈ route e.flag := by rw [hc.route_eq]; exact List.mem_singleton.mpr rfl
  have := applyOpts_effect pre post e.flag v e.field hf (fun x hx => route_of_ne hc x.1 (h x hx))
  simpa [applyOptions, hc.value_eq] using this

/-- **C17_independent.**  Setting option `o` (any value, anywhere on the command line) changes no
    property documented for another option `o'`. -/
theorem C17_independent (e e' : Entry) (he : e ∈ Spec.Appearance.table) (he' : e' ∈ Spec.Appearance.table)
    (hne : e.flag ≠ e'.flag) (plot : String) (n : Nat) (pre post : Opts) (v : String) :
    applyOptions ⟨plot, n, pre ++ (e.flag, v) :: post⟩ e'.field
      = applyOptions ⟨plot, n, pre ++ post⟩ e'.field := by
  have hc := C17_connected e he
  have hinj := List.all_eq_true.mp (List.all_eq_true.mp injective_ok e he) e' he'
  have hfield : e'.field ≠ e.field := by
    simp only [Bool.or_eq_true, beq_iff_eq, bne_iff_ne] at hinj
    rcases hinj with h | h
    · exact fun h' => h h'.symm
    · exact absurd h hne
  have hg : e'.field ∉ route e.flag := by
    rw [hc.route_eq]; simpa using hfield
  exact applyOpts_frame pre post e.flag v e'.field hg

/-- an undocumented / unknown flag changes no documented property either -/
theorem C17_independent_of_other_flags (e' : Entry) (he' : e' ∈ Spec.Appearance.table) (o : String)
    (ho : o ≠ e'.flag) (plot : String) (n : Nat) (pre post : Opts) (v : String) :
    applyOptions ⟨plot, n, pre ++ (o, v) :: post⟩ e'.field = applyOptions ⟨plot, n, pre ++ post⟩ e'.field :=
  applyOpts_frame pre post o v e'.field (route_of_ne (C17_connected e' he') o ho)

/-! ## 4. One effect theorem per documented option -/

theorem C17_effect_title (plot : String) (n : Nat) (pre post : Opts) (v : String) (h : ∀ x ∈ post, x.1 ≠ "-title") :
    applyOptions ⟨plot, n, pre ++ ("-title", v) :: post⟩ .titleText = some (Spec.Appearance.value "-title" v) :=
  C17_effect_documented ⟨"-title", .titleText, .textUnderscore⟩ (by decide) plot n pre post v h

theorem C17_effect_titlefs (plot : String) (n : Nat) (pre post : Opts) (v : String) (h : ∀ x ∈ post, x.1 ≠ "-titlefs") :
    applyOptions ⟨plot, n, pre ++ ("-titlefs", v) :: post⟩ .titleSize = some (Spec.Appearance.value "-titlefs" v) :=
  C17_effect_documented ⟨"-titlefs", .titleSize, .number⟩ (by decide) plot n pre post v h

theorem C17_effect_xlabel (plot : String) (n : Nat) (pre post : Opts) (v : String) (h : ∀ x ∈ post, x.1 ≠ "-xlabel") :
    applyOptions ⟨plot, n, pre ++ ("-xlabel", v) :: post⟩ .xLabel = some (Spec.Appearance.value "-xlabel" v) :=
  C17_effect_documented ⟨"-xlabel", .xLabel, .text⟩ (by decide) plot n pre post v h

theorem C17_effect_ylabel (plot : String) (n : Nat) (pre post : Opts) (v : String) (h : ∀ x ∈ post, x.1 ≠ "-ylabel") :
    applyOptions ⟨plot, n, pre ++ ("-ylabel", v) :: post⟩ .yLabel = some (Spec.Appearance.value "-ylabel" v) :=
  C17_effect_documented ⟨"-ylabel", .yLabel, .text⟩ (by decide) plot n pre post v h

theorem C17_effect_clabel (plot : String) (n : Nat) (pre post : Opts) (v : String) (h : ∀ x ∈ post, x.1 ≠ "-clabel") :
    applyOptions ⟨plot, n, pre ++ ("-clabel", v) :: post⟩ .cLabel = some (Spec.Appearance.value "-clabel" v) :=
  C17_effect_documented ⟨"-clabel", .cLabel, .text⟩ (by decide) plot n pre post v h

theorem C17_effect_labfs (plot : String) (n : Nat) (pre post : Opts) (v : String) (h : ∀ x ∈ post, x.1 ≠ "-labfs") :
    applyOptions ⟨plot, n, pre ++ ("-labfs", v) :: post⟩ .labelSize = some (Spec.Appearance.value "-labfs" v) :=
  C17_effect_documented ⟨"-labfs", .labelSize, .number⟩ (by decide) plot n pre post v h

theorem C17_effect_xlim (plot : String) (n : Nat) (pre post : Opts) (v : String) (h : ∀ x ∈ post, x.1 ≠ "-xlim") :
    applyOptions ⟨plot, n, pre ++ ("-xlim", v) :: post⟩ .xLim = some (Spec.Appearance.value "-xlim" v) :=
  C17_effect_documented ⟨"-xlim", .xLim, .numbers⟩ (by decide) plot n pre post v h

theorem C17_effect_ylim (plot : String) (n : Nat) (pre post : Opts) (v : String) (h : ∀ x ∈ post, x.1 ≠ "-ylim") :
    applyOptions ⟨plot, n, pre ++ ("-ylim", v) :: post⟩ .yLim = some (Spec.Appearance.value "-ylim" v) :=
  C17_effect_documented ⟨"-ylim", .yLim, .numbers⟩ (by decide) plot n pre post v h

theorem C17_effect_clim (plot : String) (n : Nat) (pre post : Opts) (v : String) (h : ∀ x ∈ post, x.1 ≠ "-clim") :
    applyOptions ⟨plot, n, pre ++ ("-clim", v) :: post⟩ .cLim = some (Spec.Appearance.value "-clim" v) :=
  C17_effect_documented ⟨"-clim", .cLim, .numbers⟩ (by decide) plot n pre post v h

theorem C17_effect_xticks (plot : String) (n : Nat) (pre post : Opts) (v : String) (h : ∀ x ∈ post, x.1 ≠ "-xticks") :
    applyOptions ⟨plot, n, pre ++ ("-xticks", v) :: post⟩ .xTicks = some (Spec.Appearance.value "-xticks" v) :=
  C17_effect_documented ⟨"-xticks", .xTicks, .numbers⟩ (by decide) plot n pre post v h

theorem C17_effect_yticks (plot : String) (n : Nat) (pre post : Opts) (v : String) (h : ∀ x ∈ post, x.1 ≠ "-yticks") :
    applyOptions ⟨plot, n, pre ++ ("-yticks", v) :: post⟩ .yTicks = some (Spec.Appearance.value "-yticks" v) :=
  C17_effect_documented ⟨"-yticks", .yTicks, .numbers⟩ (by decide) plot n pre post v h

theorem C17_effect_xticklabels (plot : String) (n : Nat) (pre post : Opts) (v : String) (h : ∀ x ∈ post, x.1 ≠ "-xticklabels") :
    applyOptions ⟨plot, n, pre ++ ("-xticklabels", v) :: post⟩ .xTickLabels = some (Spec.Appearance.value "-xticklabels" v) :=
  C17_effect_documented ⟨"-xticklabels", .xTickLabels, .words⟩ (by decide) plot n pre post v h

theorem C17_effect_yticklabels (plot : String) (n : Nat) (pre post : Opts) (v : String) (h : ∀ x ∈ post, x.1 ≠ "-yticklabels") :
    applyOptions ⟨plot, n, pre ++ ("-yticklabels", v) :: post⟩ .yTickLabels = some (Spec.Appearance.value "-yticklabels" v) :=
  C17_effect_documented ⟨"-yticklabels", .yTickLabels, .words⟩ (by decide) plot n pre post v h

theorem C17_effect_xrot (plot : String) (n : Nat) (pre post : Opts) (v : String) (h : ∀ x ∈ post, x.1 ≠ "-xrot") :
    applyOptions ⟨plot, n, pre ++ ("-xrot", v) :: post⟩ .xTickRotation = some (Spec.Appearance.value "-xrot" v) :=
  C17_effect_documented ⟨"-xrot", .xTickRotation, .number⟩ (by decide) plot n pre post v h

theorem C17_effect_yrot (plot : String) (n : Nat) (pre post : Opts) (v : String) (h : ∀ x ∈ post, x.1 ≠ "-yrot") :
    applyOptions ⟨plot, n, pre ++ ("-yrot", v) :: post⟩ .yTickRotation = some (Spec.Appearance.value "-yrot" v) :=
  C17_effect_documented ⟨"-yrot", .yTickRotation, .number⟩ (by decide) plot n pre post v h

theorem C17_effect_xlog (plot : String) (n : Nat) (pre post : Opts) (v : String) (h : ∀ x ∈ post, x.1 ≠ "-xlog") :
    applyOptions ⟨plot, n, pre ++ ("-xlog", v) :: post⟩ .xLog = some (Spec.Appearance.value "-xlog" v) :=
  C17_effect_documented ⟨"-xlog", .xLog, .flag⟩ (by decide) plot n pre post v h

theorem C17_effect_ylog (plot : String) (n : Nat) (pre post : Opts) (v : String) (h : ∀ x ∈ post, x.1 ≠ "-ylog") :
    applyOptions ⟨plot, n, pre ++ ("-ylog", v) :: post⟩ .yLog = some (Spec.Appearance.value "-ylog" v) :=
  C17_effect_documented ⟨"-ylog", .yLog, .flag⟩ (by decide) plot n pre post v h

theorem C17_effect_leg (plot : String) (n : Nat) (pre post : Opts) (v : String) (h : ∀ x ∈ post, x.1 ≠ "-leg") :
    applyOptions ⟨plot, n, pre ++ ("-leg", v) :: post⟩ .legendEntries = some (Spec.Appearance.value "-leg" v) :=
  C17_effect_documented ⟨"-leg", .legendEntries, .wordsUnderscore⟩ (by decide) plot n pre post v h

theorem C17_effect_legfs (plot : String) (n : Nat) (pre post : Opts) (v : String) (h : ∀ x ∈ post, x.1 ≠ "-legfs") :
    applyOptions ⟨plot, n, pre ++ ("-legfs", v) :: post⟩ .legendSize = some (Spec.Appearance.value "-legfs" v) :=
  C17_effect_documented ⟨"-legfs", .legendSize, .number⟩ (by decide) plot n pre post v h

theorem C17_effect_legloc (plot : String) (n : Nat) (pre post : Opts) (v : String) (h : ∀ x ∈ post, x.1 ≠ "-legloc") :
    applyOptions ⟨plot, n, pre ++ ("-legloc", v) :: post⟩ .legendLoc = some (Spec.Appearance.value "-legloc" v) :=
  C17_effect_documented ⟨"-legloc", .legendLoc, .textUnderscore⟩ (by decide) plot n pre post v h

theorem C17_effect_lc (plot : String) (n : Nat) (pre post : Opts) (v : String) (h : ∀ x ∈ post, x.1 ≠ "-lc") :
    applyOptions ⟨plot, n, pre ++ ("-lc", v) :: post⟩ .seriesColor = some (Spec.Appearance.value "-lc" v) :=
  C17_effect_documented ⟨"-lc", .seriesColor, .colors⟩ (by decide) plot n pre post v h

theorem C17_effect_ls (plot : String) (n : Nat) (pre post : Opts) (v : String) (h : ∀ x ∈ post, x.1 ≠ "-ls") :
    applyOptions ⟨plot, n, pre ++ ("-ls", v) :: post⟩ .seriesStyle = some (Spec.Appearance.value "-ls" v) :=
  C17_effect_documented ⟨"-ls", .seriesStyle, .words⟩ (by decide) plot n pre post v h

theorem C17_effect_lw (plot : String) (n : Nat) (pre post : Opts) (v : String) (h : ∀ x ∈ post, x.1 ≠ "-lw") :
    applyOptions ⟨plot, n, pre ++ ("-lw", v) :: post⟩ .seriesWidth = some (Spec.Appearance.value "-lw" v) :=
  C17_effect_documented ⟨"-lw", .seriesWidth, .numbers⟩ (by decide) plot n pre post v h

theorem C17_effect_ma (plot : String) (n : Nat) (pre post : Opts) (v : String) (h : ∀ x ∈ post, x.1 ≠ "-ma") :
    applyOptions ⟨plot, n, pre ++ ("-ma", v) :: post⟩ .seriesMarker = some (Spec.Appearance.value "-ma" v) :=
  C17_effect_documented ⟨"-ma", .seriesMarker, .words⟩ (by decide) plot n pre post v h

theorem C17_effect_ms (plot : String) (n : Nat) (pre post : Opts) (v : String) (h : ∀ x ∈ post, x.1 ≠ "-ms") :
    applyOptions ⟨plot, n, pre ++ ("-ms", v) :: post⟩ .seriesMarkerSize = some (Spec.Appearance.value "-ms" v) :=
  C17_effect_documented ⟨"-ms", .seriesMarkerSize, .sizes⟩ (by decide) plot n pre post v h

theorem C17_effect_tickfs (plot : String) (n : Nat) (pre post : Opts) (v : String) (h : ∀ x ∈ post, x.1 ≠ "-tickfs") :
    applyOptions ⟨plot, n, pre ++ ("-tickfs", v) :: post⟩ .tickSize = some (Spec.Appearance.value "-tickfs" v) :=
  C17_effect_documented ⟨"-tickfs", .tickSize, .number⟩ (by decide) plot n pre post v h

theorem C17_effect_afs (plot : String) (n : Nat) (pre post : Opts) (v : String) (h : ∀ x ∈ post, x.1 ≠ "-afs") :
    applyOptions ⟨plot, n, pre ++ ("-afs", v) :: post⟩ .annotationSize = some (Spec.Appearance.value "-afs" v) :=
  C17_effect_documented ⟨"-afs", .annotationSize, .number⟩ (by decide) plot n pre post v h

theorem C17_effect_gc (plot : String) (n : Nat) (pre post : Opts) (v : String) (h : ∀ x ∈ post, x.1 ≠ "-gc") :
    applyOptions ⟨plot, n, pre ++ ("-gc", v) :: post⟩ .gridColor = some (Spec.Appearance.value "-gc" v) :=
  C17_effect_documented ⟨"-gc", .gridColor, .color⟩ (by decide) plot n pre post v h

theorem C17_effect_gs (plot : String) (n : Nat) (pre post : Opts) (v : String) (h : ∀ x ∈ post, x.1 ≠ "-gs") :
    applyOptions ⟨plot, n, pre ++ ("-gs", v) :: post⟩ .gridStyle = some (Spec.Appearance.value "-gs" v) :=
  C17_effect_documented ⟨"-gs", .gridStyle, .text⟩ (by decide) plot n pre post v h

theorem C17_effect_gw (plot : String) (n : Nat) (pre post : Opts) (v : String) (h : ∀ x ∈ post, x.1 ≠ "-gw") :
    applyOptions ⟨plot, n, pre ++ ("-gw", v) :: post⟩ .gridWidth = some (Spec.Appearance.value "-gw" v) :=
  C17_effect_documented ⟨"-gw", .gridWidth, .number⟩ (by decide) plot n pre post v h

theorem C17_effect_nogrid (plot : String) (n : Nat) (pre post : Opts) (v : String) (h : ∀ x ∈ post, x.1 ≠ "-nogrid") :
    applyOptions ⟨plot, n, pre ++ ("-nogrid", v) :: post⟩ .gridOff = some (Spec.Appearance.value "-nogrid" v) :=
  C17_effect_documented ⟨"-nogrid", .gridOff, .flag⟩ (by decide) plot n pre post v h

theorem C17_effect_sp (plot : String) (n : Nat) (pre post : Opts) (v : String) (h : ∀ x ∈ post, x.1 ≠ "-sp") :
    applyOptions ⟨plot, n, pre ++ ("-sp", v) :: post⟩ .perfectLine = some (Spec.Appearance.value "-sp" v) :=
  C17_effect_documented ⟨"-sp", .perfectLine, .flag⟩ (by decide) plot n pre post v h

theorem C17_effect_aspect (plot : String) (n : Nat) (pre post : Opts) (v : String) (h : ∀ x ∈ post, x.1 ≠ "-aspect") :
    applyOptions ⟨plot, n, pre ++ ("-aspect", v) :: post⟩ .aspect = some (Spec.Appearance.value "-aspect" v) :=
  C17_effect_documented ⟨"-aspect", .aspect, .number⟩ (by decide) plot n pre post v h

theorem C17_effect_fs (plot : String) (n : Nat) (pre post : Opts) (v : String) (h : ∀ x ∈ post, x.1 ≠ "-fs") :
    applyOptions ⟨plot, n, pre ++ ("-fs", v) :: post⟩ .figSize = some (Spec.Appearance.value "-fs" v) :=
  C17_effect_documented ⟨"-fs", .figSize, .pair⟩ (by decide) plot n pre post v h

theorem C17_effect_dpi (plot : String) (n : Nat) (pre post : Opts) (v : String) (h : ∀ x ∈ post, x.1 ≠ "-dpi") :
    applyOptions ⟨plot, n, pre ++ ("-dpi", v) :: post⟩ .dpi = some (Spec.Appearance.value "-dpi" v) :=
  C17_effect_documented ⟨"-dpi", .dpi, .integer⟩ (by decide) plot n pre post v h

theorem C17_effect_left (plot : String) (n : Nat) (pre post : Opts) (v : String) (h : ∀ x ∈ post, x.1 ≠ "-left") :
    applyOptions ⟨plot, n, pre ++ ("-left", v) :: post⟩ .marginLeft = some (Spec.Appearance.value "-left" v) :=
  C17_effect_documented ⟨"-left", .marginLeft, .number⟩ (by decide) plot n pre post v h

theorem C17_effect_right (plot : String) (n : Nat) (pre post : Opts) (v : String) (h : ∀ x ∈ post, x.1 ≠ "-right") :
    applyOptions ⟨plot, n, pre ++ ("-right", v) :: post⟩ .marginRight = some (Spec.Appearance.value "-right" v) :=
  C17_effect_documented ⟨"-right", .marginRight, .number⟩ (by decide) plot n pre post v h

theorem C17_effect_top (plot : String) (n : Nat) (pre post : Opts) (v : String) (h : ∀ x ∈ post, x.1 ≠ "-top") :
    applyOptions ⟨plot, n, pre ++ ("-top", v) :: post⟩ .marginTop = some (Spec.Appearance.value "-top" v) :=
  C17_effect_documented ⟨"-top", .marginTop, .number⟩ (by decide) plot n pre post v h

theorem C17_effect_bottom (plot : String) (n : Nat) (pre post : Opts) (v : String) (h : ∀ x ∈ post, x.1 ≠ "-bottom") :
    applyOptions ⟨plot, n, pre ++ ("-bottom", v) :: post⟩ .marginBottom = some (Spec.Appearance.value "-bottom" v) :=
  C17_effect_documented ⟨"-bottom", .marginBottom, .number⟩ (by decide) plot n pre post v h

theorem C17_effect_nomargin (plot : String) (n : Nat) (pre post : Opts) (v : String) (h : ∀ x ∈ post, x.1 ≠ "-nomargin") :
    applyOptions ⟨plot, n, pre ++ ("-nomargin", v) :: post⟩ .marginsRemoved = some (Spec.Appearance.value "-nomargin" v) :=
  C17_effect_documented ⟨"-nomargin", .marginsRemoved, .flag⟩ (by decide) plot n pre post v h

theorem C17_effect_a (plot : String) (n : Nat) (pre post : Opts) (v : String) (h : ∀ x ∈ post, x.1 ≠ "-a") :
    applyOptions ⟨plot, n, pre ++ ("-a", v) :: post⟩ .annotate = some (Spec.Appearance.value "-a" v) :=
  C17_effect_documented ⟨"-a", .annotate, .flag⟩ (by decide) plot n pre post v h

theorem C17_effect_af (plot : String) (n : Nat) (pre post : Opts) (v : String) (h : ∀ x ∈ post, x.1 ≠ "-af") :
    applyOptions ⟨plot, n, pre ++ ("-af", v) :: post⟩ .annotationFields = some (Spec.Appearance.value "-af" v) :=
  C17_effect_documented ⟨"-af", .annotationFields, .words⟩ (by decide) plot n pre post v h

theorem C17_effect_f (plot : String) (n : Nat) (pre post : Opts) (v : String) (h : ∀ x ∈ post, x.1 ≠ "-f") :
    applyOptions ⟨plot, n, pre ++ ("-f", v) :: post⟩ .fileName = some (Spec.Appearance.value "-f" v) :=
  C17_effect_documented ⟨"-f", .fileName, .text⟩ (by decide) plot n pre post v h


/-! ## 5. Non-vacuity -/

/-- the table is not empty and the hypotheses of the effect theorems are satisfiable -/
example : Spec.Appearance.table.length = 43 := by decide

example : applyOptions ⟨"mae", 2, [("-xlim", "1,5"), ("-titlefs", "9"), ("-xlog", "1")]⟩ .titleSize = some "9" := by
  have := C17_effect_titlefs "mae" 2 [("-xlim", "1,5")] [("-xlog", "1")] "9" (by decide)
  simpa [Spec.Appearance.value, show Spec.Appearance.usesUnderscore "-titlefs" = false by decide] using this

/-- last occurrence wins, other options in between do not matter -/
example : applyOptions ⟨"pithist", 2, [("-gw", "1"), ("-aspect", "2"), ("-gw", "5/2")]⟩ .gridWidth = some "5/2" :=
  C17_effect_gw "pithist" 2 [("-gw", "1"), ("-aspect", "2")] [] "5/2" (by simp)

/-- '_' stands for a blank in -title, and -xlim in front of it does not disturb it -/
example : applyOptions ⟨"mae", 2, [("-xlim", "1,5"), ("-title", "a_b")]⟩ .titleText
    = some (Spec.Appearance.underscoreToSpace "a_b") := by
  have := C17_effect_title "mae" 2 [("-xlim", "1,5")] [] "a_b" (by simp)
  simpa [Spec.Appearance.value, show Spec.Appearance.usesUnderscore "-title" = true by decide] using this

/-- independence instance: -xlog leaves the x ticks alone (in the model) -/
example : applyOptions ⟨"mae", 2, [("-xticks", "1,5"), ("-xlog", "1")]⟩ .xTicks
    = applyOptions ⟨"mae", 2, [("-xticks", "1,5")]⟩ .xTicks :=
  C17_independent ⟨"-xlog", .xLog, .flag⟩ ⟨"-xticks", .xTicks, .numbers⟩ (by decide) (by decide) (by decide)
    "mae" 2 [("-xticks", "1,5")] [] "1"

/-- the guard clause is not vacuous: the reads of -gc's attribute sit under `if self.grid`, -yrot's under
    no other attribute -/
example : (routeGuards "-gc").map symAt = ["grid"] ∧ routeGuards "-yrot" = [] := by
  have := all_ok; simp only [Bool.and_eq_true, guardExampleOK, beq_iff_eq, List.isEmpty_iff] at this
  exact this.1.2

/-- the order clause is not vacuous: both calls of the first pair are made by `_adjust_axis` -/
example : (callPos (symId "_adjust_axis") (symId "ax.set_xscale")).isSome ∧
    (callPos (symId "_adjust_axis") (symId "ax.set_xticks")).isSome := by decide +kernel

end VerifModel.C17
