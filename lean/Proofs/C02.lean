import Proofs.Lemmas.Arr3
/-
  C02 — Values are matched by coordinates, not by position or file order.
-/
namespace VerifModel.C02
open VerifModel XR

/-- `firstIdx v xs` is the first position holding a value equal to `v` (when there is one). -/
theorem C02_index_correct (v : XR) (xs : List XR) (h : memX v xs = true) :
    ∃ w, xs[firstIdx v xs]? = some w ∧ XR.eqb v w = true
      ∧ ∀ j u, j < firstIdx v xs → xs[j]? = some u → XR.eqb v u = false := by
  unfold memX at h
  unfold firstIdx
  have hlt : xs.findIdx (XR.eqb v) < xs.length := List.findIdx_lt_length_of_exists (by
    rw [List.any_eq_true] at h; exact h)
  refine ⟨xs[xs.findIdx (XR.eqb v)], by simp [hlt], List.findIdx_getElem (w := hlt), ?_⟩
  intro j u hj hu
  have hjl : j < xs.length := Nat.lt_trans hj hlt
  have := List.not_of_lt_findIdx hj
  rw [List.getElem?_eq_getElem hjl] at hu
  injection hu with hu
  subst hu
  simpa using this

/-- Cutting (three successive fancy-index steps) is a coordinate lookup: cell (i, j, k) of the cut
array is the input's own cell at the indices found for the i-th time, j-th lead time, k-th location. -/
theorem C02_cut_is_lookup (a : Arr3) (It Il Ix : List Nat) (i j k : Nat) (t l x : Nat)
    (hi : It[i]? = some t) (hj : Il[j]? = some l) (hk : Ix[k]? = some x) :
    (cut a It Il Ix).cell i j k = some (a.get t l x) := by
  unfold cut Arr3.cell
  simp [List.getElem?_map, hi, hj, hk]

/-- The indices used for input `I` at common value number `p` is the first index of that value
in `I`'s own coordinate list. -/
theorem C02_indicesOf (avail col : List XR) (p : Nat) (v : XR) (hp : avail[p]? = some v) :
    (indicesOf avail col)[p]? = some (firstIdx v col) := by
  simp [indicesOf, List.getElem?_map, hp]

/-! ### order independence -/

/-- looking a coordinate up in (coordinate, data) pairs -/
def lookup {α : Type} (v : XR) (pairs : List (XR × α)) : Option α :=
  (pairs.find? fun p => XR.eqb v p.1).map (·.2)

/-- Index-based access (what the code does) is a lookup by coordinate value. -/
theorem C02_index_is_lookup {α : Type} (v : XR) (col : List XR) (rows : List α)
    (hl : col.length = rows.length) :
    rows[firstIdx v col]? = lookup v (col.zip rows) := by
  unfold firstIdx lookup
  induction col generalizing rows with
  | nil => cases rows <;> simp_all
  | cons c cs ih =>
    cases rows with
    | nil => simp at hl
    | cons r rs =>
      simp only [List.zip_cons_cons, List.find?_cons, List.findIdx_cons]
      cases h : XR.eqb v c with
      | true => simp
      | false =>
        simp only [cond_false, Bool.false_eq_true, if_false]
        have := ih rs (by simpa using hl)
        simpa using this

private theorem find?_perm_unique {α : Type} (p : α → Bool) (l l' : List α) (hp : l.Perm l')
    (huniq : ∀ a ∈ l, ∀ b ∈ l, p a = true → p b = true → a = b) : l.find? p = l'.find? p := by
  induction hp with
  | nil => rfl
  | cons x _ ih =>
    simp only [List.find?_cons]
    cases p x with
    | true => rfl
    | false => exact ih fun a ha b hb => huniq a (List.mem_cons_of_mem _ ha) b (List.mem_cons_of_mem _ hb)
  | swap x y l =>
    simp only [List.find?_cons]
    cases hx : p x <;> cases hy : p y <;> simp
    have := huniq x (by simp) y (by simp) hx hy
    exact this.symm
  | trans h1 _ ih1 ih2 =>
    rw [ih1 huniq]
    apply ih2
    intro a ha b hb
    exact huniq a (h1.mem_iff.mpr ha) b (h1.mem_iff.mpr hb)

/-- Reordering a file's dimension entries (with the data moved along) does not change what is
found for any coordinate value, provided no coordinate value is repeated. -/
theorem C02_perm_lookup {α : Type} (v : XR) (pairs pairs' : List (XR × α)) (hp : pairs.Perm pairs')
    (hnodup : ∀ a ∈ pairs, ∀ b ∈ pairs, XR.eqb v a.1 = true → XR.eqb v b.1 = true → a = b) :
    lookup v pairs = lookup v pairs' := by
  unfold lookup
  rw [find?_perm_unique _ pairs pairs' hp hnodup]

/-- non-vacuity: the same value found at different positions after shuffling -/
example : lookup (fin 6) [(fin 0, "a"), (fin 6, "b"), (fin 12, "c")] = some "b"
    ∧ lookup (fin 6) [(fin 12, "c"), (fin 0, "a"), (fin 6, "b")] = some "b"
    ∧ firstIdx (fin 6) [fin 12, fin 0, fin 6] = 2 := by
  decide +kernel

end VerifModel.C02
