import Proofs.GenEq.Prob
import VerifModel.Model.Prob
import VerifModel.Spec.Prob
import Mathlib.Data.List.Sort
import Mathlib.Tactic.Ring
import Mathlib.Tactic.Linarith
import Mathlib.Tactic.FieldSimp
import Mathlib.Tactic.Positivity
import Mathlib.Tactic.IntervalCases
/-
  C08 — Probabilistic scores follow their definitions; event probability from the CDF.

  The six closed-form kernels (Bs, BsUnc, Bss, Ign0, Spherical, QuantileScore) are machine-translated
  and proved equal to the textbook definitions in Proofs/GenEq/Prob.lean (`*_eq`).  Here: get_p,
  the threshold / quantile fields derived from the ensemble, the bin structure, the hand-modelled
  kernels, Murphy's partition and the complement identity.
-/
namespace VerifModel.C08
open VerifModel XR Prob
set_option linter.unusedSimpArgs false
set_option linter.unusedVariables false

/-! ## get_p: event probability from the CDF -/

/-- The forecast probability of the event is F(upper) − F(lower), with F(+∞) = 1 and F(−∞) = 0
(only the cumulative probability at a finite end is looked at), and the verifying observation is
the indicator of the observation lying in the interval. -/
theorem C08_getp (I : Interval) (c0 c1 x : Rat) :
    eventProb I (fin c0) (fin c1)
        = fin (Spec.Prob.eventProb (if I.lower = .ninf then none else some c0)
                                   (if I.upper = .pinf then none else some c1))
      ∧ obsP I (fin x) = boolToXR (I.withinVal (fin x)) := by
  refine ⟨?_, by simp [obsP, Interval.within]⟩
  unfold eventProb Spec.Prob.eventProb
  rcases I with ⟨lo, up, le, ue⟩
  cases lo <;> cases up <;> simp [XR.eqb]

/-- an infinite end does not look at the column at all (the code does not even request it) -/
theorem C08_getp_infinite_end (I : Interval) (a b c : XR) :
    (I.upper = .pinf → eventProb I a b = eventProb I a c) ∧
    (I.lower = .ninf → eventProb I a c = eventProb I b c) := by
  constructor <;> intro h <;> simp [eventProb, h, XR.eqb]

/-- Complementary events get complementary probabilities and complementary observations:
`below t` / `above= t` and `below= t` / `above t` (same stored column F(t)). -/
theorem C08_getp_complement (t c o : Rat) (x y : XR) :
    eventProb (intervalOf .below (fin t) (fin t)) x (fin c)
        + eventProb (intervalOf .aboveEq (fin t) (fin t)) (fin c) y = fin 1
    ∧ eventProb (intervalOf .belowEq (fin t) (fin t)) x (fin c)
        + eventProb (intervalOf .above (fin t) (fin t)) (fin c) y = fin 1
    ∧ obsP (intervalOf .below (fin t) (fin t)) (fin o)
        + obsP (intervalOf .aboveEq (fin t) (fin t)) (fin o) = fin 1
    ∧ obsP (intervalOf .belowEq (fin t) (fin t)) (fin o)
        + obsP (intervalOf .above (fin t) (fin t)) (fin o) = fin 1 := by
  refine ⟨?_, ?_, ?_, ?_⟩
  · simp [eventProb, intervalOf, XR.eqb]
  · simp [eventProb, intervalOf, XR.eqb]
  · simp only [obsP, Interval.within, intervalOf, Interval.withinVal, XR.gt, XR.lt, XR.eqb, boolToXR,
      isNan_fin]
    by_cases h : o < t
    · have h' : ¬ t < o := by linarith
      have h'' : o ≠ t := by linarith
      simp [h, h', h'']
    · by_cases h2 : t < o
      · simp [h, h2]
      · have : o = t := by linarith
        simp [h, h2, this]
  · simp only [obsP, Interval.within, intervalOf, Interval.withinVal, XR.gt, XR.lt, XR.eqb, boolToXR,
      isNan_fin]
    by_cases h : o < t
    · have h' : ¬ t < o := by linarith
      simp [h, h']
    · by_cases h2 : t < o
      · have : o ≠ t := by linarith
        simp [h, h2, this]
      · have : o = t := by linarith
        simp [h, h2, this]

/-! ## threshold field: stored column, else the fraction of members at or below -/

/-- a member as the file stores it: missing = NaN -/
def enc : Option Rat → XR
  | none => .nan
  | some q => .fin q

private theorem filter_present (ms : List (Option Rat)) :
    List.filter (fun x => !x.isNan) (ms.map enc) = List.map fin (Spec.Prob.present ms) := by
  induction ms with
  | nil => rfl
  | cons m ms ih =>
    cases m with
    | none => simpa [enc, Spec.Prob.present] using ih
    | some q =>
      simp only [List.map_cons, enc, List.filter_cons, isNan_fin, Bool.not_false, if_true, ih]
      simp [Spec.Prob.present]

private theorem filter_le_fin (xs : List Rat) (t : Rat) :
    List.filter (fun x => XR.le x (fin t)) (List.map fin xs) = List.map fin (xs.filter (· ≤ t)) := by
  induction xs with
  | nil => rfl
  | cons x xs ih =>
    have hx : XR.le (fin x) (fin t) = decide (x ≤ t) := rfl
    simp only [List.map_cons, List.filter_cons, hx, ih]
    by_cases h : x ≤ t <;> simp [h]

/-- The probability derived from the ensemble is (#members ≤ t) / (#members present); NaN when no
member is present. -/
theorem C08_threshold_from_ens (ms : List (Option Rat)) (t : Rat) :
    ensProb (fin t) (ms.map enc) = Spec.Prob.toXR (Spec.Prob.ensProb ms t) := by
  unfold ensProb Spec.Prob.ensProb
  simp only [filter_present, filter_le_fin, List.length_map]
  cases h : Spec.Prob.present ms with
  | nil => simp [Spec.Prob.toXR]
  | cons a l => simp [Spec.Prob.toXR]

/-- it is a probability -/
theorem C08_threshold_range (ms : List (Option Rat)) (t r : Rat)
    (h : Spec.Prob.ensProb ms t = some r) : 0 ≤ r ∧ r ≤ 1 := by
  unfold Spec.Prob.ensProb at h
  split at h
  · cases h
  · rename_i hne
    injection h with h
    subst h
    have hlen : 0 < (Spec.Prob.present ms).length := by
      cases hp : Spec.Prob.present ms with
      | nil => simp [hp] at hne
      | cons a l => simp
    have hle : ((Spec.Prob.present ms).filter (· ≤ t)).length ≤ (Spec.Prob.present ms).length :=
      List.length_filter_le _ _
    have h1 : (0 : Rat) < ((Spec.Prob.present ms).length : Rat) := by exact_mod_cast hlen
    have h2 : (((Spec.Prob.present ms).filter (· ≤ t)).length : Rat) ≤ ((Spec.Prob.present ms).length : Rat) := by
      exact_mod_cast hle
    constructor
    · positivity
    · rw [div_le_one h1]; exact h2

/-- monotone in the threshold (a CDF) -/
theorem C08_threshold_mono (ms : List (Option Rat)) (t t' r r' : Rat) (htt : t ≤ t')
    (h : Spec.Prob.ensProb ms t = some r) (h' : Spec.Prob.ensProb ms t' = some r') : r ≤ r' := by
  unfold Spec.Prob.ensProb at h h'
  split at h
  · cases h
  · rename_i hne
    simp only [hne] at h'
    injection h with h
    injection h' with h'
    subst h; subst h'
    have hlen : 0 < (Spec.Prob.present ms).length := by
      cases hp : Spec.Prob.present ms with
      | nil => simp [hp] at hne
      | cons a l => simp
    have h1 : (0 : Rat) < ((Spec.Prob.present ms).length : Rat) := by exact_mod_cast hlen
    have hc : ((Spec.Prob.present ms).filter (· ≤ t)).length ≤ ((Spec.Prob.present ms).filter (· ≤ t')).length := by
      rw [← List.countP_eq_length_filter, ← List.countP_eq_length_filter]
      apply List.countP_mono_left
      intro x _ hx
      simp only [decide_eq_true_eq] at hx ⊢
      linarith
    have hc' : (((Spec.Prob.present ms).filter (· ≤ t)).length : Rat)
        ≤ (((Spec.Prob.present ms).filter (· ≤ t')).length : Rat) := by exact_mod_cast hc
    exact div_le_div_of_nonneg_right hc' h1.le

/-- a missing member changes nothing: the probability is that of the ensemble without it -/
theorem C08_threshold_missing_member (t : XR) (a b : Vec) :
    ensProb t (a ++ XR.nan :: b) = ensProb t (a ++ b) := by
  unfold ensProb
  simp [List.filter_append, List.filter_cons]

private theorem rabs_nonneg (x : Rat) : 0 ≤ rabs x := by
  unfold rabs; split <;> linarith

/-- A stored CDF column wins: when exactly one stored threshold is `isclose` to the requested one
(in particular the requested threshold itself), that column is served whatever the ensemble says;
only when none is close is the ensemble used; a threshold equal to a stored one is close. -/
theorem C08_threshold_stored_wins (D : PInput) (t : XR) :
    (∀ c, D.thr.filter (fun c => isclose c.1 t) = [c] → thresholdColumn D t = some c.2)
    ∧ (D.thr.filter (fun c => isclose c.1 t) = [] →
        thresholdColumn D t = D.ens.map fun e => e.map (ensProb t))
    ∧ (∀ x : Rat, isclose (fin x) (fin x) = true) := by
  refine ⟨fun c h => by simp [thresholdColumn, h], fun h => by simp [thresholdColumn, h], ?_⟩
  intro x
  have h1 : (0 : Rat) ≤ atol := by unfold atol; norm_num
  have h2 : (0 : Rat) ≤ rtol := by unfold rtol; norm_num
  have h3 := rabs_nonneg x
  have : rabs (x - x) = 0 := by simp [rabs]
  simp only [isclose, this, decide_eq_true_eq]
  positivity

/-! ## quantile field: `np.quantile(ens, q, method="normal_unbiased")` -/

/-- the piecewise-linear function through the points (k, s[k]), constant outside [0, n−1] -/
def interp : List Rat → Rat → Rat
  | [], _ => 0
  | [a], _ => a
  | a :: b :: rest, h => if h < 0 then a else if h < 1 then a + (b - a) * h else interp (b :: rest) (h - 1)

private theorem floor_unique (r : Rat) (z : Int) (h1 : (z : Rat) ≤ r) (h2 : r < (z : Rat) + 1) :
    r.floor = z := by
  apply le_antisymm
  · have : r.floor < z + 1 := by
      rw [Rat.floor_lt_iff]; push_cast; exact h2
    omega
  · exact Rat.le_floor_iff.mpr h1

private theorem floorNat_eq (r : Rat) : floorNat r = r.floor.toNat := by
  unfold floorNat; rw [Rat.floor_def]

private theorem floorNat_lt_one (h : Rat) (h0 : 0 ≤ h) (h1 : h < 1) : floorNat h = 0 := by
  rw [floorNat_eq, floor_unique h 0 (by simpa using h0) (by simpa using h1)]; rfl

private theorem floorNat_pred (h : Rat) (h1 : 1 ≤ h) : floorNat h = floorNat (h - 1) + 1 := by
  have hz : (0 : Int) ≤ (h - 1).floor := Rat.le_floor_iff.mpr (by simp; linarith)
  have hle : (((h - 1).floor : Int) : Rat) ≤ h - 1 := Rat.le_floor_iff.mp le_rfl
  have hlt : h - 1 < (((h - 1).floor + 1 : Int) : Rat) := Rat.floor_lt_iff.mp (by omega)
  have : h.floor = (h - 1).floor + 1 := by
    apply floor_unique
    · push_cast; linarith
    · push_cast at hlt ⊢; linarith
  rw [floorNat_eq, floorNat_eq, this]
  omega

/-- NumPy's index arithmetic (floor, clipping at both ends) computes `interp` -/
private theorem lerpAt_eq_interp (s : List Rat) (hs : s ≠ []) (h : Rat) :
    lerpAt s h = some (interp s h) := by
  induction s generalizing h with
  | nil => exact absurd rfl hs
  | cons a t ih =>
    cases t with
    | nil =>
      unfold lerpAt
      by_cases h0 : (0 : Rat) ≤ h
      · simp [interp, h0]
      · have : h < 0 := not_le.mp h0
        simp [interp, h0, this]
    | cons b rest =>
      have ih' := ih (by simp) (h - 1)
      unfold lerpAt at ih' ⊢
      simp only [List.length_cons, Nat.add_eq_zero_iff, one_ne_zero, and_false, if_false,
        Nat.cast_add, Nat.cast_one] at ih' ⊢
      have e1 : (rest.length : Rat) + 1 + 1 - 1 = rest.length + 1 := by ring
      have e2 : (rest.length : Rat) + 1 - 1 = rest.length := by ring
      rw [e1]
      rw [e2] at ih'
      have hlen0 : (0 : Rat) ≤ rest.length := Nat.cast_nonneg _
      by_cases hneg : h < 0
      · have hnot : ¬ ((rest.length : Rat) + 1 ≤ h) := by intro hc; linarith
        simp only [hnot, if_false, hneg, if_true, interp, List.head?_cons]
      · have h0 : 0 ≤ h := not_lt.mp hneg
        by_cases hlt1 : h < 1
        · have hnot : ¬ ((rest.length : Rat) + 1 ≤ h) := by intro hc; linarith
          simp only [hnot, if_false, hneg, interp, hlt1, if_true, floorNat_lt_one h h0 hlt1]
          simp
        · have h1 : 1 ≤ h := not_lt.mp hlt1
          have hm : ¬ (h - 1 < 0) := by linarith
          by_cases hlast : (rest.length : Rat) + 1 ≤ h
          · have hlast' : (rest.length : Rat) ≤ h - 1 := by linarith
            simp only [hlast', if_true] at ih'
            simp only [hlast, if_true, interp, hneg, hlt1, if_false]
            rw [List.getLast?_cons_cons]; exact ih'
          · have hlast' : ¬ ((rest.length : Rat) ≤ h - 1) := by intro hc; apply hlast; linarith
            simp only [hlast', if_false, hm] at ih'
            simp only [hlast, if_false, hneg, interp, hlt1]
            rw [floorNat_pred h h1, ← ih']
            simp only [List.getElem?_cons_succ]
            have : ((floorNat (h - 1) + 1 : Nat) : Rat) = (floorNat (h - 1) : Rat) + 1 := by push_cast; ring
            rw [this]
            have e : h - ((floorNat (h - 1) : Rat) + 1) = h - 1 - (floorNat (h - 1) : Rat) := by ring
            rw [e]

/-- the interpolated value is at least any lower bound of the sample … -/
private theorem interp_lower (s : List Rat) (hs : s ≠ []) (lo : Rat)
    (hb : ∀ x ∈ s, lo ≤ x) (h : Rat) : lo ≤ interp s h := by
  induction s generalizing h with
  | nil => exact absurd rfl hs
  | cons a t ih =>
    cases t with
    | nil => simpa [interp] using hb a (by simp)
    | cons b rest =>
      have ha := hb a (by simp)
      have hbb := hb b (by simp)
      simp only [interp]
      split
      · exact ha
      · split
        · rename_i h0 h1
          have h0' : 0 ≤ h := not_lt.mp h0
          nlinarith [mul_nonneg h0' (sub_nonneg.mpr hbb), mul_nonneg (sub_nonneg.mpr h1.le) (sub_nonneg.mpr ha)]
        · exact ih (by simp) (fun x hx => hb x (by simp [hx])) (h - 1)

/-- … and at most any upper bound -/
private theorem interp_upper (s : List Rat) (hs : s ≠ []) (hi : Rat)
    (hb : ∀ x ∈ s, x ≤ hi) (h : Rat) : interp s h ≤ hi := by
  induction s generalizing h with
  | nil => exact absurd rfl hs
  | cons a t ih =>
    cases t with
    | nil => simpa [interp] using hb a (by simp)
    | cons b rest =>
      have ha := hb a (by simp)
      have hbb := hb b (by simp)
      simp only [interp]
      split
      · exact ha
      · split
        · rename_i h0 h1
          have h0' : 0 ≤ h := not_lt.mp h0
          nlinarith [mul_nonneg h0' (sub_nonneg.mpr hbb), mul_nonneg (sub_nonneg.mpr h1.le) (sub_nonneg.mpr ha)]
        · exact ih (by simp) (fun x hx => hb x (by simp [hx])) (h - 1)

/-- on an ascending sample the interpolated value is non-decreasing in the position -/
private theorem interp_mono (s : List Rat) (hsort : s.Pairwise (· ≤ ·)) (h h' : Rat) (hh : h ≤ h') :
    interp s h ≤ interp s h' := by
  induction s generalizing h h' with
  | nil => simp [interp]
  | cons a t ih =>
    cases t with
    | nil => simp [interp]
    | cons b rest =>
      have hab : a ≤ b := (List.pairwise_cons.mp hsort).1 b (by simp)
      have htail : (b :: rest).Pairwise (· ≤ ·) := (List.pairwise_cons.mp hsort).2
      have hge_a : ∀ x ∈ a :: b :: rest, a ≤ x ∧ x ≤ x := by
        intro x hx
        rcases List.mem_cons.mp hx with rfl | hx
        · exact ⟨le_rfl, le_rfl⟩
        · exact ⟨(List.pairwise_cons.mp hsort).1 x hx, le_rfl⟩
      have hge_b : ∀ x ∈ b :: rest, b ≤ x := by
        intro x hx
        rcases List.mem_cons.mp hx with rfl | hx
        · exact le_rfl
        · exact (List.pairwise_cons.mp htail).1 x hx
      have lowA : ∀ g, a ≤ interp (a :: b :: rest) g :=
        fun g => interp_lower _ (by simp) a (fun x hx => (hge_a x hx).1) g
      have lowB : ∀ g, b ≤ interp (b :: rest) g :=
        fun g => interp_lower _ (by simp) b hge_b g
      by_cases hneg : h < 0
      · have : interp (a :: b :: rest) h = a := by simp [interp, hneg]
        rw [this]; exact lowA h'
      · have h0 : 0 ≤ h := not_lt.mp hneg
        have hneg' : ¬ h' < 0 := by linarith
        by_cases hlt1 : h < 1
        · by_cases hlt1' : h' < 1
          · simp only [interp, hneg, hneg', hlt1, hlt1', if_false, if_true]
            nlinarith [mul_le_mul_of_nonneg_left hh (sub_nonneg.mpr hab)]
          · simp only [interp, hneg, hneg', hlt1, hlt1', if_false, if_true]
            have := lowB (h' - 1)
            nlinarith [mul_nonneg (sub_nonneg.mpr hab) (sub_nonneg.mpr hlt1.le)]
        · have hlt1' : ¬ h' < 1 := by linarith
          simp only [interp, hneg, hneg', hlt1, hlt1', if_false]
          exact ih htail (h - 1) (h' - 1) (by linarith)

private theorem insertQ_eq (x : Rat) (ys : List Rat) : insertQ x ys = ys.orderedInsert (· ≤ ·) x := by
  induction ys with
  | nil => rfl
  | cons y ys ih => simp only [insertQ, List.orderedInsert_cons, ih]

private theorem sortQ_eq (xs : List Rat) : sortQ xs = xs.insertionSort (· ≤ ·) := by
  induction xs with
  | nil => rfl
  | cons x xs ih =>
    have : sortQ (x :: xs) = insertQ x (sortQ xs) := rfl
    rw [this, ih, insertQ_eq, List.insertionSort_cons]

private theorem ratsOf_ofRats (ms : List Rat) : ratsOf? (Vec.ofRats ms) = some ms := by
  unfold ratsOf?
  induction ms with
  | nil => rfl
  | cons m ms ih =>
    simp only [Vec.ofRats_cons, List.mapM_cons, ih]
    rfl

private theorem any_nan_ofRats (ms : List Rat) : List.any (Vec.ofRats ms) XR.isNan = false := by
  induction ms with
  | nil => rfl
  | cons m ms ih => simp [List.any_cons, ih]

private theorem ensQuantile_fin (ms : List Rat) (hne : ms ≠ []) (q : Rat) :
    ensQuantile q (Vec.ofRats ms) = some (fin (interp (sortQ ms) (virtualIndex ms.length q))) := by
  have hs : sortQ ms ≠ [] := by
    rw [sortQ_eq]; intro h
    have := (List.perm_insertionSort (· ≤ ·) ms).length_eq
    rw [h] at this
    exact hne (List.length_eq_zero_iff.mp this.symm)
  have he : List.isEmpty (Vec.ofRats ms) = false := by cases ms <;> simp_all
  unfold ensQuantile
  rw [he, any_nan_ofRats, ratsOf_ofRats]
  simp only [Bool.false_eq_true, if_false]
  rw [lerpAt_eq_interp _ hs]
  rfl

/-- The quantile derived from the members (all present) exists, lies within the range of the
members — between any lower and any upper bound of them — and is non-decreasing in the level.
(Holds for every level; NumPy itself rejects levels outside [0, 1].) -/
theorem C08_quantile_from_ens (ms : List Rat) (hne : ms ≠ []) (q q' : Rat) (hq : q ≤ q') :
    ∃ r r', ensQuantile q (Vec.ofRats ms) = some (fin r) ∧ ensQuantile q' (Vec.ofRats ms) = some (fin r')
      ∧ r ≤ r'
      ∧ (∀ lo hi, (∀ x ∈ ms, lo ≤ x ∧ x ≤ hi) → lo ≤ r ∧ r ≤ hi) := by
  refine ⟨_, _, ensQuantile_fin ms hne q, ensQuantile_fin ms hne q', ?_, ?_⟩
  · apply interp_mono
    · rw [sortQ_eq]; exact List.pairwise_insertionSort _ _
    · unfold virtualIndex
      have : (0 : Rat) ≤ ms.length := Nat.cast_nonneg _
      nlinarith
  · intro lo hi hb
    have hs : sortQ ms ≠ [] := by
      rw [sortQ_eq]; intro h
      have := (List.perm_insertionSort (· ≤ ·) ms).length_eq
      rw [h] at this
      exact hne (List.length_eq_zero_iff.mp this.symm)
    have hmem : ∀ x ∈ sortQ ms, x ∈ ms := by
      intro x hx
      rw [sortQ_eq] at hx
      exact (List.perm_insertionSort (· ≤ ·) ms).mem_iff.mp hx
    exact ⟨interp_lower _ hs lo (fun x hx => (hb x (hmem x hx)).1) _,
           interp_upper _ hs hi (fun x hx => (hb x (hmem x hx)).2) _⟩

private theorem insertAsc_eq (x : Rat) (ys : List Rat) : Spec.Prob.insertAsc x ys = insertQ x ys := by
  induction ys with
  | nil => rfl
  | cons y ys ih => simp only [Spec.Prob.insertAsc, insertQ, ih]

private theorem ascending_eq (xs : List Rat) : Spec.Prob.ascending xs = sortQ xs := by
  induction xs with
  | nil => rfl
  | cons x xs ih =>
    have h1 : Spec.Prob.ascending (x :: xs) = Spec.Prob.insertAsc x (Spec.Prob.ascending xs) := rfl
    have h2 : sortQ (x :: xs) = insertQ x (sortQ xs) := rfl
    rw [h1, h2, ih, insertAsc_eq]

private theorem sortQ_length (xs : List Rat) : (sortQ xs).length = xs.length := by
  rw [sortQ_eq]; exact (List.perm_insertionSort (· ≤ ·) xs).length_eq

/-- Hyndman & Fan's formula with order statistics x₍ⱼ₎, x₍ⱼ₊₁₎ (clipped to the sample) is NumPy's
index arithmetic at the virtual index g − 1 -/
private theorem hf9_eq_lerpAt (s : List Rat) (hs : s ≠ []) (g : Rat) :
    (match Spec.Prob.orderStat s g.floor, Spec.Prob.orderStat s (g.floor + 1) with
      | some a, some b => some (a + (g - (g.floor : Rat)) * (b - a))
      | _, _ => none) = lerpAt s (g - 1) := by
  have hn : 0 < s.length := List.length_pos_iff.mpr hs
  have hn' : (1 : Rat) ≤ s.length := by exact_mod_cast hn
  have hfl : ((g.floor : Int) : Rat) ≤ g := Rat.le_floor_iff.mp le_rfl
  have hfu : g < ((g.floor + 1 : Int) : Rat) := Rat.floor_lt_iff.mp (by omega)
  have hlen0 : s.length ≠ 0 := by omega
  unfold lerpAt
  simp only [hlen0, if_false]
  by_cases hA : (s.length : Rat) - 1 ≤ g - 1
  · -- at or beyond the last order statistic
    have hj : (s.length : Int) ≤ g.floor := by
      apply Rat.le_floor_iff.mpr; push_cast; linarith
    obtain ⟨L, hL⟩ : ∃ L, s.getLast? = some L := by
      cases s with
      | nil => exact absurd rfl hs
      | cons a t => exact ⟨_, List.getLast?_eq_some_getLast (by simp)⟩
    have h1 : Spec.Prob.orderStat s g.floor = some L := by
      unfold Spec.Prob.orderStat
      have : ¬ g.floor < 1 := by omega
      simp only [this, if_false]
      by_cases hgt : g.floor > (s.length : Int)
      · simp [hgt, hL]
      · have heq : g.floor = s.length := by omega
        simp only [hgt, if_false]
        rw [heq, ← hL, List.getLast?_eq_getElem?]
        congr 1
        omega
    have h2 : Spec.Prob.orderStat s (g.floor + 1) = some L := by
      unfold Spec.Prob.orderStat
      have h' : ¬ g.floor + 1 < 1 := by omega
      have h'' : g.floor + 1 > (s.length : Int) := by omega
      simp [h', h'', hL]
    simp only [h1, h2, hA, if_true, hL]
    congr 1; ring
  · simp only [hA, if_false]
    by_cases hB : g - 1 < 0
    · -- before the first order statistic
      have hj : g.floor ≤ 0 := by
        have : g.floor < 1 := by rw [Rat.floor_lt_iff]; push_cast; linarith
        omega
      obtain ⟨H, hH⟩ : ∃ H, s.head? = some H := by
        cases s with
        | nil => exact absurd rfl hs
        | cons a t => exact ⟨a, rfl⟩
      have h1 : Spec.Prob.orderStat s g.floor = some H := by
        unfold Spec.Prob.orderStat
        have : g.floor < 1 := by omega
        simp [this, hH]
      have h2 : Spec.Prob.orderStat s (g.floor + 1) = some H := by
        unfold Spec.Prob.orderStat
        by_cases h0 : g.floor + 1 < 1
        · simp [h0, hH]
        · have heq : g.floor = 0 := by omega
          have : ¬ ((0 : Int) + 1 > (s.length : Int)) := by omega
          rw [heq]
          simp only [Int.zero_add, show ¬ ((1 : Int) < 1) by omega, if_false]
          have h1n : ¬ ((1 : Int) > (s.length : Int)) := by omega
          simp only [h1n, if_false]
          rw [← hH, List.head?_eq_getElem?]
          rfl
      simp only [h1, h2, hB, if_true, hH]
      congr 1; ring
    · -- interior: 1 ≤ j ≤ n − 1
      simp only [hB, if_false]
      have hg1 : 1 ≤ g := by linarith
      have hgn : g < s.length := by linarith
      have hj1 : 1 ≤ g.floor := Rat.le_floor_iff.mpr (by simpa using hg1)
      have hjn : g.floor < (s.length : Int) := by
        rw [Rat.floor_lt_iff]; push_cast; exact hgn
      have hfloor : (g - 1).floor = g.floor - 1 := by
        apply floor_unique
        · push_cast; linarith
        · push_cast at hfu ⊢; linarith
      have hfn : floorNat (g - 1) = (g.floor - 1).toNat := by rw [floorNat_eq, hfloor]
      have hk : (g.floor - 1).toNat + 1 = g.floor.toNat := by omega
      have hk1 : (g.floor - 1).toNat < s.length := by omega
      have hk2 : g.floor.toNat < s.length := by omega
      have h1 : Spec.Prob.orderStat s g.floor = s[(g.floor - 1).toNat]? := by
        unfold Spec.Prob.orderStat
        have a1 : ¬ g.floor < 1 := by omega
        have a2 : ¬ g.floor > (s.length : Int) := by omega
        simp [a1, a2]
      have h2 : Spec.Prob.orderStat s (g.floor + 1) = s[g.floor.toNat]? := by
        unfold Spec.Prob.orderStat
        have a1 : ¬ g.floor + 1 < 1 := by omega
        have a2 : ¬ g.floor + 1 > (s.length : Int) := by omega
        simp only [a1, a2, if_false]
        congr 1
        omega
      rw [h1, h2, hfn, hk, List.getElem?_eq_getElem hk1, List.getElem?_eq_getElem hk2]
      simp only
      congr 1
      have hc : (((g.floor - 1).toNat : Nat) : Rat) = (g.floor : Rat) - 1 := by
        have : (((g.floor - 1).toNat : Nat) : Int) = g.floor - 1 := Int.toNat_of_nonneg (by omega)
        have h' : ((((g.floor - 1).toNat : Nat) : Int) : Rat) = ((g.floor - 1 : Int) : Rat) := by rw [this]
        push_cast at h'
        exact_mod_cast h'
      rw [hc]
      ring

/-- The quantile derived from the members is Hyndman & Fan's (1996) definition 9
(`normal_unbiased`): Q(p) = x₍ⱼ₎ + γ (x₍ⱼ₊₁₎ − x₍ⱼ₎), j = ⌊np + p/4 + 3/8⌋, γ the fractional part. -/
theorem C08_quantile_spec (ms : List Rat) (hne : ms ≠ []) (q : Rat) :
    ensQuantile q (Vec.ofRats ms) = (Spec.Prob.quantile9 ms q).map fin := by
  have hs : sortQ ms ≠ [] := by
    intro h
    have := sortQ_length ms
    rw [h] at this
    exact hne (List.length_eq_zero_iff.mp this.symm)
  have he : List.isEmpty (Vec.ofRats ms) = false := by cases ms <;> simp_all
  unfold ensQuantile Spec.Prob.quantile9
  rw [he, any_nan_ofRats, ratsOf_ofRats, ascending_eq]
  simp only [Bool.false_eq_true, if_false]
  have hg : virtualIndex ms.length q
      = ((sortQ ms).length : Rat) * q + (q / 4 + 3 / 8) - 1 := by
    rw [sortQ_length]; unfold virtualIndex; ring
  rw [hg, ← hf9_eq_lerpAt (sortQ ms) hs]
  rfl

/-- a missing member makes the quantile missing (np.quantile is not NaN-aware) -/
theorem C08_quantile_missing_member (q : Rat) (a b : Vec) :
    ensQuantile q (a ++ XR.nan :: b) = some XR.nan := by
  unfold ensQuantile
  have h1 : List.isEmpty (a ++ XR.nan :: b) = false := by cases a <;> simp
  have h2 : List.any (a ++ XR.nan :: b) XR.isNan = true := by simp
  rw [h1, h2]; simp

/-! ## the Brier probability bins -/

/-- the bin test on a rational probability -/
def inBinQ (i : Nat) (p : Rat) : Bool := decide (edgeQ i ≤ p) && decide (p < edgeQ (i + 1))

theorem inBin_fin (i : Nat) (p : Rat) : inBin i (fin p) = inBinQ i p := rfl

/-- the index of the bin of a probability in [0, 1] -/
def binOf (p : Rat) : Nat :=
  if p < 1 / 10 then 0 else if p < 2 / 10 then 1 else if p < 3 / 10 then 2 else if p < 4 / 10 then 3
  else if p < 5 / 10 then 4 else if p < 6 / 10 then 5 else if p < 7 / 10 then 6 else if p < 8 / 10 then 7
  else if p < 9 / 10 then 8 else 9

theorem binOf_lt (p : Rat) : binOf p < 10 := by
  unfold binOf; split_ifs <;> omega

theorem topEdge_gt : (1 : Rat) < topEdge := by unfold topEdge; norm_num

theorem edgeQ_lt (i : Nat) (hi : i < 10) : edgeQ i = (i : Rat) / 10 := by
  unfold edgeQ; simp [Nat.ne_of_lt hi]

theorem edgeQ_mono (a b : Nat) (hab : a ≤ b) (hb : b ≤ 10) : edgeQ a ≤ edgeQ b := by
  have ht := topEdge_gt
  by_cases hb10 : b = 10
  · by_cases ha10 : a = 10
    · rw [ha10, hb10]
    · have ha : a < 10 := by omega
      rw [edgeQ_lt a ha, hb10]
      have : (a : Rat) ≤ 9 := by exact_mod_cast (by omega : a ≤ 9)
      simp only [edgeQ, if_true]
      linarith
  · have hb' : b < 10 := by omega
    have ha : a < 10 := by omega
    rw [edgeQ_lt a ha, edgeQ_lt b hb']
    have : (a : Rat) ≤ b := by exact_mod_cast hab
    linarith

theorem binOf_lower (p : Rat) (h0 : 0 ≤ p) : edgeQ (binOf p) ≤ p := by
  rw [edgeQ_lt _ (binOf_lt p)]
  unfold binOf
  split_ifs <;> push_cast <;> linarith

theorem binOf_upper (p : Rat) (h1 : p ≤ 1) : p < edgeQ (binOf p + 1) := by
  have ht := topEdge_gt
  unfold binOf
  split_ifs <;> simp only [edgeQ] <;> norm_num <;> linarith

theorem inBinQ_iff (p : Rat) (h0 : 0 ≤ p) (h1 : p ≤ 1) (i : Nat) (hi : i < 10) :
    inBinQ i p = (binOf p == i) := by
  rw [Bool.eq_iff_iff]
  simp only [inBinQ, Bool.and_eq_true, decide_eq_true_eq, beq_iff_eq]
  constructor
  · rintro ⟨hlo, hup⟩
    have hk := binOf_lt p
    have hL := binOf_lower p h0
    have hU := binOf_upper p h1
    by_contra hne
    rcases Nat.lt_or_gt_of_ne hne with hlt | hgt
    · -- binOf p < i : edge (binOf p + 1) ≤ edge i ≤ p
      have := edgeQ_mono (binOf p + 1) i (by omega) (by omega)
      linarith
    · have := edgeQ_mono (i + 1) (binOf p) (by omega) (by omega)
      linarith
  · intro h
    subst h
    exact ⟨binOf_lower p h0, binOf_upper p h1⟩

theorem specInBin_iff (p : Rat) (h0 : 0 ≤ p) (h1 : p ≤ 1) (i : Nat) (hi : i < 10) :
    Spec.Prob.inBin i p = (binOf p == i) := by
  rw [← inBinQ_iff p h0 h1 i hi, Bool.eq_iff_iff]
  have ht := topEdge_gt
  simp only [Spec.Prob.inBin, inBinQ, Bool.and_eq_true, Bool.or_eq_true, decide_eq_true_eq, beq_iff_eq]
  rw [edgeQ_lt i hi]
  by_cases h9 : i = 9
  · subst h9
    simp only [edgeQ]
    norm_num
    intro _
    constructor
    · intro _; linarith
    · intro _; rcases lt_or_eq_of_le h1 with h | h
      · left; linarith
      · right; exact h
  · have hi' : i + 1 < 10 := by omega
    rw [edgeQ_lt (i + 1) hi']
    push_cast
    simp [h9]

/-- Every probability in [0, 1] falls in exactly one of the ten Brier bins; the top bin contains
p = 1 (its edge is 1.001). -/
theorem C08_bins_cover (p : Rat) (h0 : 0 ≤ p) (h1 : p ≤ 1) :
    ∃! i, i < numBins ∧ inBin i (fin p) = true := by
  refine ⟨binOf p, ⟨binOf_lt p, ?_⟩, ?_⟩
  · rw [inBin_fin, inBinQ_iff p h0 h1 _ (binOf_lt p)]; simp
  · rintro j ⟨hj, hjb⟩
    rw [inBin_fin, inBinQ_iff p h0 h1 j hj] at hjb
    simpa using (by simpa using hjb : binOf p = j).symm

/-- without the widened top edge the cover would fail at p = 1 (what the mutation `1.001 → 1` breaks) -/
example : inBin 9 (fin 1) = true ∧ (XR.ge (fin 1) (fin (9 / 10)) && XR.lt (fin 1) (fin 1)) = false := by
  decide +kernel

/-- the model's bins are the textbook bins: ten equally wide intervals, the top one closed at 1 -/
theorem C08_bins_spec (p : Rat) (h0 : 0 ≤ p) (h1 : p ≤ 1) (i : Nat) (hi : i < numBins) :
    inBin i (fin p) = Spec.Prob.inBin i p := by
  rw [inBin_fin, inBinQ_iff p h0 h1 i hi, specInBin_iff p h0 h1 i hi]

theorem binIdx_fin (p : Rat) (h0 : 0 ≤ p) (h1 : p ≤ 1) : binIdx (fin p) = some (binOf p) := by
  unfold binIdx
  rw [List.find?_range_eq_some]
  refine ⟨?_, ?_, ?_⟩
  · rw [inBin_fin, inBinQ_iff p h0 h1 _ (binOf_lt p)]; simp
  · simpa [numBins] using binOf_lt p
  · intro j hj
    have hj10 : j < 10 := lt_trans hj (binOf_lt p)
    rw [inBin_fin, inBinQ_iff p h0 h1 j hj10]
    simp only [Bool.not_eq_true', beq_eq_false_iff_ne, ne_eq]
    omega

/-! ## sums over cases, grouped by bin (lists, no Finset) -/

private theorem sum_map_add' {α : Type} (l : List α) (f g : α → Rat) :
    (l.map fun x => f x + g x).sum = (l.map f).sum + (l.map g).sum := by
  induction l with
  | nil => simp
  | cons a l ih => simp only [List.map_cons, List.sum_cons, ih]; ring

private theorem sum_map_mul_left' {α : Type} (l : List α) (r : Rat) (f : α → Rat) :
    (l.map fun x => r * f x).sum = r * (l.map f).sum := by
  induction l with
  | nil => simp
  | cons a l ih => simp only [List.map_cons, List.sum_cons, ih]; ring

private theorem sum_map_const' {α : Type} (l : List α) (r : Rat) :
    (l.map fun _ => r).sum = (l.length : Rat) * r := by
  induction l with
  | nil => simp
  | cons a l ih => simp only [List.map_cons, List.sum_cons, ih, List.length_cons]; push_cast; ring

private theorem sum_map_zero' {α : Type} (l : List α) (f : α → Rat) (h : ∀ x ∈ l, f x = 0) :
    (l.map f).sum = 0 := by
  induction l with
  | nil => simp
  | cons a l ih =>
    simp only [List.map_cons, List.sum_cons, h a (by simp), ih (fun x hx => h x (by simp [hx]))]
    ring

private theorem sum_range_ite (K k : Nat) (hk : k < K) (x : Rat) :
    ((List.range K).map (fun i => if k = i then x else 0)).sum = x := by
  induction K with
  | zero => omega
  | succ K ih =>
    rw [List.range_succ, List.map_append, List.sum_append]
    by_cases h : k = K
    · subst h
      have : ((List.range k).map (fun i => if k = i then x else 0)).sum = 0 := by
        apply sum_map_zero'
        intro i hi
        have : i < k := List.mem_range.mp hi
        simp [Nat.ne_of_gt this]
      simp [this]
    · have hk' : k < K := by omega
      simp [ih hk', h]

section groups
variable (key : Rat → Nat)

/-- the cases (outcome, probability) whose probability has key `i` -/
def grp (cs : List (Rat × Rat)) (i : Nat) : List (Rat × Rat) := cs.filter fun c => key c.2 == i

/-- mean outcome of group `i` -/
def gmean (cs : List (Rat × Rat)) (i : Nat) : Rat :=
  ((grp key cs i).map (·.1)).sum / ((grp key cs i).length : Rat)

theorem mem_grp {cs : List (Rat × Rat)} {i : Nat} {c : Rat × Rat} (h : c ∈ grp key cs i) :
    c ∈ cs ∧ key c.2 = i := by
  unfold grp at h
  rw [List.mem_filter] at h
  exact ⟨h.1, by simpa using h.2⟩

/-- a sum over the cases is the sum over the groups of the sums within the groups -/
theorem sum_by_key (K : Nat) (cs : List (Rat × Rat)) (hK : ∀ c ∈ cs, key c.2 < K)
    (F : Rat × Rat → Rat) :
    (cs.map F).sum = ((List.range K).map fun i => ((grp key cs i).map F).sum).sum := by
  induction cs with
  | nil => simp [grp]
  | cons c cs ih =>
    have hstep : ∀ i, ((grp key (c :: cs) i).map F).sum
        = (if key c.2 = i then F c else 0) + ((grp key cs i).map F).sum := by
      intro i
      unfold grp
      by_cases h : key c.2 = i
      · simp [List.filter_cons, h]
      · simp [List.filter_cons, h]
    simp only [hstep, sum_map_add', List.map_cons, List.sum_cons]
    rw [sum_range_ite K (key c.2) (hK c (by simp)), ih (fun x hx => hK x (by simp [hx]))]

/-- Within each group the deviations of the outcomes from the group mean sum to zero; hence, for
any weight `h` that is constant on groups, Σ h(c)·(ō_group(c) − o_c) = 0. -/
theorem group_dev_zero (K : Nat) (cs : List (Rat × Rat)) (hK : ∀ c ∈ cs, key c.2 < K)
    (h : Rat × Rat → Rat)
    (hconst : ∀ c ∈ cs, ∀ c' ∈ cs, key c.2 = key c'.2 → h c = h c') :
    (cs.map fun c => h c * (gmean key cs (key c.2) - c.1)).sum = 0 := by
  rw [sum_by_key key K cs hK]
  apply sum_map_zero'
  intro i _
  cases hg : grp key cs i with
  | nil => simp
  | cons c0 rest =>
    have hc0 : c0 ∈ grp key cs i := by rw [hg]; simp
    have hmap : ((c0 :: rest).map fun c => h c * (gmean key cs (key c.2) - c.1))
        = (c0 :: rest).map fun c => h c0 * (gmean key cs i - c.1) := by
      apply List.map_congr_left
      intro c hc
      have hc' : c ∈ grp key cs i := by rw [hg]; exact hc
      have h1 := mem_grp key hc'
      have h2 := mem_grp key hc0
      rw [hconst c h1.1 c0 h2.1 (by rw [h1.2, h2.2]), h1.2]
    rw [hmap, sum_map_mul_left']
    have hsub : ((c0 :: rest).map fun c => gmean key cs i - c.1).sum
        = ((c0 :: rest).length : Rat) * gmean key cs i - ((c0 :: rest).map (·.1)).sum := by
      have : ((c0 :: rest).map fun c => gmean key cs i - c.1)
          = (c0 :: rest).map fun c => gmean key cs i + (-1) * c.1 := by
        apply List.map_congr_left; intro c _; ring
      rw [this, sum_map_add', sum_map_const', sum_map_mul_left']; ring
    rw [hsub]
    have hlen : ((c0 :: rest).length : Rat) ≠ 0 := by simp; positivity
    unfold gmean
    rw [hg]
    field_simp
    ring

/-- a function of the group only, summed over the cases: Σ_groups n_group · value -/
theorem sum_group_fn (K : Nat) (cs : List (Rat × Rat)) (hK : ∀ c ∈ cs, key c.2 < K) (g : Nat → Rat) :
    (cs.map fun c => g (key c.2)).sum
      = ((List.range K).map fun i => ((grp key cs i).length : Rat) * g i).sum := by
  rw [sum_by_key key K cs hK]
  congr 1
  apply List.map_congr_left
  intro i _
  have : ((grp key cs i).map fun c => g (key c.2)) = (grp key cs i).map fun _ => g i := by
    apply List.map_congr_left
    intro c hc
    rw [(mem_grp key hc).2]
  rw [this, sum_map_const']

end groups

/-! ## the hand-modelled Brier terms equal Murphy's (1973) definitions -/

/-- forecast probabilities are probabilities -/
def Prob01 (ps : List Rat) : Prop := ∀ p ∈ ps, 0 ≤ p ∧ p ≤ 1
/-- forecasts take a single value per probability bin -/
def SingleValued (ps : List Rat) : Prop := ∀ p ∈ ps, ∀ p' ∈ ps, binOf p = binOf p' → p = p'

section binned
variable (os ps : List Rat) (hne : os ≠ []) (hl : os.length = ps.length) (hp : Prob01 ps)

private theorem snd_mem_zip {c : Rat × Rat} (h : c ∈ os.zip ps) : c.2 ∈ ps :=
  (List.of_mem_zip (a := c.1) (b := c.2) h).2

private theorem key_lt : ∀ c ∈ os.zip ps, binOf c.2 < 10 := fun c _ => binOf_lt c.2

private theorem map_ofRats (F : XR → XR) (xs : List Rat) :
    List.map F (Vec.ofRats xs) = List.map (fun x => F (fin x)) xs := by
  simp [Vec.ofRats, List.map_map, Function.comp_def]

private theorem ofRats_map_fun (g : Rat → Rat) (xs : List Rat) :
    Vec.ofRats (List.map g xs) = List.map (fun x => fin (g x)) xs := by
  simp [Vec.ofRats, List.map_map, Function.comp_def]

include hp in
/-- `obs[I]` of bin i is the list of outcomes of group i -/
private theorem obsInBin_fin (i : Nat) (hi : i < 10) :
    obsInBin i (Vec.ofRats os) (Vec.ofRats ps) = Vec.ofRats ((grp binOf (os.zip ps) i).map (·.1)) := by
  unfold obsInBin grp
  rw [Vec.ofRats_map, Vec.ofRats_map, List.zip_map, List.filter_map, List.map_map, Vec.ofRats_map,
    List.map_map]
  have hf : List.filter ((fun c : XR × XR => inBin i c.2) ∘ Prod.map fin fin) (os.zip ps)
      = List.filter (fun c => binOf c.2 == i) (os.zip ps) := by
    apply List.filter_congr
    intro c hc
    have h01 := hp c.2 (snd_mem_zip os ps hc)
    show inBin i (fin c.2) = _
    rw [inBin_fin, inBinQ_iff c.2 h01.1 h01.2 i hi]
  rw [hf]
  rfl

include hl in
private theorem grp_ne_nil (p : Rat) (hpm : p ∈ ps) : grp binOf (os.zip ps) (binOf p) ≠ [] := by
  obtain ⟨j, hj, rfl⟩ := List.getElem_of_mem hpm
  have hj' : j < (os.zip ps).length := by simp [List.length_zip, hl, hj]
  have hmem : (os.zip ps)[j] ∈ os.zip ps := List.getElem_mem hj'
  rw [List.getElem_zip] at hmem
  intro hnil
  have : (os[j]'(by omega), ps[j]) ∈ grp binOf (os.zip ps) (binOf ps[j]) := by
    unfold grp
    rw [List.mem_filter]
    exact ⟨hmem, by simp⟩
  rw [hnil] at this
  simp at this

include hl hp in
private theorem binObsMean_fin (p : Rat) (hpm : p ∈ ps) :
    binObsMean (binOf p) (Vec.ofRats os) (Vec.ofRats ps) = fin (gmean binOf (os.zip ps) (binOf p)) := by
  unfold binObsMean
  rw [obsInBin_fin os ps hp _ (binOf_lt p)]
  have hne' : (grp binOf (os.zip ps) (binOf p)).map (·.1) ≠ [] := by
    simpa using grp_ne_nil os ps hl p hpm
  rw [Vec.mean_ofRats _ hne']
  simp [gmean]

include hl hp in
private theorem relTerms_fin :
    relTerms (Vec.ofRats os) (Vec.ofRats ps)
      = Vec.ofRats (ps.map fun p => (p - gmean binOf (os.zip ps) (binOf p)) ^ 2) := by
  unfold relTerms
  rw [map_ofRats, ofRats_map_fun]
  apply List.map_congr_left
  intro p hpm
  have h01 := hp p hpm
  rw [binIdx_fin p h01.1 h01.2]
  simp only [binObsMean_fin os ps hl hp p hpm, fin_sub, npow_fin]

include hne hl hp in
private theorem resTerms_fin :
    resTerms (Vec.ofRats os) (Vec.ofRats ps)
      = Vec.ofRats (ps.map fun p => (gmean binOf (os.zip ps) (binOf p) - os.sum / os.length) ^ 2) := by
  unfold resTerms
  rw [map_ofRats, ofRats_map_fun]
  apply List.map_congr_left
  intro p hpm
  have h01 := hp p hpm
  rw [binIdx_fin p h01.1 h01.2]
  simp only [binObsMean_fin os ps hl hp p hpm, Vec.mean_ofRats os hne, fin_sub, npow_fin]

include hne hl in
private theorem ps_ne : ps ≠ [] := by
  intro h; apply hne; rw [h] at hl; exact List.length_eq_zero_iff.mp hl

include hl in
/-- a sum over the probabilities as a sum over the cases -/
private theorem sum_ps_cases (F : Rat → Rat) :
    (ps.map F).sum = ((os.zip ps).map fun c => F c.2).sum := by
  have : (os.zip ps).map (fun c => F c.2) = ((os.zip ps).map Prod.snd).map F := by
    rw [List.map_map]; rfl
  rw [this, List.map_snd_zip (by omega)]

include hl in
private theorem sum_os_cases (F : Rat → Rat) :
    (os.map F).sum = ((os.zip ps).map fun c => F c.1).sum := by
  have : (os.zip ps).map (fun c => F c.1) = ((os.zip ps).map Prod.fst).map F := by
    rw [List.map_map]; rfl
  rw [this, List.map_fst_zip (by omega)]

include hne hl hp in
/-- value of the model's reliability term: the mean over the cases of (p − ō_bin)² -/
private theorem bsrel_value :
    bsrel (Vec.ofRats os) (Vec.ofRats ps)
      = fin (((os.zip ps).map fun c => (c.2 - gmean binOf (os.zip ps) (binOf c.2)) ^ 2).sum / os.length) := by
  unfold bsrel
  rw [relTerms_fin os ps hl hp, Vec.nanmean_ofRats,
    Vec.mean_ofRats _ (by simpa using ps_ne os ps hne hl)]
  rw [sum_ps_cases os ps hl (fun p => (p - gmean binOf (os.zip ps) (binOf p)) ^ 2)]
  simp [hl]

include hne hl hp in
private theorem bsres_value :
    bsres (Vec.ofRats os) (Vec.ofRats ps)
      = fin (((os.zip ps).map fun c =>
          (gmean binOf (os.zip ps) (binOf c.2) - os.sum / os.length) ^ 2).sum / os.length) := by
  unfold bsres
  rw [resTerms_fin os ps hne hl hp, Vec.nanmean_ofRats,
    Vec.mean_ofRats _ (by simpa using ps_ne os ps hne hl)]
  rw [sum_ps_cases os ps hl (fun p => (gmean binOf (os.zip ps) (binOf p) - os.sum / os.length) ^ 2)]
  simp [hl]

include hp in
/-- the Spec's members of bin k are group k -/
private theorem members_eq (k : Nat) (hk : k < 10) :
    Spec.Prob.members k os ps = grp binOf (os.zip ps) k := by
  unfold Spec.Prob.members grp
  apply List.filter_congr
  intro c hc
  have h01 := hp c.2 (snd_mem_zip os ps hc)
  exact specInBin_iff c.2 h01.1 h01.2 k hk

include hne hl hp in
/-- Resolution term: BsRes's per-case average equals (1/N) Σₖ nₖ (ōₖ − ō)² (Murphy 1973). -/
theorem C08_def_bsres :
    bsres (Vec.ofRats os) (Vec.ofRats ps) = fin (Spec.Prob.res os ps) := by
  rw [bsres_value os ps hne hl hp]
  congr 1
  unfold Spec.Prob.res Spec.Prob.binSum
  congr 1
  rw [sum_group_fn binOf 10 (os.zip ps) (key_lt os ps)
    (fun i => (gmean binOf (os.zip ps) i - os.sum / os.length) ^ 2)]
  congr 1
  apply List.map_congr_left
  intro k hk
  have hk' : k < 10 := List.mem_range.mp hk
  simp only [members_eq os ps hp k hk']
  cases hg : grp binOf (os.zip ps) k with
  | nil => simp
  | cons c0 rest =>
    simp only [List.isEmpty_cons, Bool.false_eq_true, if_false, gmean, hg, Spec.Prob.mean, List.length_map]

include hne hl hp in
/-- Reliability term: when each bin holds a single forecast value, BsRel's per-case average equals
(1/N) Σₖ nₖ (p̄ₖ − ōₖ)² (Murphy 1973).  (Without the hypothesis BsRel exceeds Murphy's term by the
within-bin variance of the forecasts.) -/
theorem C08_def_bsrel (hsv : SingleValued ps) :
    bsrel (Vec.ofRats os) (Vec.ofRats ps) = fin (Spec.Prob.rel os ps) := by
  rw [bsrel_value os ps hne hl hp]
  congr 1
  unfold Spec.Prob.rel Spec.Prob.binSum
  congr 1
  rw [sum_by_key binOf 10 (os.zip ps) (key_lt os ps)]
  congr 1
  apply List.map_congr_left
  intro k hk
  have hk' : k < 10 := List.mem_range.mp hk
  simp only [members_eq os ps hp k hk']
  cases hg : grp binOf (os.zip ps) k with
  | nil => simp
  | cons c0 rest =>
    have hc0 : c0 ∈ grp binOf (os.zip ps) k := by rw [hg]; simp
    have hall : ∀ c ∈ c0 :: rest, c.2 = c0.2 := by
      intro c hc
      have hc' : c ∈ grp binOf (os.zip ps) k := by rw [hg]; exact hc
      have h1 := mem_grp binOf hc'
      have h2 := mem_grp binOf hc0
      exact hsv c.2 (snd_mem_zip os ps h1.1) c0.2 (snd_mem_zip os ps h2.1) (by rw [h1.2, h2.2])
    have hmap : ((c0 :: rest).map fun c => (c.2 - gmean binOf (os.zip ps) (binOf c.2)) ^ 2)
        = (c0 :: rest).map fun _ => (c0.2 - gmean binOf (os.zip ps) k) ^ 2 := by
      apply List.map_congr_left
      intro c hc
      have hc' : c ∈ grp binOf (os.zip ps) k := by rw [hg]; exact hc
      rw [hall c hc, ← (mem_grp binOf hc').2, hall c hc]
    have hmean : Spec.Prob.mean ((c0 :: rest).map (·.2)) = c0.2 := by
      have : (c0 :: rest).map (·.2) = (c0 :: rest).map fun _ => c0.2 := by
        apply List.map_congr_left; intro c hc; exact hall c hc
      rw [this]
      unfold Spec.Prob.mean
      rw [sum_map_const', List.length_map]
      have : ((c0 :: rest).length : Rat) ≠ 0 := by simp; positivity
      field_simp
    rw [hmap, sum_map_const']
    simp only [List.isEmpty_cons, Bool.false_eq_true, if_false, hmean]
    simp only [gmean, hg, Spec.Prob.mean, List.length_map]

private theorem sum_identity (l : List (Rat × Rat)) (A B C D E : Rat × Rat → Rat)
    (h : ∀ c ∈ l, A c = B c - C c + D c - 2 * E c) :
    (l.map A).sum = (l.map B).sum - (l.map C).sum + (l.map D).sum - 2 * (l.map E).sum := by
  induction l with
  | nil => simp
  | cons c l ih =>
    simp only [List.map_cons, List.sum_cons, h c (by simp), ih (fun x hx => h x (by simp [hx]))]
    ring

private theorem zipWith_eq_map_zip (f : Rat → Rat → Rat) (xs ys : List Rat) :
    List.zipWith f xs ys = (xs.zip ys).map fun c => f c.1 c.2 := by
  induction xs generalizing ys with
  | nil => simp
  | cons x xs ih => cases ys <;> simp [ih]

include hne hl hp in
/-- **Murphy's partition.**  If every forecast in a bin equals the bin's single forecast value,
then BS = REL − RES + UNC for the quantities as verif computes them (outcome indicators 0/1,
probabilities in [0, 1]). -/
theorem C08_decomposition (T : Tr) (hb : GenEq.Prob.Binary os) (hsv : SingleValued ps) :
    Prob.bs T (Vec.ofRats os) (Vec.ofRats ps)
      = bsrel (Vec.ofRats os) (Vec.ofRats ps) - bsres (Vec.ofRats os) (Vec.ofRats ps)
        + Prob.bsunc T (Vec.ofRats os) (Vec.ofRats ps) := by
  have hN : (os.length : Rat) ≠ 0 := GenEq.Prob.length_pos_ne os hne
  rw [show Prob.bs T (Vec.ofRats os) (Vec.ofRats ps) = fin (Spec.Prob.bs os ps) from
        GenEq.Prob.bs_eq T os ps hne hl,
      show Prob.bsunc T (Vec.ofRats os) (Vec.ofRats ps) = fin (Spec.Prob.unc os) from
        GenEq.Prob.bsunc_eq T os ps hne hl hb,
      bsrel_value os ps hne hl hp, bsres_value os ps hne hl hp]
  simp only [fin_sub, fin_add]
  congr 1
  -- everything as sums over the cases
  have hA : Spec.Prob.bs os ps = ((os.zip ps).map fun c => (c.2 - c.1) ^ 2).sum / os.length := by
    unfold Spec.Prob.bs Spec.Prob.mean
    rw [zipWith_eq_map_zip]
    simp [List.length_zip, hl]
  have hD : Spec.Prob.unc os
      = ((os.zip ps).map fun c => (os.sum / os.length - c.1) ^ 2).sum / os.length := by
    unfold Spec.Prob.unc Spec.Prob.mean
    rw [← GenEq.Prob.mean_sq_dev_binary os hne hb,
      sum_os_cases os ps hl (fun o => (os.sum / os.length - o) ^ 2)]
  -- the cross term vanishes: the weight ō − p is constant within a bin
  have hE := group_dev_zero binOf 10 (os.zip ps) (key_lt os ps) (fun c => os.sum / os.length - c.2)
    (by
      intro c hc c' hc' hk
      rw [hsv c.2 (snd_mem_zip os ps hc) c'.2 (snd_mem_zip os ps hc') hk])
  have hid := sum_identity (os.zip ps)
    (fun c => (c.2 - c.1) ^ 2)
    (fun c => (c.2 - gmean binOf (os.zip ps) (binOf c.2)) ^ 2)
    (fun c => (gmean binOf (os.zip ps) (binOf c.2) - os.sum / os.length) ^ 2)
    (fun c => (os.sum / os.length - c.1) ^ 2)
    (fun c => (os.sum / os.length - c.2) * (gmean binOf (os.zip ps) (binOf c.2) - c.1))
    (by intro c _; ring)
  rw [hA, hD, hid, hE]
  generalize ((os.zip ps).map fun c => (c.2 - gmean binOf (os.zip ps) (binOf c.2)) ^ 2).sum = B
  generalize ((os.zip ps).map fun c => (gmean binOf (os.zip ps) (binOf c.2) - os.sum / os.length) ^ 2).sum = C
  generalize ((os.zip ps).map fun c => (os.sum / (os.length : Rat) - c.1) ^ 2).sum = D
  ring

include hne hl hp in
/-- reliability and resolution terms of the Brier skill score: REL/UNC and RES/UNC, NaN exactly
when the observations are constant (UNC = 0) -/
theorem C08_def_bssrel (hb : GenEq.Prob.Binary os) (hsv : SingleValued ps) :
    bssrel (Vec.ofRats os) (Vec.ofRats ps) = Spec.Prob.toXR (Spec.Prob.bssrel os ps) := by
  have hu : uncOf (Vec.ofRats os) = fin (Spec.Prob.unc os) :=
    GenEq.Prob.bsunc_eq ⟨id, id, id, id⟩ os ps hne hl hb
  unfold bssrel Spec.Prob.bssrel Spec.Prob.sdiv
  rw [hu, C08_def_bsrel os ps hne hl hp hsv]
  by_cases h0 : Spec.Prob.unc os = 0
  · simp [h0, Spec.Prob.toXR]
  · simp [h0, Spec.Prob.toXR]

include hne hl hp in
theorem C08_def_bssres (hb : GenEq.Prob.Binary os) :
    bssres (Vec.ofRats os) (Vec.ofRats ps) = Spec.Prob.toXR (Spec.Prob.bssres os ps) := by
  have hu : uncOf (Vec.ofRats os) = fin (Spec.Prob.unc os) :=
    GenEq.Prob.bsunc_eq ⟨id, id, id, id⟩ os ps hne hl hb
  unfold bssres Spec.Prob.bssres Spec.Prob.sdiv
  rw [hu, C08_def_bsres os ps hne hl hp]
  by_cases h0 : Spec.Prob.unc os = 0
  · simp [h0, Spec.Prob.toXR]
  · simp [h0, Spec.Prob.toXR]

end binned

/-! ## complement -/

/-- The Brier score of an event equals that of its complement: replacing every probability p by
1 − p and every outcome o by 1 − o (what `below t` ↦ `above= t` does, see `C08_getp_complement`)
leaves BS unchanged. -/
theorem C08_complement (T : Tr) (os ps : List Rat) (hne : os ≠ []) (hl : os.length = ps.length) :
    Prob.bs T (Vec.ofRats os) (Vec.ofRats ps)
      = Prob.bs T (Vec.ofRats (os.map (1 - ·))) (Vec.ofRats (ps.map (1 - ·))) := by
  rw [show Prob.bs T (Vec.ofRats os) (Vec.ofRats ps) = fin (Spec.Prob.bs os ps) from
        GenEq.Prob.bs_eq T os ps hne hl,
      show Prob.bs T (Vec.ofRats (os.map (1 - ·))) (Vec.ofRats (ps.map (1 - ·)))
          = fin (Spec.Prob.bs (os.map (1 - ·)) (ps.map (1 - ·))) from
        GenEq.Prob.bs_eq T _ _ (by simpa using hne) (by simpa using hl)]
  congr 1
  unfold Spec.Prob.bs Spec.Prob.mean
  have : List.zipWith (fun o p => (p - o) ^ 2) (os.map (1 - ·)) (ps.map (1 - ·))
      = List.zipWith (fun o p => (p - o) ^ 2) os ps := by
    rw [List.zipWith_map]
    congr 1
    funext o p
    ring
  rw [this]

/-! ## the other hand-modelled kernels -/

section simple
variable (os ps : List Rat) (hne : os ≠ []) (hl : os.length = ps.length)

include hne hl in
/-- marginal ratio = observed frequency / mean forecast probability; NaN exactly when the mean
forecast probability is 0 -/
theorem C08_def_marginalratio :
    marginalRatio (Vec.ofRats os) (Vec.ofRats ps) = Spec.Prob.toXR (Spec.Prob.marginalRatio os ps) := by
  have hps : ps ≠ [] := by
    intro h; apply hne; rw [h] at hl; exact List.length_eq_zero_iff.mp hl
  unfold marginalRatio Spec.Prob.marginalRatio Spec.Prob.sdiv Spec.Prob.mean
  rw [Vec.mean_ofRats os hne, Vec.mean_ofRats ps hps]
  by_cases h0 : ps.sum / (ps.length : Rat) = 0
  · simp [h0, Spec.Prob.toXR]
  · simp [h0, Spec.Prob.toXR]

include hne hl in
/-- spread = mean width q₁ − q₀ -/
theorem C08_def_spread :
    spread (Vec.ofRats os) (Vec.ofRats ps) = fin (Spec.Prob.spread os ps) := by
  have hz : List.zipWith (fun a b => b - a) os ps ≠ [] := GenEq.Prob.zipWith_ne_nil _ os ps hne hl
  unfold spread Spec.Prob.spread Spec.Prob.mean
  rw [Vec.sub_ofRats, List.zipWith_comm, Vec.mean_ofRats _ hz]

include hne in
/-- Pit = mean PIT value (default aggregator) -/
theorem C08_def_pit : Vec.mean (Vec.ofRats os) = fin (Spec.Prob.mean os) := by
  rw [Vec.mean_ofRats os hne]; rfl

end simple

/-- spread–skill ratio: (mean width / numStd) / RMSE of the deterministic forecast, for every `Tr`
and every value of the normal-quantile parameter -/
theorem C08_def_spreadskillratio (T : Tr) (numStd : XR) (q0s q1s os fs : List Rat)
    (hq : q0s ≠ []) (hlq : q0s.length = q1s.length) (ho : os ≠ []) (hlo : os.length = fs.length) :
    spreadSkill T numStd (Vec.ofRats q0s) (Vec.ofRats q1s) (Vec.ofRats os) (Vec.ofRats fs)
      = Spec.Prob.spreadSkill T numStd q0s q1s os fs := by
  have hz : List.zipWith (fun o f => (o - f) ^ 2) os fs ≠ [] := GenEq.Prob.zipWith_ne_nil _ os fs ho hlo
  unfold spreadSkill Spec.Prob.spreadSkill
  rw [C08_def_spread q0s q1s hq hlq]
  congr 2
  rw [Vec.sub_ofRats, Vec.abs_ofRats, Vec.npow_ofRats]
  have : List.map (fun x => x ^ 2) (List.map (fun x => |x|) (List.zipWith (fun x1 x2 => x1 - x2) os fs))
      = List.zipWith (fun o f => (o - f) ^ 2) os fs := by
    rw [List.map_map, List.map_zipWith]
    congr 1
    funext o f
    simp [sq_abs]
  rw [this, Vec.mean_ofRats _ hz]
  rfl

/-! ### quantile coverage -/

private theorem count_sum {α : Type} (l : List α) (P : α → Bool) :
    (l.map fun c => if P c then (1 : Rat) else 0).sum = ((l.filter P).length : Rat) := by
  induction l with
  | nil => simp
  | cons a l ih =>
    by_cases h : P a
    · simp only [List.map_cons, List.sum_cons, h, if_true, ih, List.filter_cons, List.length_cons]
      push_cast; ring
    · simp only [List.map_cons, List.sum_cons, h, ih, List.filter_cons]
      simp

private theorem sum_bool_fin {α : Type} (l : List α) (P : α → Bool) :
    Vec.sum (List.map (fun c => boolToXR (P c)) l) = fin ((l.filter P).length : Rat) := by
  have h1 : List.map (fun c => boolToXR (P c)) l = Vec.ofRats (l.map fun c => if P c then (1 : Rat) else 0) := by
    rw [Vec.ofRats_map, List.map_map]
    apply List.map_congr_left
    intro c _
    by_cases h : P c <;> simp [boolToXR, h]
  rw [h1, Vec.sum_ofRats, count_sum]

/-- the cases as the Spec sees them: an untested side has no quantile -/
def covCases (useLo useUp : Bool) (os q0s q1s : List Rat) : List (Rat × Option Rat × Option Rat) :=
  (os.zip (q0s.zip q1s)).map fun c =>
    (c.1, (if useLo then some c.2.1 else none), (if useUp then some c.2.2 else none))

/-- quantile coverage = fraction of cases whose observation lies in the interval spanned by the
quantile forecasts, with the interval's end-point conventions; a side at ±∞ is not tested -/
theorem C08_def_quantilecoverage (I : Interval) (useLo useUp : Bool) (os q0s q1s : List Rat)
    (hne : os ≠ []) (hl0 : os.length = q0s.length) (hl1 : os.length = q1s.length) :
    coverage I useLo useUp (Vec.ofRats os) (Vec.ofRats q0s) (Vec.ofRats q1s)
      = fin (Spec.Prob.coverage I.lowerEq I.upperEq (covCases useLo useUp os q0s q1s)) := by
  have hzne : os.zip (q0s.zip q1s) ≠ [] := by
    cases os <;> cases q0s <;> cases q1s <;> simp_all
  have hzip : List.zip (Vec.ofRats os) (List.zip (Vec.ofRats q0s) (Vec.ofRats q1s))
      = (os.zip (q0s.zip q1s)).map (Prod.map fin (Prod.map fin fin)) := by
    simp only [Vec.ofRats_map, List.zip_map]
  have hall : List.filter ((fun (c : XR × XR × XR) => !(c.1.isNan || c.2.1.isNan || c.2.2.isNan))
      ∘ Prod.map fin (Prod.map fin fin)) (os.zip (q0s.zip q1s)) = os.zip (q0s.zip q1s) := by
    apply List.filter_eq_self.mpr
    intro c _
    simp
  simp only [coverage, hzip, List.filter_map, hall, List.map_map]
  refine Eq.trans (congrArg Vec.mean (List.map_congr_left (g := fun c => boolToXR
    ((fun (c : Rat × Rat × Rat) => Spec.Prob.covered I.lowerEq I.upperEq c.1
      (if useLo then some c.2.1 else none) (if useUp then some c.2.2 else none)) c)) ?_)) ?_
  · intro c _
    simp only [Function.comp, Prod.map, Spec.Prob.covered]
    congr 1
    cases useLo <;> cases useUp <;> cases I.lowerEq <;> cases I.upperEq <;>
      simp [XR.le, XR.lt, XR.ge, XR.gt]
  · unfold Vec.mean
    rw [sum_bool_fin]
    simp only [Vec.len, XR.ofNat, List.length_map]
    have hlen : ((os.zip (q0s.zip q1s)).length : Rat) ≠ 0 := by
      have : 0 < (os.zip (q0s.zip q1s)).length := List.length_pos_iff.mpr hzne
      exact_mod_cast this.ne'
    rw [fin_div_ne _ _ hlen]
    congr 1
    unfold Spec.Prob.coverage covCases
    rw [List.filter_map, List.length_map, List.length_map]
    rfl

/-! ### PIT histogram statistics -/

private theorem range10 : List.range 10 = [0, 1, 2, 3, 4, 5, 6, 7, 8, 9] := by decide
private theorem pitEdges_len : pitEdges.length = 11 := by decide +kernel

private theorem pitEdges_getD (k : Nat) (hk : k ≤ 10) : pitEdges.getD k 0 = (k : Rat) / 10 := by
  have hk' : k < 11 := by omega
  simp [pitEdges, List.getD_eq_getElem?_getD, List.getElem?_map, List.getElem?_range hk']

/-- `np.histogram` with the edges 0, 0.1, …, 1 counts what the Spec's bins count -/
private theorem histogram_fin (xs : List Rat) :
    histogram pitEdges (Vec.ofRats xs) = Spec.Prob.pitCounts xs := by
  unfold histogram Spec.Prob.pitCounts
  rw [pitEdges_len]
  apply List.map_congr_left
  intro k hk
  have hk' : k < 10 := by have := List.mem_range.mp hk; omega
  simp only [pitEdges_getD k (by omega), pitEdges_getD (k + 1) (by omega), Vec.ofRats_map, List.filter_map,
    List.length_map]
  congr 1
  apply List.filter_congr
  intro x _
  simp only [Function.comp, XR.ge, XR.le, XR.lt, XR.eqb, Spec.Prob.pitIn]
  by_cases h9 : k = 9
  · subst h9; norm_num
  · have hb : (k == 9) = false := by simp [h9]
    simp [hb]

private theorem foldl_add_sum (n : List Nat) (a : Nat) : n.foldl (· + ·) a = a + n.sum := by
  induction n generalizing a with
  | nil => simp
  | cons x xs ih => simp [List.foldl_cons, ih, Nat.add_assoc]

/-- the normalised histogram: NaN everywhere when nothing was counted, else the relative frequencies -/
private theorem pitNormalise_spec (cs : List Nat) :
    pitNormalise cs = match Spec.Prob.normalise cs with
      | none => cs.map fun _ => XR.nan
      | some f => Vec.ofRats f := by
  unfold pitNormalise Spec.Prob.normalise
  rw [foldl_add_sum, Nat.zero_add]
  by_cases h0 : cs.sum = 0
  · simp only [h0, if_true]
    apply List.map_congr_left
    intro c hc
    have : c = 0 := by
      have := List.single_le_sum (fun x _ => Nat.zero_le x) c hc
      omega
    subst this
    rfl
  · simp only [h0, if_false, Vec.ofRats_map, List.map_map]
    apply List.map_congr_left
    intro c _
    have : ((cs.sum : Nat) : Rat) ≠ 0 := by exact_mod_cast h0
    simp only [Function.comp, XR.ofNat]
    rw [fin_div_ne _ _ this]

private theorem centers_eq : pitCenters
    = Vec.ofRats [1/20, 3/20, 5/20, 7/20, 9/20, 11/20, 13/20, 15/20, 17/20, 19/20] := by
  decide +kernel
private theorem dcenters_eq : diff pitCenters = Vec.ofRats [1/10, 1/10, 1/10, 1/10, 1/10, 1/10, 1/10, 1/10, 1/10] := by
  decide +kernel
private theorem dcenters2_eq : diff (mids pitCenters) = Vec.ofRats [1/10, 1/10, 1/10, 1/10, 1/10, 1/10, 1/10, 1/10] := by
  decide +kernel

private theorem slopeOf_fin (f0 f1 f2 f3 f4 f5 f6 f7 f8 f9 : Rat) :
    slopeOf (Vec.ofRats [f0, f1, f2, f3, f4, f5, f6, f7, f8, f9]) = fin ((f9 - f0) / (9 / 10)) := by
  unfold slopeOf
  rw [dcenters_eq]
  have h : (1 / 10 : Rat) ≠ 0 := by norm_num
  simp only [diff, Vec.ofRats, List.map_cons, List.map_nil, List.tail_cons, List.zipWith_cons_cons,
    List.zipWith_nil_right, List.zipWith_nil_left, Vec.div, fin_sub, fin_div_ne _ _ h]
  have := Vec.mean_ofRats [(f1 - f0) / (1 / 10), (f2 - f1) / (1 / 10), (f3 - f2) / (1 / 10), (f4 - f3) / (1 / 10),
    (f5 - f4) / (1 / 10), (f6 - f5) / (1 / 10), (f7 - f6) / (1 / 10), (f8 - f7) / (1 / 10), (f9 - f8) / (1 / 10)] (by simp)
  simp only [Vec.ofRats, List.map_cons, List.map_nil] at this
  rw [this]
  congr 1
  simp only [List.sum_cons, List.sum_nil, List.length_cons, List.length_nil]
  push_cast
  ring

private theorem shapeOf_fin (f0 f1 f2 f3 f4 f5 f6 f7 f8 f9 : Rat) :
    shapeOf (Vec.ofRats [f0, f1, f2, f3, f4, f5, f6, f7, f8, f9])
      = fin (((f9 - f8) - (f1 - f0)) / (1 / 10) / (8 / 10)) := by
  unfold shapeOf
  rw [dcenters_eq, dcenters2_eq]
  have h : (1 / 10 : Rat) ≠ 0 := by norm_num
  simp only [diff, Vec.ofRats, List.map_cons, List.map_nil, List.tail_cons, List.zipWith_cons_cons,
    List.zipWith_nil_right, List.zipWith_nil_left, Vec.div, fin_sub, fin_div_ne _ _ h]
  have := Vec.mean_ofRats [((f2 - f1) / (1 / 10) - (f1 - f0) / (1 / 10)) / (1 / 10),
    ((f3 - f2) / (1 / 10) - (f2 - f1) / (1 / 10)) / (1 / 10),
    ((f4 - f3) / (1 / 10) - (f3 - f2) / (1 / 10)) / (1 / 10),
    ((f5 - f4) / (1 / 10) - (f4 - f3) / (1 / 10)) / (1 / 10),
    ((f6 - f5) / (1 / 10) - (f5 - f4) / (1 / 10)) / (1 / 10),
    ((f7 - f6) / (1 / 10) - (f6 - f5) / (1 / 10)) / (1 / 10),
    ((f8 - f7) / (1 / 10) - (f7 - f6) / (1 / 10)) / (1 / 10),
    ((f9 - f8) / (1 / 10) - (f8 - f7) / (1 / 10)) / (1 / 10)] (by simp)
  simp only [Vec.ofRats, List.map_cons, List.map_nil] at this
  rw [this]
  congr 1
  simp only [List.sum_cons, List.sum_nil, List.length_cons, List.length_nil]
  push_cast
  ring

private def nan10 : Vec := [nan, nan, nan, nan, nan, nan, nan, nan, nan, nan]
private theorem slopeOf_nan : slopeOf nan10 = nan := by decide +kernel
private theorem shapeOf_nan : shapeOf nan10 = nan := by decide +kernel
private theorem devArg_nan :
    XR.fin (1 / 10) * Vec.sum (Vec.npow (Vec.subS nan10 (.fin (1 / 10))) 2) = nan := by decide +kernel

private theorem counts10 (xs : List Rat) :
    ∃ c0 c1 c2 c3 c4 c5 c6 c7 c8 c9 : Nat, Spec.Prob.pitCounts xs = [c0, c1, c2, c3, c4, c5, c6, c7, c8, c9] := by
  unfold Spec.Prob.pitCounts
  rw [range10]
  exact ⟨_, _, _, _, _, _, _, _, _, _, rfl⟩

/-- PIT histogram slope: the mean of the nine bar-to-bar slopes of the normalised histogram is the
total rise between the first and the last bar over the distance of their centres; NaN when no
PIT value lies in [0, 1]. -/
theorem C08_def_pithistslope (xs : List Rat) :
    pitHistSlope (Vec.ofRats xs) = Spec.Prob.toXR (Spec.Prob.pitHistSlope xs) := by
  unfold pitHistSlope pitFreq Spec.Prob.pitHistSlope Spec.Prob.pitFreqs
  rw [histogram_fin, pitNormalise_spec]
  obtain ⟨c0, c1, c2, c3, c4, c5, c6, c7, c8, c9, hc⟩ := counts10 xs
  rw [hc]
  unfold Spec.Prob.normalise
  by_cases h0 : [c0, c1, c2, c3, c4, c5, c6, c7, c8, c9].sum = 0
  · simp only [h0, if_true, List.map_cons, List.map_nil]
    exact slopeOf_nan
  · simp only [h0, if_false, List.map_cons, List.map_nil]
    rw [slopeOf_fin]
    rfl

/-- PIT histogram shape: the mean of the eight second difference quotients is the change of the
bar-to-bar slope between the first and the last pair of bars over the distance of their midpoints -/
theorem C08_def_pithistshape (xs : List Rat) :
    pitHistShape (Vec.ofRats xs) = Spec.Prob.toXR (Spec.Prob.pitHistShape xs) := by
  unfold pitHistShape pitFreq Spec.Prob.pitHistShape Spec.Prob.pitFreqs
  rw [histogram_fin, pitNormalise_spec]
  obtain ⟨c0, c1, c2, c3, c4, c5, c6, c7, c8, c9, hc⟩ := counts10 xs
  rw [hc]
  unfold Spec.Prob.normalise
  by_cases h0 : [c0, c1, c2, c3, c4, c5, c6, c7, c8, c9].sum = 0
  · simp only [h0, if_true, List.map_cons, List.map_nil]
    exact shapeOf_nan
  · simp only [h0, if_false, List.map_cons, List.map_nil]
    rw [shapeOf_fin]
    rfl

private theorem deviationOf_fin (T : Tr) (f : List Rat) :
    deviationOf T (Vec.ofRats f) = T.sqrt (fin ((1 / 10) * (f.map fun x => (x - 1 / 10) ^ 2).sum)) := by
  unfold deviationOf
  rw [Vec.subS_ofRats, Vec.npow_ofRats, Vec.sum_ofRats, fin_mul, List.map_map]
  rfl

/-- PIT histogram deviation factor D/D₀ (Nipen & Stull 2011), for every `Tr`; NaN when no PIT
value lies in [0, 1] -/
theorem C08_def_pithistdev (T : Tr) (xs : List Rat) (hne : xs ≠ []) :
    pitHistDev T (Vec.ofRats xs) = Spec.Prob.pitHistDev T xs := by
  have hN : (xs.length : Rat) * 10 ≠ 0 := by
    have : (xs.length : Rat) ≠ 0 := GenEq.Prob.length_pos_ne xs hne
    positivity
  have he : List.isEmpty (Vec.ofRats xs) = false := by cases xs <;> simp_all
  have hexp : pitExpectedDeviation T (Vec.ofRats xs) = T.sqrt (fin ((1 - 1 / 10) / ((xs.length : Rat) * 10))) := by
    unfold pitExpectedDeviation
    rw [he, Vec.len_ofRats, fin_mul, fin_div_ne _ _ hN]
    simp
  unfold pitHistDev pitDeviation Spec.Prob.pitHistDev Spec.Prob.pitFreqs
  rw [hexp, he, pitFreq, histogram_fin, pitNormalise_spec]
  obtain ⟨c0, c1, c2, c3, c4, c5, c6, c7, c8, c9, hc⟩ := counts10 xs
  rw [hc]
  unfold Spec.Prob.normalise
  by_cases h0 : [c0, c1, c2, c3, c4, c5, c6, c7, c8, c9].sum = 0
  · simp only [h0, if_true, List.map_cons, List.map_nil, Bool.false_eq_true, if_false]
    unfold deviationOf
    rw [show ([nan, nan, nan, nan, nan, nan, nan, nan, nan, nan] : Vec) = nan10 from rfl, devArg_nan]
    simp [Tr.sqrt]
  · simp only [h0, if_false, Bool.false_eq_true]
    rw [deviationOf_fin]

/-! ## get_p on a dataset; the complement identity through get_p -/

private theorem map_getD_range (c : Vec) : (List.range c.length).map (fun j => c.getD j XR.nan) = c := by
  apply List.ext_getElem
  · simp
  · intro i h1 h2
    simp only [List.getElem_map, List.getElem_range, List.getD_eq_getElem?_getD]
    rw [List.getElem?_eq_getElem (by simpa using h1)]
    rfl

/-- on columns without missing values the common-validity filter of `get_scores` changes nothing -/
private theorem getScores_finite (c0 : Vec) (rest : List Vec) (h0 : c0 ≠ [])
    (hlen : ∀ c ∈ c0 :: rest, c.length = c0.length)
    (hfin : ∀ c ∈ c0 :: rest, ∀ x ∈ c, x.isFinite = true) :
    getScores (c0 :: rest) = c0 :: rest := by
  have hkeep : (List.range c0.length).filter (rowOk (c0 :: rest)) = List.range c0.length := by
    apply List.filter_eq_self.mpr
    intro j hj
    have hj' : j < c0.length := List.mem_range.mp hj
    unfold rowOk
    rw [List.all_eq_true]
    intro c hc
    have hjc : j < c.length := by rw [hlen c hc]; exact hj'
    rw [List.getD_eq_getElem?_getD, List.getElem?_eq_getElem hjc]
    exact hfin c hc _ (List.getElem_mem hjc)
  have hpos : 0 < c0.length := List.length_pos_iff.mpr h0
  have hne : (List.range c0.length).isEmpty = false := by
    cases h : c0.length with
    | zero => omega
    | succ n => simp [List.range_succ]
  unfold getScores
  simp only [hkeep, hne, Bool.false_eq_true, if_false]
  have : ∀ c ∈ c0 :: rest, (List.range c0.length).map (fun j => c.getD j XR.nan) = c := by
    intro c hc
    rw [← hlen c hc]; exact map_getD_range c
  calc List.map (fun c => List.map (fun j => c.getD j XR.nan) (List.range c0.length)) (c0 :: rest)
      = List.map id (c0 :: rest) := List.map_congr_left this
    _ = c0 :: rest := List.map_id _

private theorem finite_ofRats (xs : List Rat) : ∀ x ∈ Vec.ofRats xs, x.isFinite = true := by
  intro x hx
  rw [Vec.ofRats_map, List.mem_map] at hx
  obtain ⟨q, _, rfl⟩ := hx
  rfl

/-- the dataset with one stored CDF column F(t) -/
def oneColumn (os cs : List Rat) (t : Rat) : PInput :=
  { obs := Vec.ofRats os, thr := [(fin t, Vec.ofRats cs)] }

/-- `get_p` on a dataset that stores the CDF at `t` (no missing values): for an event bounded
above by `t` the probability vector is the stored column, for an event bounded below by `t` it is
one minus the column; the observation vector is the event indicator, case by case. -/
theorem C08_getp_vector (os cs : List Rat) (t : Rat) (hne : os ≠ []) (hl : os.length = cs.length)
    (le ue : Bool) :
    getP (oneColumn os cs t) ⟨.ninf, fin t, le, ue⟩
        = some (List.map (obsP ⟨.ninf, fin t, le, ue⟩) (Vec.ofRats os), Vec.ofRats cs)
    ∧ getP (oneColumn os cs t) ⟨fin t, .pinf, le, ue⟩
        = some (List.map (obsP ⟨fin t, .pinf, le, ue⟩) (Vec.ofRats os), Vec.ofRats (cs.map (1 - ·))) := by
  have hclose : isclose (fin t) (fin t) = true := (C08_threshold_stored_wins (oneColumn os cs t) (fin t)).2.2 t
  have hcol : thresholdColumn (oneColumn os cs t) (fin t) = some (Vec.ofRats cs) := by
    simp [thresholdColumn, oneColumn, hclose]
  have hgs : getScores [Vec.ofRats os, Vec.ofRats cs] = [Vec.ofRats os, Vec.ofRats cs] := by
    apply getScores_finite
    · cases os <;> simp_all
    · intro c hc
      simp only [List.mem_cons, List.not_mem_nil, or_false] at hc
      rcases hc with rfl | rfl <;> simp [hl]
    · intro c hc
      simp only [List.mem_cons, List.not_mem_nil, or_false] at hc
      rcases hc with rfl | rfl <;> exact finite_ofRats _
  have hobs : (oneColumn os cs t).obs = Vec.ofRats os := rfl
  constructor
  · simp only [getP, XR.eqb, Bool.not_true, Bool.not_false, hcol, hobs, Option.bind_eq_bind,
      Option.bind_some, hgs]
    congr 2
    rw [map_ofRats]
    simp [eventProb, XR.eqb, Vec.ofRats_map]
  · simp only [getP, XR.eqb, Bool.not_true, Bool.not_false, hcol, hobs, Option.bind_eq_bind,
      Option.bind_some, hgs]
    congr 2
    rw [map_ofRats, ofRats_map_fun]
    simp [eventProb, XR.eqb]

/-- **Complement through get_p.**  On a dataset that stores F(t), the Brier score of the event
`below t` equals that of `above= t`, and that of `below= t` equals that of `above t`
(DESIGN: `bs (get_p D (below t)) = bs (get_p D (above= t))`). -/
theorem C08_complement_getp (T : Tr) (os cs : List Rat) (t : Rat) (hne : os ≠ [])
    (hl : os.length = cs.length) (eq : Bool) :
    ∃ o1 p1 o2 p2,
      getP (oneColumn os cs t) ⟨.ninf, fin t, false, eq⟩ = some (o1, p1) ∧
      getP (oneColumn os cs t) ⟨fin t, .pinf, !eq, false⟩ = some (o2, p2) ∧
      Prob.bs T o1 p1 = Prob.bs T o2 p2 := by
  obtain ⟨h1, _⟩ := C08_getp_vector os cs t hne hl false eq
  obtain ⟨_, h2⟩ := C08_getp_vector os cs t hne hl (!eq) false
  refine ⟨_, _, _, _, h1, h2, ?_⟩
  -- the two observation vectors are complementary indicators
  let ind : Rat → Rat := fun o => if o < t ∨ (eq = true ∧ o = t) then 1 else 0
  have ho1 : List.map (obsP ⟨.ninf, fin t, false, eq⟩) (Vec.ofRats os) = Vec.ofRats (os.map ind) := by
    rw [map_ofRats, ofRats_map_fun]
    apply List.map_congr_left
    intro o _
    simp only [obsP, Interval.within, Interval.withinVal, isNan_fin, XR.gt, XR.lt, XR.eqb, boolToXR, ind]
    cases eq <;> by_cases h : o < t <;> by_cases h' : o = t <;> simp [h, h']
  have ho2 : List.map (obsP ⟨fin t, .pinf, !eq, false⟩) (Vec.ofRats os)
      = Vec.ofRats ((os.map ind).map (1 - ·)) := by
    rw [map_ofRats, List.map_map, ofRats_map_fun]
    apply List.map_congr_left
    intro o _
    simp only [obsP, Interval.within, Interval.withinVal, isNan_fin, XR.gt, XR.lt, XR.eqb, boolToXR, ind,
      Function.comp]
    rcases lt_trichotomy o t with hlt | heq | hgt
    · have ha : ¬ t < o := by linarith
      have hb : o ≠ t := by linarith
      have hc : o ≤ t := by linarith
      cases eq <;> simp [hlt, ha, hb, hc]
    · subst heq
      cases eq <;> simp
    · have ha : ¬ o < t := by linarith
      have hb : o ≠ t := by linarith
      have hc : ¬ o ≤ t := by linarith
      cases eq <;> simp [hgt, ha, hb, hc]
  rw [ho1, ho2]
  exact C08_complement T (os.map ind) cs (by simpa using hne) (by simpa using hl)

/-! ## a slice without valid cases -/

/-- A slice without any valid case gives NaN for every threshold-family score, never a number:
`get_scores` hands `get_p` the placeholder obs = [nan], p = [nan]; `get_p` keeps the missing
observation missing, and each of the ten kernels returns NaN on these vectors (for every `Tr`). -/
theorem C08_no_valid_case (T : Tr) :
    getP { obs := [nan, nan], thr := [(fin (1 / 2), [fin (1 / 4), nan])] } ⟨.ninf, fin (1 / 2), false, false⟩
        = some ([nan], [nan])
    ∧ Prob.bs T [nan] [nan] = nan ∧ bsrel [nan] [nan] = nan ∧ bsres [nan] [nan] = nan
    ∧ Prob.bsunc T [nan] [nan] = nan
    ∧ Prob.bss T [nan] [nan] = nan ∧ bssrel [nan] [nan] = nan ∧ bssres [nan] [nan] = nan
    ∧ ign0 T [nan] [nan] = nan ∧ spherical T [nan] [nan] = nan
    ∧ marginalRatio [nan] [nan] = nan := by
  refine ⟨by decide +kernel, by simp only [Prob.bs, Gen.Prob.m_bs]; decide +kernel, by decide +kernel,
    by decide +kernel, by simp only [Prob.bsunc, Gen.Prob.m_bsunc]; decide +kernel,
    by simp only [Prob.bss, Gen.Prob.m_bss]; decide +kernel, by decide +kernel,
    by decide +kernel, ?_, ?_, by decide +kernel⟩
  · simp [ign0, Gen.Prob.e_ign0, Tr.log2, Tr.log, XR.neg, Vec.mean, Vec.sum, Vec.len, XR.ofNat]
  · simp [spherical, Gen.Prob.e_spherical, Vec.mean, Vec.sum, Vec.len, XR.ofNat]

/-! ## non-vacuity: the hypotheses are satisfiable on non-trivial instances -/

example : Prob01 [1 / 10, 3 / 10, 1, 0] := by
  intro p hp
  simp only [List.mem_cons, List.not_mem_nil, or_false] at hp
  rcases hp with h | h | h | h <;> subst h <;> norm_num
/-- one value per bin: 0.95 and 1.0 would share the top bin, 0.1 and 0.3 do not share a bin -/
example : SingleValued [1 / 10, 3 / 10, 1 / 10, 1] := by
  intro p hp p' hp'
  simp only [List.mem_cons, List.not_mem_nil, or_false] at hp hp'
  rcases hp with h | h | h | h <;> rcases hp' with h' | h' | h' | h' <;> subst h <;> subst h' <;>
    simp [binOf] <;> norm_num
example : binOf (19 / 20) = binOf 1 ∧ binOf (1 / 10) ≠ binOf (3 / 10) := by
  constructor <;> (simp [binOf]; try norm_num)
/-- a concrete instance of Murphy's partition: BS = 91/400 = REL − RES + UNC = 41/400 − 1/8 + 1/4 -/
example : Spec.Prob.bs [1, 0, 0, 1] [1 / 10, 3 / 10, 1 / 10, 1] = 91 / 400
    ∧ Spec.Prob.rel [1, 0, 0, 1] [1 / 10, 3 / 10, 1 / 10, 1] = 41 / 400
    ∧ Spec.Prob.res [1, 0, 0, 1] [1 / 10, 3 / 10, 1 / 10, 1] = 1 / 8
    ∧ Spec.Prob.unc [1, 0, 0, 1] = 1 / 4 := by decide +kernel
example : (91 : Rat) / 400 = 41 / 400 - 1 / 8 + 1 / 4 := by norm_num
/-- the quantile estimator on a concrete sample (n = 4, q = 1/4: h = 7/16 → 1 + 7/16) -/
example : ensQuantile (1 / 4) [fin 4, fin 2, fin 3, fin 1] = some (fin (23 / 16)) := by decide +kernel
example : Spec.Prob.quantile9 [4, 2, 3, 1] (1 / 4) = some (23 / 16) := by decide +kernel
/-- ensemble probability with a missing member -/
example : ensProb (fin (1 / 2)) [fin (1 / 5), nan, fin (7 / 10)] = fin (1 / 2) := by decide +kernel
/-- PIT statistics on a concrete sample -/
example : Spec.Prob.pitHistSlope [1 / 10, 3 / 10, 1] = some (10 / 27) := by decide +kernel

end VerifModel.C08
