import Proofs.Lemmas.Arr3
import Proofs.Lemmas.XR
import VerifModel.Model.Clean
import Proofs.C05
/-
  C04 — Missing data never enters a score as a number.
-/
namespace VerifModel.C04
open VerifModel XR

/-! ### the two cleaners -/

/-- the machine-translated mask of util.clean is the model's -/
theorem cleanCond_eq (c : NcCell) :
    clean c = (let q : XR := match c with
                | .masked => .fin (-999)
                | .val v => if v.isNan then .fin (-999) else v
               if Gen.Clean.cleanCond q then .nan else q) := by
  unfold clean Gen.Clean.cleanCond
  rfl

theorem textClean_eq (v : XR) : Gen.Clean.textClean v = textClean (.num v) := by
  unfold Gen.Clean.textClean textClean
  split <;> simp_all

/-- NetCDF: a value is missing iff it is masked/fill, NaN, -999 or above 1e30; anything else is kept. -/
theorem C04_clean (c : NcCell) :
    (clean c = nan ↔ c = .masked ∨ c = .val nan ∨ c = .val (fin (-999)) ∨ c = .val pinf
        ∨ ∃ q : Rat, c = .val (fin q) ∧ q > 1000000000000000019884624838656)
    ∧ (∀ q : Rat, q ≠ -999 → q ≤ 1000000000000000019884624838656 → clean (.val (fin q)) = fin q)
    ∧ clean (.val ninf) = ninf := by
  refine ⟨?_, ?_, ?_⟩
  · cases c with
    | masked => simp [clean, XR.eqb]
    | val v =>
      cases v with
      | nan => simp [clean, XR.isNan, XR.eqb]
      | pinf => simp [clean, XR.isNan, XR.eqb, XR.gt, XR.lt]
      | ninf => simp [clean, XR.isNan, XR.eqb, XR.gt, XR.lt]
      | fin q =>
        simp only [clean, XR.isNan, Bool.false_eq_true, if_false, XR.eqb, XR.gt, XR.lt,
          Bool.or_eq_true, decide_eq_true_eq]
        constructor
        · intro h
          split at h
          · rename_i hc
            rcases hc with hc | hc
            · right; right; left; rw [hc]
            · right; right; right; right; exact ⟨q, rfl, hc⟩
          · cases h
        · intro h
          rcases h with h | h | h | h | ⟨q', h, hq⟩
          · cases h
          · cases h
          · injection h with h; injection h with h; simp [h]
          · cases h
          · injection h with h; injection h with h; subst h; simp [hq]
  · intro q h1 h2
    simp only [clean, XR.isNan, Bool.false_eq_true, if_false, XR.eqb, XR.gt, XR.lt, Bool.or_eq_true,
      decide_eq_true_eq]
    have : ¬ (q = -999 ∨ 1000000000000000019884624838656 < q) := by
      intro h; rcases h with h | h
      · exact h1 h
      · exact absurd h2 (not_le.mpr h)
    simp [this]
  · simp [clean, XR.isNan, XR.eqb, XR.gt, XR.lt]

/-- Text: a token is missing iff it does not parse as a number, or parses to -999 or NaN. -/
theorem C04_textclean (t : Tok) :
    textClean t = nan ↔ t = .bad ∨ t = .num (fin (-999)) ∨ t = .num nan := by
  cases t with
  | bad => simp [textClean]
  | num v =>
    cases v with
    | nan => simp [textClean, XR.eqb]
    | pinf => simp [textClean, XR.eqb]
    | ninf => simp [textClean, XR.eqb]
    | fin q =>
      simp only [textClean, XR.eqb]
      by_cases h : q = -999
      · simp [h]
      · simp [h]

/-! ### validity filtering in `get_scores` -/

theorem isValid_iff (v : XR) : isValid v = true ↔ ∃ q, v = fin q := by
  cases v <;> simp [isValid, XR.isNan, XR.isInf]

private theorem validMask_get (cols : List Vec) (k : Nat) (hk : k < (cols.headD []).length) :
    (validMask cols)[k]? = some (cols.all fun c => isValid (c.getD k .nan)) := by
  unfold validMask
  rw [List.getElem?_map, List.getElem?_range hk]
  rfl

theorem compress_cons (b : Bool) (bs : List Bool) (x : XR) (xs : Vec) :
    compress (b :: bs) (x :: xs) = (if b then [x] else []) ++ compress bs xs := by
  unfold compress
  cases b <;> simp

/-- every value that survives compression sits at a position whose mask is true -/
theorem compress_mem (mask : List Bool) (v : List XR) (x : XR) (hx : x ∈ compress mask v) :
    ∃ k : Nat, mask[k]? = some true ∧ v[k]? = some x := by
  induction mask generalizing v with
  | nil => simp [compress] at hx
  | cons b bs ih =>
    cases v with
    | nil => simp [compress] at hx
    | cons y ys =>
      rw [compress_cons] at hx
      rw [List.mem_append] at hx
      rcases hx with hx | hx
      · cases b with
        | false => simp at hx
        | true => simp at hx; subst hx; exact ⟨0, rfl, rfl⟩
      · obtain ⟨k, h1, h2⟩ := ih ys hx
        exact ⟨k + 1, by simpa using h1, by simpa using h2⟩

/-- Missing data never enters as a number: every value `get_scores` hands to a score (for any
slicing axis) is a finite number; the only other possible answer is the single-NaN placeholder. -/
theorem C04_outputs_valid (sel : Sel) (hsel : sel ≠ .all) (n : Nat) (c : Vec) (cs : List Vec) :
    finish sel n (c :: cs) = List.replicate n [nan] ∨
      ∀ x ∈ (finish sel n (c :: cs)).headD [], isValid x = true := by
  have key : ∀ out : List Vec, out = (c :: cs).map (compress (validMask (c :: cs))) →
      (if (out.headD []).isEmpty then List.replicate n [nan] else out) = List.replicate n [nan] ∨
      ∀ x ∈ (if (out.headD []).isEmpty then List.replicate n [nan] else out).headD [], isValid x = true := by
    intro out hout
    split
    · left; rfl
    · right
      intro x hx
      subst hout
      simp only [List.map_cons, List.headD_cons] at hx
      obtain ⟨k, hm, hv⟩ := compress_mem _ _ _ hx
      have hk : k < c.length := by
        rcases Nat.lt_or_ge k c.length with h | h
        · exact h
        · rw [List.getElem?_eq_none h] at hv; cases hv
      have := validMask_get (c :: cs) k (by simpa using hk)
      rw [this] at hm
      injection hm with hm
      simp only [List.all_cons, Bool.and_eq_true] at hm
      have hget : c.getD k nan = x := by simp [List.getD_eq_getElem?_getD, hv]
      rw [hget] at hm
      exact hm.1
  unfold finish
  cases sel with
  | all => exact absurd rfl hsel
  | none => exact key _ rfl
  | time i => exact key _ rfl
  | times idx => exact key _ rfl
  | leads idx => exact key _ rfl
  | loc i => exact key _ rfl

/-- whole-array requests: an invalid case is NaN in every returned field -/
theorem C04_all_masked (n : Nat) (cols : List Vec) (c : Vec) (hc : c ∈ cols) (k : Nat) (x : XR)
    (hn : (finish .all n cols) ≠ List.replicate n [nan])
    (hx : (List.zipWith (fun v ok => if ok then v else nan) c (validMask cols))[k]? = some x) :
    x = nan ∨ isValid x = true := by
  rw [List.getElem?_zipWith] at hx
  cases hv : c[k]? with
  | none => simp [hv] at hx
  | some v =>
    cases hm : (validMask cols)[k]? with
    | none => simp [hv, hm] at hx
    | some ok =>
      simp only [hv, hm, Option.map₂_some_some, Option.some.injEq] at hx
      cases ok with
      | false => left; simpa using hx.symm
      | true =>
        right
        have hk : k < (cols.headD []).length := by
          rcases Nat.lt_or_ge k (cols.headD []).length with h | h
          · exact h
          · exfalso
            have hlen : (validMask cols).length = (cols.headD []).length := by simp [validMask]
            rw [List.getElem?_eq_none (by omega)] at hm
            cases hm
        rw [validMask_get cols k hk] at hm
        injection hm with hm
        rw [List.all_eq_true] at hm
        have := hm c hc
        simp only [List.getD_eq_getElem?_getD, hv, Option.getD_some] at this
        simp only [if_true] at hx
        rw [← hx]; exact this

/-- climatology: a missing climatology value, or a zero divisor, makes the case invalid -/
theorem C04_nonfinite_clim (v : XR) :
    isValid (v - nan) = false ∧ isValid (v / nan) = false ∧ isValid (v / fin 0) = false := by
  refine ⟨by simp [isValid], by simp [isValid], ?_⟩
  cases v with
  | nan => simp [isValid]
  | pinf => show isValid (XR.div pinf (fin 0)) = false; simp [XR.div, isValid, XR.isNan, XR.isInf]
  | ninf => show isValid (XR.div ninf (fin 0)) = false; simp [XR.div, isValid, XR.isNan, XR.isInf]
  | fin q =>
    rw [fin_div]
    simp only [if_true, infOfSign]
    split_ifs <;> simp [isValid, XR.isNan, XR.isInf]

/-- metric level (API): a pair with a missing member is dropped by every obs/fcst metric, and no
pairs give NaN — proved in C05. -/
theorem C04_pairwise (f : Vec → Vec → XR) (o o' g g' : Vec) (x y : XR)
    (hlen : o.length = g.length) (hxy : x.isNan = true ∨ y.isNan = true) :
    computeFromObsFcst f (o ++ x :: o') (g ++ y :: g') = computeFromObsFcst f (o ++ o') (g ++ g') :=
  C05.C05_missing_pair_dropped f o o' g g' x y hlen hxy

theorem C04_all_missing_nan (f : Vec → Vec → XR) (obs fcst : Vec)
    (h : ∀ p ∈ obs.zip fcst, p.1.isNan = true ∨ p.2.isNan = true) :
    computeFromObsFcst f obs fcst = nan := C05.C05_no_pairs_nan f obs fcst h

end VerifModel.C04
