import Proofs.Lemmas.Arr3
import Proofs.Lemmas.XR
import VerifModel.Model.Clean
import Proofs.C05
/-
  C04 — Missing data never enters a score as a number.
-/
namespace VerifModel.C04
open VerifModel XR

/-! ### the two cleaners -/

/-- the machine-translated mask of util.clean is the model's -/
theorem cleanCond_eq (c : NcCell) :
    clean c = (let q : XR := match c with
                | .masked => .fin (-999)
                | .val v => if v.isNan then .fin (-999) else v
               if Gen.Clean.cleanCond q then .nan else q) := by
  unfold clean Gen.Clean.cleanCond
  rfl

theorem textClean_eq (v : XR) : Gen.Clean.textClean v = textClean (.num v) := by
  unfold Gen.Clean.textClean textClean
  cases v <;> simp [XR.isNan]

/-- NetCDF: a value is missing iff it is masked/fill, NaN, -999 or above 1e30; anything else is kept. -/
theorem C04_clean (c : NcCell) :
    (clean c = nan ↔ c = .masked ∨ c = .val nan ∨ c = .val (fin (-999)) ∨ c = .val pinf
        ∨ ∃ q : Rat, c = .val (fin q) ∧ q > 1000000000000000019884624838656)
    ∧ (∀ q : Rat, q ≠ -999 → q ≤ 1000000000000000019884624838656 → clean (.val (fin q)) = fin q)
    ∧ clean (.val ninf) = ninf := by
  refine ⟨?_, ?_, ?_⟩
  · cases c with
    | masked => simp [clean, XR.eqb]
    | val v =>
      cases v with
      | nan => simp [clean, XR.isNan, XR.eqb]
      | pinf => simp [clean, XR.isNan, XR.eqb, XR.gt, XR.lt]
      | ninf => simp [clean, XR.isNan, XR.eqb, XR.gt, XR.lt]
      | fin q =>
        simp only [clean, XR.isNan, Bool.false_eq_true, if_false, XR.eqb, XR.gt, XR.lt,
          Bool.or_eq_true, decide_eq_true_eq]
        constructor
        · intro h
          split at h
          · rename_i hc
            rcases hc with hc | hc
            · right; right; left; rw [hc]
            · right; right; right; right; exact ⟨q, rfl, hc⟩
          · cases h
        · intro h
          rcases h with h | h | h | h | ⟨q', h, hq⟩
          · cases h
          · cases h
          · injection h with h; injection h with h; simp [h]
          · cases h
          · injection h with h; injection h with h; subst h; simp [hq]
  · intro q h1 h2
    simp only [clean, XR.isNan, Bool.false_eq_true, if_false, XR.eqb, XR.gt, XR.lt, Bool.or_eq_true,
      decide_eq_true_eq]
    have : ¬ (q = -999 ∨ 1000000000000000019884624838656 < q) := by
      intro h; rcases h with h | h
      · exact h1 h
      · exact absurd h2 (not_le.mpr h)
    simp [this]
  · simp [clean, XR.isNan, XR.eqb, XR.gt, XR.lt]

/-- Text: a token is missing iff it does not parse as a number, or parses to -999 or NaN. -/
theorem C04_textclean (t : Tok) :
    textClean t = nan ↔ t = .bad ∨ t = .num (fin (-999)) ∨ t = .num nan ∨ t = .num pinf
      ∨ ∃ q : Rat, t = .num (fin q) ∧ q > 1000000000000000019884624838656 := by
  cases t with
  | bad => simp [textClean]
  | num v =>
    cases v with
    | nan => simp [textClean, XR.eqb]
    | pinf => simp [textClean, XR.eqb, XR.gt, XR.lt]
    | ninf => simp [textClean, XR.eqb, XR.gt, XR.lt]
    | fin q =>
      simp only [textClean, XR.eqb, XR.gt, XR.lt, Bool.or_eq_true, decide_eq_true_eq]
      constructor
      · intro h
        split at h
        · rename_i hc
          rcases hc with hc | hc
          · right; left; rw [hc]
          · right; right; right; right; exact ⟨q, rfl, hc⟩
        · cases h
      · intro h
        rcases h with h | h | h | h | ⟨q', h, hq⟩
        · cases h
        · injection h with h; injection h with h; simp [h]
        · cases h
        · cases h
        · injection h with h; injection h with h; subst h; simp [hq]

/-- a text value that is none of the missing encodings is read as it stands (incl. -inf) -/
theorem C04_textclean_keeps (q : Rat) (h1 : q ≠ -999) (h2 : q ≤ 1000000000000000019884624838656) :
    textClean (.num (fin q)) = fin q ∧ textClean (.num ninf) = ninf := by
  refine ⟨?_, by simp [textClean, XR.eqb, XR.gt, XR.lt]⟩
  simp only [textClean, XR.eqb, XR.gt, XR.lt, Bool.or_eq_true, decide_eq_true_eq]
  have : ¬ (q = -999 ∨ 1000000000000000019884624838656 < q) := by
    intro h; rcases h with h | h
    · exact h1 h
    · exact absurd h (not_lt.mpr h2)
  simp [this]

/-- text and NetCDF agree on every number: the two readers have the same missing-value encodings -/
theorem C04_text_nc_agree (v : XR) : textClean (.num v) = clean (.val v) := by
  cases v <;> simp [textClean, clean, XR.isNan, XR.eqb, XR.gt, XR.lt]

/-! ### validity filtering in `get_scores` -/

theorem isValid_iff (v : XR) : isValid v = true ↔ ∃ q, v = fin q := by
  cases v <;> simp [isValid, XR.isNan, XR.isInf]

private theorem validMask_get (cols : List Vec) (k : Nat) (hk : k < (cols.headD []).length) :
    (validMask cols)[k]? = some (cols.all fun c => isValid (c.getD k .nan)) := by
  unfold validMask
  rw [List.getElem?_map, List.getElem?_range hk]
  rfl

theorem compress_cons (b : Bool) (bs : List Bool) (x : XR) (xs : Vec) :
    compress (b :: bs) (x :: xs) = (if b then [x] else []) ++ compress bs xs := by
  unfold compress
  cases b <;> simp

/-- every value that survives compression sits at a position whose mask is true -/
theorem compress_mem (mask : List Bool) (v : List XR) (x : XR) (hx : x ∈ compress mask v) :
    ∃ k : Nat, mask[k]? = some true ∧ v[k]? = some x := by
  induction mask generalizing v with
  | nil => simp [compress] at hx
  | cons b bs ih =>
    cases v with
    | nil => simp [compress] at hx
    | cons y ys =>
      rw [compress_cons] at hx
      rw [List.mem_append] at hx
      rcases hx with hx | hx
      · cases b with
        | false => simp at hx
        | true => simp at hx; subst hx; exact ⟨0, rfl, rfl⟩
      · obtain ⟨k, h1, h2⟩ := ih ys hx
        exact ⟨k + 1, by simpa using h1, by simpa using h2⟩

/-- Missing data never enters as a number: every value `get_scores` hands to a score (for any
slicing axis) is a finite number; the only other possible answer is the single-NaN placeholder. -/
theorem C04_outputs_valid (sel : Sel) (hsel : sel ≠ .all) (n : Nat) (c : Vec) (cs : List Vec) :
    finish sel n (c :: cs) = List.replicate n [nan] ∨
      ∀ x ∈ (finish sel n (c :: cs)).headD [], isValid x = true := by
  have key : ∀ out : List Vec, out = (c :: cs).map (compress (validMask (c :: cs))) →
      (if (out.headD []).isEmpty then List.replicate n [nan] else out) = List.replicate n [nan] ∨
      ∀ x ∈ (if (out.headD []).isEmpty then List.replicate n [nan] else out).headD [], isValid x = true := by
    intro out hout
    split
    · left; rfl
    · right
      intro x hx
      subst hout
      simp only [List.map_cons, List.headD_cons] at hx
      obtain ⟨k, hm, hv⟩ := compress_mem _ _ _ hx
      have hk : k < c.length := by
        rcases Nat.lt_or_ge k c.length with h | h
        · exact h
        · rw [List.getElem?_eq_none h] at hv; cases hv
      have := validMask_get (c :: cs) k (by simpa using hk)
      rw [this] at hm
      injection hm with hm
      simp only [List.all_cons, Bool.and_eq_true] at hm
      have hget : c.getD k nan = x := by simp [List.getD_eq_getElem?_getD, hv]
      rw [hget] at hm
      exact hm.1
  unfold finish
  cases sel with
  | all => exact absurd rfl hsel
  | none => exact key _ rfl
  | time i => exact key _ rfl
  | times idx => exact key _ rfl
  | leads idx => exact key _ rfl
  | loc i => exact key _ rfl

/-- whole-array requests: an invalid case is NaN in every returned field -/
theorem C04_all_masked (n : Nat) (cols : List Vec) (c : Vec) (hc : c ∈ cols) (k : Nat) (x : XR)
    (hn : (finish .all n cols) ≠ List.replicate n [nan])
    (hx : (List.zipWith (fun v ok => if ok then v else nan) c (validMask cols))[k]? = some x) :
    x = nan ∨ isValid x = true := by
  rw [List.getElem?_zipWith] at hx
  cases hv : c[k]? with
  | none => simp [hv] at hx
  | some v =>
    cases hm : (validMask cols)[k]? with
    | none => simp [hv, hm] at hx
    | some ok =>
      simp only [hv, hm, Option.map₂_some_some, Option.some.injEq] at hx
      cases ok with
      | false => left; simpa using hx.symm
      | true =>
        right
        have hk : k < (cols.headD []).length := by
          rcases Nat.lt_or_ge k (cols.headD []).length with h | h
          · exact h
          · exfalso
            have hlen : (validMask cols).length = (cols.headD []).length := by simp [validMask]
            rw [List.getElem?_eq_none (by omega)] at hm
            cases hm
        rw [validMask_get cols k hk] at hm
        injection hm with hm
        rw [List.all_eq_true] at hm
        have := hm c hc
        simp only [List.getD_eq_getElem?_getD, hv, Option.getD_some] at this
        simp only [if_true] at hx
        rw [← hx]; exact this

/-- climatology: a missing climatology value, or a zero divisor, makes the case invalid -/
theorem C04_nonfinite_clim (v : XR) :
    isValid (v - nan) = false ∧ isValid (v / nan) = false ∧ isValid (v / fin 0) = false := by
  refine ⟨by simp [isValid], by simp [isValid], ?_⟩
  cases v with
  | nan => simp [isValid]
  | pinf => show isValid (XR.div pinf (fin 0)) = false; simp [XR.div, isValid, XR.isNan, XR.isInf]
  | ninf => show isValid (XR.div ninf (fin 0)) = false; simp [XR.div, isValid, XR.isNan, XR.isInf]
  | fin q =>
    rw [fin_div]
    simp only [if_true, infOfSign]
    split_ifs <;> simp [isValid, XR.isNan, XR.isInf]

/-- metric level (API): a pair with a missing member is dropped by every obs/fcst metric, and no
pairs give NaN — proved in C05. -/
theorem C04_pairwise (f : Vec → Vec → XR) (o o' g g' : Vec) (x y : XR)
    (hlen : o.length = g.length) (hxy : x.isNan = true ∨ y.isNan = true) :
    computeFromObsFcst f (o ++ x :: o') (g ++ y :: g') = computeFromObsFcst f (o ++ o') (g ++ g') :=
  C05.C05_missing_pair_dropped f o o' g g' x y hlen hxy

theorem C04_all_missing_nan (f : Vec → Vec → XR) (obs fcst : Vec)
    (h : ∀ p ∈ obs.zip fcst, p.1.isNan = true ∨ p.2.isNan = true) :
    computeFromObsFcst f obs fcst = nan := C05.C05_no_pairs_nan f obs fcst h

/-! ### deletion invariance at the dataset level -/

/-- insert `x` before position `p` -/
def insertAt {α : Type} (p : Nat) (x : α) (l : List α) : List α := l.take p ++ x :: l.drop p

/-- insert one case at position p: xs[j] goes into column j -/
def insertRow (p : Nat) (xs : List XR) (cols : List Vec) : List Vec :=
  List.zipWith (fun c x => insertAt p x c) cols xs

theorem insertAt_length {α : Type} (p : Nat) (x : α) (l : List α) :
    (insertAt p x l).length = l.length + 1 := by
  simp only [insertAt, List.length_append, List.length_cons, List.length_take, List.length_drop]
  omega

theorem insertAt_getElem? {α : Type} (p : Nat) (x : α) (l : List α) (hp : p ≤ l.length) (k : Nat) :
    (insertAt p x l)[k]? = if k < p then l[k]? else if k = p then some x else l[k - 1]? := by
  unfold insertAt
  have hlen : (l.take p).length = p := by rw [List.length_take]; omega
  split
  · rename_i hk
    rw [List.getElem?_append_left (by omega), List.getElem?_take_of_lt hk]
  · rename_i hk
    rw [List.getElem?_append_right (by omega), hlen]
    split
    · rename_i hkp
      subst hkp
      simp
    · obtain ⟨m, hm⟩ : ∃ m, k - p = m + 1 := ⟨k - p - 1, by omega⟩
      rw [hm, List.getElem?_cons_succ, List.getElem?_drop]
      congr 1
      omega

theorem compress_append (m1 m2 : List Bool) (v1 v2 : Vec) (h : m1.length = v1.length) :
    compress (m1 ++ m2) (v1 ++ v2) = compress m1 v1 ++ compress m2 v2 := by
  unfold compress
  rw [List.zip_append h, List.filterMap_append]

/-- a position whose mask is false can be deleted from mask and column together -/
theorem compress_insertAt (p : Nat) (x : XR) (m : List Bool) (v : Vec) (h : m.length = v.length) :
    compress (insertAt p false m) (insertAt p x v) = compress m v := by
  have h1 : (m.take p).length = (v.take p).length := by
    rw [List.length_take, List.length_take, h]
  unfold insertAt
  rw [compress_append _ _ _ _ h1, compress_cons]
  simp only [Bool.false_eq_true, if_false, List.nil_append]
  rw [← compress_append _ _ _ _ h1, List.take_append_drop, List.take_append_drop]

theorem insertRow_length (p : Nat) (xs : List XR) (cols : List Vec) (hxs : xs.length = cols.length) :
    (insertRow p xs cols).length = cols.length := by
  simp only [insertRow, List.length_zipWith, hxs, Nat.min_self]

theorem insertRow_col_length (p n : Nat) (xs : List XR) (cols : List Vec)
    (hlen : ∀ c ∈ cols, c.length = n) : ∀ c ∈ insertRow p xs cols, c.length = n + 1 := by
  induction cols generalizing xs with
  | nil => intro c hc; simp [insertRow] at hc
  | cons c cs ih =>
    cases xs with
    | nil => intro c hc; simp [insertRow] at hc
    | cons x xs' =>
      intro c' hc'
      simp only [insertRow, List.zipWith_cons_cons, List.mem_cons] at hc'
      rcases hc' with hc' | hc'
      · rw [hc', insertAt_length, hlen c (List.mem_cons_self ..)]
      · exact ih xs' (fun d hd => hlen d (List.mem_cons_of_mem _ hd)) c' hc'

/-- a per-column test that does not see the inserted case gives the same answer on all columns -/
theorem all_insertRow (p n : Nat) (g g' : Vec → Bool)
    (hg : ∀ (c : Vec) (x : XR), c.length = n → g' (insertAt p x c) = g c)
    (cols : List Vec) (xs : List XR) (hxs : xs.length = cols.length)
    (hlen : ∀ c ∈ cols, c.length = n) :
    (insertRow p xs cols).all g' = cols.all g := by
  induction cols generalizing xs with
  | nil => simp [insertRow]
  | cons c cs ih =>
    cases xs with
    | nil => simp at hxs
    | cons x xs' =>
      simp only [insertRow, List.zipWith_cons_cons, List.all_cons]
      rw [hg c x (hlen c (List.mem_cons_self ..))]
      congr 1
      exact ih xs' (by simpa using hxs) (fun d hd => hlen d (List.mem_cons_of_mem _ hd))

/-- the inserted case is invalid as soon as one of its values is missing -/
theorem all_insertRow_bad (p n : Nat) (hp : p ≤ n) (cols : List Vec) (xs : List XR)
    (hxs : xs.length = cols.length) (hlen : ∀ c ∈ cols, c.length = n)
    (hbad : ∃ x ∈ xs, isValid x = false) :
    (insertRow p xs cols).all (fun c => isValid (c.getD p nan)) = false := by
  induction cols generalizing xs with
  | nil =>
    obtain ⟨x, hx, _⟩ := hbad
    have : xs = [] := List.eq_nil_of_length_eq_zero (by simpa using hxs)
    subst this
    cases hx
  | cons c cs ih =>
    cases xs with
    | nil => simp at hxs
    | cons x xs' =>
      simp only [insertRow, List.zipWith_cons_cons, List.all_cons]
      have hget : (insertAt p x c).getD p nan = x := by
        rw [List.getD_eq_getElem?_getD,
          insertAt_getElem? p x c (by rw [hlen c (List.mem_cons_self ..)]; exact hp)]
        simp
      rw [hget]
      obtain ⟨y, hy, hyb⟩ := hbad
      rcases List.mem_cons.mp hy with hy | hy
      · subst hy; rw [hyb]; rfl
      · have := ih xs' (by simpa using hxs) (fun d hd => hlen d (List.mem_cons_of_mem _ hd))
          ⟨y, hy, hyb⟩
        simp only [insertRow] at this
        rw [this, Bool.and_false]

theorem validMask_length (cols : List Vec) : (validMask cols).length = (cols.headD []).length := by
  simp [validMask]

/-- inserting an invalid case inserts one `false` into the validity mask -/
theorem validMask_insertRow (n p : Nat) (cols : List Vec) (xs : List XR)
    (hne : cols ≠ []) (hlen : ∀ c ∈ cols, c.length = n) (hp : p ≤ n) (hxs : xs.length = cols.length)
    (hbad : ∃ x ∈ xs, isValid x = false) :
    validMask (insertRow p xs cols) = insertAt p false (validMask cols) := by
  have hhead : (cols.headD []).length = n := by
    cases cols with
    | nil => exact absurd rfl hne
    | cons c cs => exact hlen c (List.mem_cons_self ..)
  have hhead' : ((insertRow p xs cols).headD []).length = n + 1 := by
    cases cols with
    | nil => exact absurd rfl hne
    | cons c cs =>
      cases xs with
      | nil => simp at hxs
      | cons x xs' =>
        simp only [insertRow, List.zipWith_cons_cons, List.headD_cons, insertAt_length]
        rw [hlen c (List.mem_cons_self ..)]
  have hml : (validMask cols).length = n := by rw [validMask_length, hhead]
  apply List.ext_getElem?
  intro k
  rcases Nat.lt_or_ge k (n + 1) with hk | hk
  · rw [validMask_get _ k (by omega), insertAt_getElem? p false _ (by omega) k]
    split
    · rename_i hkp
      rw [validMask_get _ k (by omega)]
      congr 1
      apply all_insertRow p n _ _ _ cols xs hxs hlen
      intro c x hc
      rw [List.getD_eq_getElem?_getD, List.getD_eq_getElem?_getD,
        insertAt_getElem? p x c (by omega) k, if_pos hkp]
    · split
      · rename_i hkp
        subst hkp
        rw [all_insertRow_bad k n hp cols xs hxs hlen hbad]
      · rw [validMask_get _ (k - 1) (by omega)]
        congr 1
        apply all_insertRow p n _ _ _ cols xs hxs hlen
        intro c x hc
        rw [List.getD_eq_getElem?_getD, List.getD_eq_getElem?_getD,
          insertAt_getElem? p x c (by omega) k, if_neg (by omega), if_neg (by omega)]
  · rw [List.getElem?_eq_none (by rw [validMask_length, hhead']; exact hk),
      List.getElem?_eq_none (by rw [insertAt_length, hml]; exact hk)]

/-- compression by the new mask of the new columns = compression by the old mask of the old ones -/
theorem map_compress_insertRow (p n : Nat) (m : List Bool) (hm : m.length = n)
    (cols : List Vec) (xs : List XR) (hxs : xs.length = cols.length)
    (hlen : ∀ c ∈ cols, c.length = n) :
    (insertRow p xs cols).map (compress (insertAt p false m)) = cols.map (compress m) := by
  induction cols generalizing xs with
  | nil => simp [insertRow]
  | cons c cs ih =>
    cases xs with
    | nil => simp at hxs
    | cons x xs' =>
      simp only [insertRow, List.zipWith_cons_cons, List.map_cons]
      rw [compress_insertAt p x m c (by rw [hm, hlen c (List.mem_cons_self ..)])]
      congr 1
      exact ih xs' (by simpa using hxs) (fun d hd => hlen d (List.mem_cons_of_mem _ hd))

/-- **Deletion invariance at the dataset level.**  Inserting, at any position, a case in which at
least one requested column holds a missing value (NaN or ±inf; the other columns are arbitrary)
does not change what `get_scores` hands on, for any number of columns and any slicing axis other
than the whole-array one. -/
theorem C04_delete_invariance (sel : Sel) (hsel : sel ≠ .all) (nf n p : Nat) (cols : List Vec) (xs : List XR)
    (hne : cols ≠ []) (hlen : ∀ c ∈ cols, c.length = n) (hp : p ≤ n) (hxs : xs.length = cols.length)
    (hbad : ∃ x ∈ xs, isValid x = false) :
    finish sel nf (insertRow p xs cols) = finish sel nf cols := by
  have hml : (validMask cols).length = n := by
    rw [validMask_length]
    cases cols with
    | nil => exact absurd rfl hne
    | cons c cs => exact hlen c (List.mem_cons_self ..)
  have hout : (insertRow p xs cols).map (compress (validMask (insertRow p xs cols)))
      = cols.map (compress (validMask cols)) := by
    rw [validMask_insertRow n p cols xs hne hlen hp hxs hbad]
    exact map_compress_insertRow p n _ hml cols xs hxs hlen
  unfold finish
  cases sel with
  | all => exact absurd rfl hsel
  | none => simp only [hout]
  | time i => simp only [hout]
  | times idx => simp only [hout]
  | leads idx => simp only [hout]
  | loc i => simp only [hout]

/-- insert several cases one after another (each position refers to the dataset as it is then) -/
def insertRows : List (Nat × List XR) → List Vec → List Vec
  | [], cols => cols
  | r :: rest, cols => insertRows rest (insertRow r.1 r.2 cols)

/-- every inserted case fits (position in range, one value per column) and holds a missing value;
`n` is the number of cases before the first insertion -/
def BadRows (ncols : Nat) : Nat → List (Nat × List XR) → Prop
  | _, [] => True
  | n, r :: rest =>
    r.1 ≤ n ∧ r.2.length = ncols ∧ (∃ x ∈ r.2, isValid x = false) ∧ BadRows ncols (n + 1) rest

/-- any number of cases with a missing value, inserted anywhere, leave the result unchanged -/
theorem C04_delete_invariance_many (sel : Sel) (hsel : sel ≠ .all) (nf n : Nat) (cols : List Vec)
    (rows : List (Nat × List XR)) (hne : cols ≠ []) (hlen : ∀ c ∈ cols, c.length = n)
    (hrows : BadRows cols.length n rows) :
    finish sel nf (insertRows rows cols) = finish sel nf cols := by
  induction rows generalizing n cols with
  | nil => rfl
  | cons r rest ih =>
    obtain ⟨hp, hxs, hbad, hrest⟩ := hrows
    have hl : (insertRow r.1 r.2 cols).length = cols.length := insertRow_length r.1 r.2 cols hxs
    have hne' : insertRow r.1 r.2 cols ≠ [] := by
      intro h
      rw [h] at hl
      exact hne (List.eq_nil_of_length_eq_zero hl.symm)
    show finish sel nf (insertRows rest (insertRow r.1 r.2 cols)) = finish sel nf cols
    rw [ih (n + 1) (insertRow r.1 r.2 cols) hne' (insertRow_col_length r.1 n r.2 cols hlen)
      (by rw [hl]; exact hrest)]
    exact C04_delete_invariance sel hsel nf n r.1 cols r.2 hne hlen hp hxs hbad

/-- non-vacuity: three cases × two columns; a case with `+inf` in the first column (and a perfectly
good 9 in the second) is inserted at position 1; both datasets compress to the same two cases
(case 1 of the original is dropped as well: NaN in the second column) -/
example :
    insertRow 1 [pinf, fin 9] [[fin 1, fin 2, fin 3], [fin 4, nan, fin 6]]
        = [[fin 1, pinf, fin 2, fin 3], [fin 4, fin 9, nan, fin 6]]
    ∧ finish .none 2 (insertRow 1 [pinf, fin 9] [[fin 1, fin 2, fin 3], [fin 4, nan, fin 6]])
        = [[fin 1, fin 3], [fin 4, fin 6]]
    ∧ finish .none 2 [[fin 1, fin 2, fin 3], [fin 4, nan, fin 6]] = [[fin 1, fin 3], [fin 4, fin 6]] := by
  decide +kernel

/-- the hypotheses of the several-cases corollary are satisfiable, and its conclusion is what the
model computes: insertions at the front, in the middle and at the very end -/
example :
    BadRows 2 3 [(1, [pinf, fin 9]), (4, [fin 7, nan]), (0, [ninf, ninf])]
    ∧ insertRows [(1, [pinf, fin 9]), (4, [fin 7, nan]), (0, [ninf, ninf])]
        [[fin 1, fin 2, fin 3], [fin 4, nan, fin 6]]
        = [[ninf, fin 1, pinf, fin 2, fin 3, fin 7], [ninf, fin 4, fin 9, nan, fin 6, nan]]
    ∧ finish (.time 0) 2 (insertRows [(1, [pinf, fin 9]), (4, [fin 7, nan]), (0, [ninf, ninf])]
        [[fin 1, fin 2, fin 3], [fin 4, nan, fin 6]]) = [[fin 1, fin 3], [fin 4, fin 6]] := by
  refine ⟨⟨by decide, rfl, ⟨pinf, by decide +kernel, rfl⟩, by decide, rfl, ⟨nan, by decide +kernel, rfl⟩,
    by decide, rfl, ⟨ninf, by decide +kernel, rfl⟩, trivial⟩, by decide +kernel, by decide +kernel⟩

end VerifModel.C04
