import VerifModel.Model.Scripts
import VerifModel.Spec.Scripts
import Proofs.Lemmas.XR
/-
  C20 — Helper scripts transform files as documented.
  Property theorems about the model of accumulate.py, ens2prob.py, expandverif.py (window.py
  rides along); helper lemmas are private.
-/
namespace VerifModel.C20
open XR Scripts
open Spec.Scripts (toXR sumRat present window)

/-! ### helper lemmas: sums of series with missing values -/

private theorem foldl_nan (l : Vec) : l.foldl (· + ·) nan = nan := by
  induction l with
  | nil => rfl
  | cons x xs ih => simp [List.foldl_cons, ih]

private theorem present_cons_some (q : Rat) (l : List (Option Rat)) :
    present (some q :: l) = q :: present l := by simp [present]

private theorem present_cons_none (l : List (Option Rat)) :
    present (none :: l) = present l := by simp [present]

/-- NaN-propagating sum: defined iff no term is missing -/
private theorem sum_toXR (a : Rat) (l : List (Option Rat)) :
    (l.map toXR).foldl (· + ·) (fin a)
      = if l.all Option.isSome then fin (a + sumRat (present l)) else nan := by
  induction l generalizing a with
  | nil => simp [present, sumRat]
  | cons o os ih =>
    cases o with
    | none => simp [toXR, foldl_nan]
    | some q =>
      simp only [List.map_cons, List.foldl_cons, toXR, fin_add, ih, List.all_cons, Option.isSome_some,
        Bool.true_and, present_cons_some, sumRat]
      split <;> simp [Rat.add_assoc]

/-- sum with NaN replaced by 0: the sum of the non-missing terms -/
private theorem sum_zeroNan (a : Rat) (l : List (Option Rat)) :
    (zeroNan (l.map toXR)).foldl (· + ·) (fin a) = fin (a + sumRat (present l)) := by
  unfold zeroNan
  induction l generalizing a with
  | nil => simp [present, sumRat]
  | cons o os ih =>
    cases o with
    | none =>
      simp only [List.map_cons, List.foldl_cons, toXR, isNan_nan, if_true, fin_add,
        present_cons_none, Rat.add_zero]
      exact ih a
    | some q =>
      simp only [List.map_cons, List.foldl_cons, toXR, isNan_fin, Bool.false_eq_true, if_false,
        fin_add, present_cons_some, sumRat]
      rw [ih (a + q), Rat.add_assoc]

private theorem zeroNan_take_drop (v : Vec) (s w : Nat) :
    ((zeroNan v).drop s).take w = zeroNan ((v.drop s).take w) := by
  simp [zeroNan, List.map_drop, List.map_take]

private theorem map_take_drop (x : List (Option Rat)) (s w : Nat) :
    ((x.map toXR).drop s).take w = ((x.drop s).take w).map toXR := by
  simp [List.map_drop, List.map_take]

private theorem toXR_eq_nan (o : Option Rat) : toXR o = nan ↔ o = none := by
  cases o <;> simp [toXR]

/-! ### accumulate

`scipy.signal.convolve(…, "valid", method="direct")` enters the model with its documented meaning
(the direct sum over the window).  A file that holds only obs or only fcst is inside these
statements: the field that is present is accumulated, the absent one stays absent
(`C20_accumulate_file`).
-/

/-- **accumulate -w w** (every w ≥ 1, including `-w 1`) on a series of any length n ≥ w: the script does not stop, the
output has the same length, and at every step t it holds the documented value: the sum
Σ_{k=t−w+1..t} x_k over the trailing window; missing if the window is incomplete (t+1 < w) or —
without `-i` — a term is missing; with `-i` missing terms are left out of the sum. -/
theorem C20_accumulate (w : Nat) (ign : Bool) (x : List (Option Rat)) (hw : 1 ≤ w)
    (hn : w ≤ x.length) :
    ∃ out, accumulate (some w) ign (x.map toXR) = some out ∧ out.length = x.length ∧
      ∀ t, t < x.length → out[t]? = some (toXR (Spec.Scripts.accum w ign x t)) := by
  have h1 : w ≥ 1 := hw
  have h2 : ¬ w > (x.map toXR).length := by simp; omega
  refine ⟨List.replicate (w - 1) nan ++
      convValid w (if ign = true then zeroNan (x.map toXR) else x.map toXR), ?_, ?_, ?_⟩
  · simp only [accumulate, h1, if_true, convolve, h2, if_false]
  · cases ign <;> simp [convValid, zeroNan] <;> omega
  · intro t ht
    rw [List.getElem?_append]
    simp only [List.length_replicate, List.getElem?_replicate]
    by_cases hlt : t < w - 1
    · have : t + 1 < w := by omega
      simp [hlt, Spec.Scripts.accum, this, toXR]
    · have hc : ¬ t + 1 < w := by omega
      have hidx : t - (w - 1) = t + 1 - w := by omega
      simp only [hlt, if_false, convValid, hidx, Spec.Scripts.accum, hc]
      cases ign with
      | true =>
        have hr : t + 1 - w < (zeroNan (x.map toXR)).length + 1 - w := by simp [zeroNan]; omega
        simp only [if_true, List.getElem?_map, List.getElem?_range hr, Option.map_some, Vec.sum,
          zeroNan_take_drop, map_take_drop, sum_zeroNan, window, toXR, Rat.zero_add]
      | false =>
        have hr : t + 1 - w < (x.map toXR).length + 1 - w := by simp; omega
        simp only [Bool.false_eq_true, if_false, List.getElem?_map, List.getElem?_range hr,
          Option.map_some, Vec.sum, map_take_drop, sum_toXR, window, Rat.zero_add]
        by_cases hall : ((x.drop (t + 1 - w)).take w).all Option.isSome = true
        · simp only [hall, if_true, toXR]
        · simp only [hall, Bool.false_eq_true, if_false, toXR]

/-- … and a window longer than the series is refused (the script's error exit). -/
theorem C20_accumulate_too_long (w : Nat) (ign : Bool) (v : Vec) (hw : 1 ≤ w) (hn : v.length < w) :
    accumulate (some w) ign v = none := by
  have h1 : w ≥ 1 := hw
  simp [accumulate, h1, convolve, hn]

/-- Missing exactly where documented: the output of `accumulate -w w` at step t is missing iff
the window is incomplete or (without -i) one of its terms is missing. -/
theorem C20_accumulate_missing_iff (w : Nat) (ign : Bool) (x : List (Option Rat)) (hw : 1 ≤ w)
    (hn : w ≤ x.length) (out : Vec) (h : accumulate (some w) ign (x.map toXR) = some out)
    (t : Nat) (ht : t < x.length) :
    out[t]? = some nan ↔ (t + 1 < w ∨ (ign = false ∧ none ∈ window w t x)) := by
  obtain ⟨out', h', _, hv⟩ := C20_accumulate w ign x hw hn
  rw [h] at h'
  cases h'
  rw [hv t ht]
  simp only [Option.some.injEq, toXR_eq_nan, Spec.Scripts.accum]
  by_cases hlt : t + 1 < w
  · simp [hlt]
  · cases ign with
    | true => simp [hlt]
    | false =>
      simp only [hlt, if_false, Bool.false_eq_true, false_or, true_and]
      by_cases hall : (window w t x).all Option.isSome = true
      · simp only [hall, if_true]
        constructor
        · intro h; cases h
        · intro hm
          rw [List.all_eq_true] at hall
          have := hall none hm
          simp at this
      · simp only [hall]
        simp only [Bool.not_eq_true, List.all_eq_false] at hall
        obtain ⟨o, ho, hs⟩ := hall
        cases o with
        | none => simp [ho]
        | some q => simp at hs

/-! ### cumulative (no -w) -/

private theorem cumsumFrom_getElem? (acc : XR) (v : Vec) (t : Nat) (ht : t < v.length) :
    (cumsumFrom acc v)[t]? = some ((v.take (t + 1)).foldl (· + ·) acc) := by
  induction v generalizing acc t with
  | nil => simp at ht
  | cons y ys ih =>
    cases t with
    | zero => simp [cumsumFrom]
    | succ t =>
      have : t < ys.length := by simpa using ht
      simp [cumsumFrom, ih (acc + y) t this]

private theorem cumsumFrom_length (acc : XR) (v : Vec) : (cumsumFrom acc v).length = v.length := by
  induction v generalizing acc with
  | nil => rfl
  | cons y ys ih => simp [cumsumFrom, ih]

/-- **accumulate without -w**: the running total x_0 + … + x_t at every step t (missing from the
first missing term on; with `-i` missing terms are left out). -/
theorem C20_cumulative (ign : Bool) (x : List (Option Rat)) :
    ∃ out, accumulate none ign (x.map toXR) = some out ∧ out.length = x.length ∧
      ∀ t, t < x.length → out[t]? = some (toXR (Spec.Scripts.cumulative ign x t)) := by
  refine ⟨_, rfl, ?_, ?_⟩
  · cases ign <;> simp [cumsum, cumsumFrom_length, zeroNan]
  · intro t ht
    have hw : window (t + 1) t x = x.take (t + 1) := by simp [window]
    cases ign with
    | true =>
      have hl : t < (zeroNan (x.map toXR)).length := by simpa [zeroNan] using ht
      have hz : (zeroNan (x.map toXR)).take (t + 1) = zeroNan ((x.take (t + 1)).map toXR) := by
        simp [zeroNan, List.map_take]
      simp only [if_true, cumsum, cumsumFrom_getElem? _ _ t hl, hz, sum_zeroNan,
        Spec.Scripts.cumulative, Spec.Scripts.accum, Nat.lt_irrefl, if_false, hw, toXR, Rat.zero_add]
    | false =>
      have hl : t < (x.map toXR).length := by simpa using ht
      have hz : (x.map toXR).take (t + 1) = (x.take (t + 1)).map toXR := by simp [List.map_take]
      simp only [Bool.false_eq_true, if_false, cumsum, cumsumFrom_getElem? _ _ t hl, hz, sum_toXR,
        Spec.Scripts.cumulative, Spec.Scripts.accum, Nat.lt_irrefl, hw, Rat.zero_add]
      by_cases hall : (x.take (t + 1)).all Option.isSome = true
      · simp only [hall, if_true, toXR]
      · simp only [hall, Bool.false_eq_true, if_false, toXR]

/-! ### -w 1 -/

/-- **accumulate -w 1**: the window is the step itself.  A present value is kept; a missing value
stays missing without `-i` and becomes the empty sum 0 with `-i` — the same rule as for every
other window length (instance of `C20_accumulate`). -/
theorem C20_accumulate_w1 (ign : Bool) (x : List (Option Rat)) (hn : 1 ≤ x.length) :
    ∃ out, accumulate (some 1) ign (x.map toXR) = some out ∧ out.length = x.length ∧
      ∀ t, (ht : t < x.length) →
        out[t]? = some (toXR (Spec.Scripts.accum 1 ign x t)) ∧
        out[t]? = some (match x[t] with
          | some q => fin q
          | none => if ign then fin 0 else nan) := by
  obtain ⟨out, ho, hl, hv⟩ := C20_accumulate 1 ign x (le_refl 1) hn
  refine ⟨out, ho, hl, ?_⟩
  intro t ht
  refine ⟨hv t ht, ?_⟩
  rw [hv t ht]
  have h0 : ¬ t + 1 < 1 := by omega
  have hw : window 1 t x = [x[t]] := by
    simp only [window, Nat.add_sub_cancel]
    rw [List.take_one_drop_eq_of_lt_length ht]
    simp
  simp only [Spec.Scripts.accum, h0, if_false, hw]
  cases x[t] with
  | none => cases ign <;> simp [toXR, present, sumRat]
  | some q => cases ign <;> simp [toXR, present, sumRat]

/-- non-vacuity (the input that used to expose the `-w 1 -i` defect): the missing value becomes 0 -/
example : accumulate (some 1) true [fin 1, nan] = some [fin 1, fin 0]
    ∧ accumulate (some 1) false [fin 1, nan] = some [fin 1, nan] := by
  refine ⟨by decide +kernel, by decide +kernel⟩

/-! ### lifting to a field along the lead-time or the time axis -/

private theorem accumulate_total (w : Option Nat) (ign : Bool) (v : Vec)
    (h : windowTooLong w v.length = false) :
    ∃ out, accumulate w ign v = some out ∧ out.length = v.length := by
  cases w with
  | none => exact ⟨_, rfl, by cases ign <;> simp [cumsum, cumsumFrom_length, zeroNan]⟩
  | some w =>
    simp only [windowTooLong, Bool.and_eq_false_iff, decide_eq_false_iff_not] at h
    by_cases h1 : w ≥ 1
    · have h2 : ¬ w > v.length := by
        rcases h with h | h
        · exact absurd h1 h
        · exact h
      refine ⟨List.replicate (w - 1) nan ++ convValid w (if ign = true then zeroNan v else v), ?_, ?_⟩
      · simp only [accumulate, h1, if_true, convolve, h2, if_false]
      · cases ign <;> simp [convValid, zeroNan] <;> omega
    · exact ⟨v, by simp [accumulate, h1], rfl⟩

private theorem getElem?_getD {α : Type} (l : List α) (i : Nat) (d : α) (h : i < l.length) :
    l[i]? = some (l.getD i d) := by
  simp [List.getD_eq_getElem?_getD, List.getElem?_eq_getElem h]

/-- **Along the requested axis**: `accumulate -x leadtime` (default) replaces, for every time and
location, the series over the lead times by its accumulation; `-x time` does the same to the
series over the times for every lead time and location.  Dimensions are unchanged.  (Together
with `C20_accumulate` / `C20_cumulative` this gives the window sums for every cell.) -/
theorem C20_accumulate_axis (axis : Axis) (w : Option Nat) (ign : Bool) (a b : Arr3)
    (h : accumulate3 axis w ign a = some b) :
    b.T = a.T ∧ b.L = a.L ∧ b.S = a.S ∧
    (axis = .leadtime → ∀ t l s, l < a.L →
      ∃ out, accumulate w ign (seriesLead a t s) = some out ∧ out.length = a.L ∧
        out[l]? = some (b.cell t l s)) ∧
    (axis = .time → ∀ t l s, t < a.T →
      ∃ out, accumulate w ign (seriesTime a l s) = some out ∧ out.length = a.T ∧
        out[t]? = some (b.cell t l s)) := by
  cases axis with
  | leadtime =>
    simp only [accumulate3] at h
    split at h
    · cases h
    · rename_i hw
      cases h
      refine ⟨rfl, rfl, rfl, ?_, ?_⟩
      · intro _ t l s hl
        have hlen : (seriesLead a t s).length = a.L := by simp [seriesLead]
        obtain ⟨out, ho, hol⟩ := accumulate_total w ign (seriesLead a t s) (by rw [hlen]; simpa using hw)
        refine ⟨out, ho, by rw [hol, hlen], ?_⟩
        simp only [accCell, ho]
        exact getElem?_getD out l nan (by rw [hol, hlen]; exact hl)
      · intro h; cases h
  | time =>
    simp only [accumulate3] at h
    split at h
    · cases h
    · rename_i hw
      cases h
      refine ⟨rfl, rfl, rfl, ?_, ?_⟩
      · intro h; cases h
      · intro _ t l s hl
        have hlen : (seriesTime a l s).length = a.T := by simp [seriesTime]
        obtain ⟨out, ho, hol⟩ := accumulate_total w ign (seriesTime a l s) (by rw [hlen]; simpa using hw)
        refine ⟨out, ho, by rw [hol, hlen], ?_⟩
        simp only [accCell, ho]
        exact getElem?_getD out t nan (by rw [hol, hlen]; exact hl)

/-- non-vacuity: a 2 x 3 x 1 field accumulated with -w 2 along the lead times -/
example : ∃ b, accumulate3 .leadtime (some 2) false
      ⟨2, 3, 1, fun t l _ => fin ((t : Rat) * 10 + l)⟩ = some b
    ∧ b.cell 1 2 0 = fin 23 ∧ b.cell 1 0 0 = nan := by
  refine ⟨_, rfl, by decide +kernel, by decide +kernel⟩

/-! ### ens2prob: cumulative probabilities -/

private theorem sum_bool {α : Type} (a : Rat) (p : α → Bool) (l : List α) :
    (l.map fun e => boolToXR (p e)).foldl (· + ·) (fin a) = fin (a + (l.countP p : Nat)) := by
  induction l generalizing a with
  | nil => simp
  | cons e es ih =>
    simp only [List.map_cons, List.foldl_cons, List.countP_cons]
    have h0 : boolToXR false = fin 0 := rfl
    have h1 : boolToXR true = fin 1 := rfl
    cases hp : p e
    · simp only [h0, fin_add, ih, Bool.false_eq_true, if_false, Nat.add_zero, Rat.add_zero]
    · simp only [h1, fin_add, ih, if_true, Nat.cast_add, Nat.cast_one]
      congr 1; ring

private theorem isNan_boolToXR (b : Bool) : (boolToXR b).isNan = false := by cases b <;> rfl

private theorem cond_filter (t : Rat) (ens : List (Option Rat)) :
    (List.map (fun e => if e.isNan then XR.nan else boolToXR (XR.lt e (fin t))) (ens.map toXR)).filter
        (fun x => !x.isNan)
      = (present ens).map fun e => boolToXR (decide (e < t)) := by
  induction ens with
  | nil => rfl
  | cons o os ih =>
    cases o with
    | none => simpa [toXR, present_cons_none] using ih
    | some q =>
      simp only [List.map_cons, toXR, isNan_fin, Bool.false_eq_true, if_false, List.filter_cons,
        isNan_boolToXR, Bool.not_false, if_true, present_cons_some, ih]
      rfl

/-- **CDF = Spec**: the cumulative probability the script writes for threshold t is the fraction
of the non-missing members strictly below t; missing iff every member is missing. -/
theorem C20_cdf (t : Rat) (ens : List (Option Rat)) :
    cdf (fin t) (ens.map toXR) = toXR (Spec.Scripts.cdf t ens) := by
  simp only [cdf, Vec.nanmean, Vec.mean, Vec.sum, Vec.len, cond_filter, sum_bool, List.length_map,
    XR.ofNat, Spec.Scripts.cdf, upperCdf, lowerCdf]
  by_cases hlen : (present ens).length = 0
  · have : present ens = [] := List.length_eq_zero_iff.mp hlen
    simp [this, toXR, fin_div, infOfSign]
  · have hne : ((present ens).length : Rat) ≠ 0 := by exact_mod_cast hlen
    simp [hlen, toXR, fin_div_ne _ _ hne]

/-- **CDF ∈ [0,1]** for every ensemble and threshold (whenever it is not missing). -/
theorem C20_cdf_bounds (t : Rat) (ens : List (Option Rat)) (p : Rat)
    (h : cdf (fin t) (ens.map toXR) = fin p) : 0 ≤ p ∧ p ≤ 1 := by
  rw [C20_cdf] at h
  simp only [Spec.Scripts.cdf] at h
  split at h
  · simp [toXR] at h
  · rename_i hlen
    simp only [toXR, fin.injEq] at h
    subst h
    have hk : ((List.countP (fun e => decide (e < t)) (present ens) : Nat) : Rat)
        ≤ ((present ens).length : Rat) := by exact_mod_cast List.countP_le_length
    have hn : (0 : Rat) < ((present ens).length : Rat) := by
      exact_mod_cast Nat.pos_of_ne_zero hlen
    exact ⟨div_nonneg (by positivity) (le_of_lt hn), (div_le_one hn).mpr hk⟩

/-- **CDF never decreases with the threshold** (same ensemble, t ≤ t'). -/
theorem C20_cdf_mono (t t' : Rat) (htt : t ≤ t') (ens : List (Option Rat)) (p p' : Rat)
    (h : cdf (fin t) (ens.map toXR) = fin p) (h' : cdf (fin t') (ens.map toXR) = fin p') :
    p ≤ p' := by
  rw [C20_cdf] at h h'
  simp only [Spec.Scripts.cdf] at h h'
  split at h
  · simp [toXR] at h
  · rename_i hlen
    simp only [hlen, if_false, toXR, fin.injEq] at h h'
    subst h h'
    have hn : (0 : Rat) < ((present ens).length : Rat) := by
      exact_mod_cast Nat.pos_of_ne_zero hlen
    have hk : ((List.countP (fun e => decide (e < t)) (present ens) : Nat) : Rat)
        ≤ ((List.countP (fun e => decide (e < t')) (present ens) : Nat) : Rat) := by
      exact_mod_cast List.countP_mono_left (fun e _ he => by
        simp only [decide_eq_true_eq] at he ⊢; exact lt_of_lt_of_le he htt)
    exact div_le_div_of_nonneg_right hk (le_of_lt hn)

/-- missingness of the CDF does not depend on the threshold -/
theorem C20_cdf_missing (t : Rat) (ens : List (Option Rat)) :
    cdf (fin t) (ens.map toXR) = nan ↔ present ens = [] := by
  rw [C20_cdf, toXR_eq_nan]
  simp only [Spec.Scripts.cdf]
  constructor
  · intro h; split at h
    · exact List.length_eq_zero_iff.mp (by assumption)
    · cases h
  · intro h; simp [h]

/-- non-vacuity: members 4, missing, 5, 1 against thresholds 2 and 5 -/
example : cdf (fin 2) [fin 4, nan, fin 5, fin 1] = fin (1/3)
    ∧ cdf (fin 5) [fin 4, nan, fin 5, fin 1] = fin (2/3) := by
  refine ⟨by decide +kernel, by decide +kernel⟩

/-! ### ens2prob: PIT -/

private theorem pit_sum (o a : Rat) (ens : List (Option Rat)) :
    (List.map (fun e => boolToXR (XR.lt e (fin o))) (ens.map toXR)).foldl (· + ·) (fin a)
      = fin (a + ((present ens).countP (fun e => decide (e < o)) : Nat)) := by
  have h0 : boolToXR false = fin 0 := rfl
  have h1 : boolToXR true = fin 1 := rfl
  induction ens generalizing a with
  | nil => simp [present]
  | cons e es ih =>
    cases e with
    | none =>
      have hl : XR.lt nan (fin o) = false := rfl
      simp only [List.map_cons, List.foldl_cons, toXR, hl, h0, fin_add, Rat.add_zero, ih,
        present_cons_none]
    | some q =>
      have hl : XR.lt (fin q) (fin o) = decide (q < o) := rfl
      simp only [List.map_cons, List.foldl_cons, toXR, hl, present_cons_some, List.countP_cons]
      by_cases hq : q < o
      · simp only [hq, decide_true, h1, fin_add, ih, if_true, Nat.cast_add, Nat.cast_one]
        congr 1; ring
      · simp only [hq, decide_false, h0, fin_add, ih, Bool.false_eq_true, if_false, Nat.add_zero,
          Rat.add_zero]

/-- **PIT** = |{m | e_m < obs}| / M for every non-missing observation (missing members count in
M and are never below); **missing where the observation is missing**. -/
theorem C20_pit (obs : Option Rat) (ens : List (Option Rat)) :
    pit (toXR obs) (ens.map toXR) = toXR (Spec.Scripts.pit obs ens) := by
  cases obs with
  | none => rfl
  | some o =>
    simp only [toXR, pit, isNan_fin, Bool.false_eq_true, if_false, Vec.mean, Vec.sum, Vec.len,
      pit_sum, List.length_map, XR.ofNat, Spec.Scripts.pit]
    by_cases hlen : ens.length = 0
    · have : ens = [] := List.length_eq_zero_iff.mp hlen
      simp [this, fin_div, infOfSign, present]
    · have hne : (ens.length : Rat) ≠ 0 := by exact_mod_cast hlen
      simp [hlen, fin_div_ne _ _ hne]

/-- obs missing ⇒ pit missing, whatever the members are -/
theorem C20_pit_missing_obs (ens : Vec) : pit nan ens = nan := rfl

/-- non-vacuity: observation 3/2 against members 1, 2, missing -/
example : pit (fin (3/2)) [fin 1, fin 2, nan] = fin (1/3) ∧ pit nan [fin 1, fin 2] = nan :=
  ⟨by decide +kernel, rfl⟩

/-! ### ens2prob: quantiles -/

/-- insertion sort on ℚ (what `np.sort` does to a complete ensemble) -/
def insR (x : Rat) : List Rat → List Rat
  | [] => [x]
  | y :: ys => if y < x then y :: insR x ys else x :: y :: ys

def sortR (l : List Rat) : List Rat := l.foldr insR []

private theorem insertSorted_fin (x : Rat) (l : List Rat) :
    Vec.insertSorted (fin x) (l.map fin) = (insR x l).map fin := by
  induction l with
  | nil => rfl
  | cons y ys ih =>
    have hl : XR.lt (fin y) (fin x) = decide (y < x) := rfl
    simp only [List.map_cons, Vec.insertSorted, insR, hl, decide_eq_true_eq]
    split
    · simp [ih]
    · simp

private theorem sort_fin (l : List Rat) : Vec.sort (l.map fin) = (sortR l).map fin := by
  induction l with
  | nil => rfl
  | cons y ys ih =>
    simp only [Vec.sort, sortR, List.map_cons, List.foldr_cons] at ih ⊢
    rw [ih, insertSorted_fin]

private theorem sortNanLast_fin (l : List Rat) : sortNanLast (l.map fin) = (sortR l).map fin := by
  have h1 : (l.map fin).filter (fun x => !x.isNan) = l.map fin := by
    apply List.filter_eq_self.mpr
    intro a ha
    obtain ⟨q, _, rfl⟩ := List.mem_map.mp ha
    rfl
  have h2 : (l.map fin).filter (fun x => x.isNan) = [] := by
    apply List.filter_eq_nil_iff.mpr
    intro a ha
    obtain ⟨q, _, rfl⟩ := List.mem_map.mp ha
    simp
  simp only [sortNanLast, h1, h2, List.append_nil, sort_fin]

private theorem insR_mem (x y : Rat) (l : List Rat) : y ∈ insR x l ↔ y = x ∨ y ∈ l := by
  induction l with
  | nil => simp [insR]
  | cons z zs ih =>
    simp only [insR]
    split
    · simp only [List.mem_cons, ih]; tauto
    · simp only [List.mem_cons]

private theorem insR_length (x : Rat) (l : List Rat) : (insR x l).length = l.length + 1 := by
  induction l with
  | nil => rfl
  | cons z zs ih =>
    simp only [insR]
    split <;> simp [ih]

private theorem insR_pairwise (x : Rat) (l : List Rat) (h : l.Pairwise (· ≤ ·)) :
    (insR x l).Pairwise (· ≤ ·) := by
  induction l with
  | nil => simp [insR]
  | cons y ys ih =>
    simp only [insR]
    rw [List.pairwise_cons] at h
    split
    · rename_i hyx
      rw [List.pairwise_cons]
      refine ⟨?_, ih h.2⟩
      intro z hz
      rcases (insR_mem x z ys).mp hz with rfl | hz
      · exact le_of_lt hyx
      · exact h.1 z hz
    · rename_i hyx
      have hxy : x ≤ y := not_lt.mp hyx
      rw [List.pairwise_cons]
      refine ⟨?_, List.pairwise_cons.mpr h⟩
      intro z hz
      rcases List.mem_cons.mp hz with rfl | hz
      · exact hxy
      · exact le_trans hxy (h.1 z hz)

theorem sortR_mem (y : Rat) (l : List Rat) : y ∈ sortR l ↔ y ∈ l := by
  induction l with
  | nil => simp [sortR]
  | cons z zs ih =>
    simp only [sortR, List.foldr_cons] at ih ⊢
    rw [insR_mem, ih, List.mem_cons]

theorem sortR_length (l : List Rat) : (sortR l).length = l.length := by
  induction l with
  | nil => rfl
  | cons z zs ih =>
    simp only [sortR, List.foldr_cons] at ih ⊢
    rw [insR_length, ih, List.length_cons]

theorem sortR_sorted (l : List Rat) : (sortR l).Pairwise (· ≤ ·) := by
  induction l with
  | nil => simp [sortR]
  | cons z zs ih =>
    simp only [sortR, List.foldr_cons] at ih ⊢
    exact insR_pairwise z _ ih

private theorem sorted_mono (s : List Rat) (hs : s.Pairwise (· ≤ ·)) (i j : Nat) (hij : i ≤ j)
    (hj : j < s.length) : s[i]'(by omega) ≤ s[j] := by
  rcases Nat.lt_or_eq_of_le hij with h | h
  · exact (List.pairwise_iff_getElem.mp hs) i j (by omega) hj h
  · subst h; exact le_refl _

/-- the index of the member the script's step function returns for level q (n members):
the last grid point i/(n−1) that is ≤ q; the last member for q = 1 -/
def qidx (n : Nat) (q : Rat) : Nat :=
  if q = 1 then n - 1
  else (List.range n).countP (fun (i : Nat) => decide ((i : Rat) / ((n : Rat) - 1) ≤ q)) - 1

private theorem qidx_lt (n : Nat) (q : Rat) (hn : 1 ≤ n) : qidx n q < n := by
  unfold qidx
  split
  · omega
  · have := List.countP_le_length (p := fun (i : Nat) => decide ((i : Rat) / ((n : Rat) - 1) ≤ q))
      (l := List.range n)
    simp only [List.length_range] at this
    omega

private theorem qidx_mono (n : Nat) (q q' : Rat) (hn : 1 ≤ n) (hqq : q ≤ q') (h1 : q' ≤ 1) :
    qidx n q ≤ qidx n q' := by
  by_cases hq' : q' = 1
  · have := qidx_lt n q hn
    simp only [qidx, hq', if_true] at this ⊢
    omega
  · have hq : q ≠ 1 := by
      intro h; subst h; exact hq' (le_antisymm h1 hqq)
    simp only [qidx, hq, hq', if_false]
    apply Nat.sub_le_sub_right
    apply List.countP_mono_left
    intro i _ hi
    simp only [decide_eq_true_eq] at hi ⊢
    exact le_trans hi hqq

/-- the script's quantile for a complete ensemble: member `qidx` of the sorted ensemble -/
private theorem quantile_eq (ens : List Rat) (hM : 2 ≤ ens.length) (q : Rat) (h0 : 0 ≤ q)
    (h1 : q ≤ 1) :
    quantile (fin q) (ens.map fin) = toXR ((sortR ens)[qidx ens.length q]?) := by
  have hlen := sortR_length ens
  have hn1 : ((ens.length : Rat) - 1) ≠ 0 := by
    have : (2 : Rat) ≤ (ens.length : Rat) := by exact_mod_cast hM
    intro h; linarith
  have hidx := qidx_lt ens.length q (by omega)
  have hget : (sortR ens)[qidx ens.length q]? = some ((sortR ens)[qidx ens.length q]'(by omega)) :=
    List.getElem?_eq_getElem (by omega)
  have he : XR.eqb (fin q) (fin 1) = decide (q = 1) := rfl
  simp only [quantile, sortNanLast_fin, he, decide_eq_true_eq, List.length_map, hlen]
  by_cases hq : q = 1
  · simp only [hq, if_true, qidx]
    rw [List.getLastD_eq_getLast?, List.getLast?_map, List.getLast?_eq_getElem?, hlen]
    have : (sortR ens)[ens.length - 1]? = some ((sortR ens)[ens.length - 1]'(by omega)) :=
      List.getElem?_eq_getElem (by omega)
    simp [this, toXR]
  · have hnle : ¬ ens.length ≤ 1 := by omega
    have hne0 : ens.length ≠ 0 := by omega
    have hcast : ((ens.length - 1 : Nat) : Rat) = (ens.length : Rat) - 1 := by
      rw [Nat.cast_sub (by omega)]; simp
    have hlast : ((ens.length - 1 : Nat) : Rat) / ((ens.length : Rat) - 1) = 1 := by
      rw [hcast]; exact div_self hn1
    have hbound : ¬ (q < 0 / ((ens.length : Rat) - 1) ∨ 1 < q) := by
      simp only [zero_div, not_or, not_lt]; exact ⟨h0, h1⟩
    simp only [hq, if_false, interpZero, linspace01, hnle, List.head?_map, List.head?_range, hne0,
      Option.map_some, List.getLast?_map, List.getLast?_range, Nat.cast_zero, hlast, hbound,
      List.countP_map, qidx, toXR]
    rw [List.getD_eq_getElem?_getD, List.getElem?_map]
    have hcomp : ((fun (x : Rat) => decide (x ≤ q)) ∘
          fun (i : Nat) => (i : Rat) / ((ens.length : Rat) - 1))
        = fun (i : Nat) => decide ((i : Rat) / ((ens.length : Rat) - 1) ≤ q) := rfl
    simp only [qidx, hq, if_false] at hget
    rw [hcomp, hget]
    rfl

/-- **Quantiles** of a complete ensemble (M ≥ 2 members), for levels 0 ≤ q ≤ q' ≤ 1: the values
written are members of the ensemble — hence inside [min, max] — and never decrease with the
level. -/
theorem C20_quantile (ens : List Rat) (hM : 2 ≤ ens.length) (q q' : Rat) (h0 : 0 ≤ q)
    (hqq : q ≤ q') (h1 : q' ≤ 1) :
    ∃ a b, quantile (fin q) (ens.map fin) = fin a ∧ quantile (fin q') (ens.map fin) = fin b
      ∧ a ≤ b ∧ a ∈ ens ∧ b ∈ ens
      ∧ ∀ lo hi, (∀ e ∈ ens, lo ≤ e ∧ e ≤ hi) → lo ≤ a ∧ a ≤ hi ∧ lo ≤ b ∧ b ≤ hi := by
  have hlen := sortR_length ens
  have hi := qidx_lt ens.length q (by omega)
  have hi' := qidx_lt ens.length q' (by omega)
  have hm := qidx_mono ens.length q q' (by omega) hqq h1
  refine ⟨(sortR ens)[qidx ens.length q]'(by omega), (sortR ens)[qidx ens.length q']'(by omega),
    ?_, ?_, ?_, ?_, ?_, ?_⟩
  · rw [quantile_eq ens hM q h0 (le_trans hqq h1), List.getElem?_eq_getElem (by omega)]; rfl
  · rw [quantile_eq ens hM q' (le_trans h0 hqq) h1, List.getElem?_eq_getElem (by omega)]; rfl
  · exact sorted_mono _ (sortR_sorted ens) _ _ hm (by omega)
  · exact (sortR_mem _ ens).mp (List.getElem_mem _)
  · exact (sortR_mem _ ens).mp (List.getElem_mem _)
  · intro lo hi' hb
    have ha := (sortR_mem _ ens).mp (List.getElem_mem (l := sortR ens) (n := qidx ens.length q) (by omega))
    have hb' := (sortR_mem _ ens).mp (List.getElem_mem (l := sortR ens) (n := qidx ens.length q') (by omega))
    exact ⟨(hb _ ha).1, (hb _ ha).2, (hb _ hb').1, (hb _ hb').2⟩

private theorem countP_lt (n m : Nat) :
    (List.range n).countP (fun i => decide (i < m)) = min n m := by
  induction n with
  | zero => simp
  | succ n ih =>
    rw [List.range_succ, List.countP_append, ih]
    simp only [List.countP_cons, List.countP_nil, decide_eq_true_eq]
    split <;> omega

private theorem qidx_floor (n : Nat) (hn : 2 ≤ n) (q : Rat) (h0 : 0 ≤ q) (h1 : q ≤ 1) :
    qidx n q = (q * ((n : Rat) - 1)).floor.toNat := by
  have hn2 : (2 : Rat) ≤ (n : Rat) := by exact_mod_cast hn
  have hpos : (0 : Rat) < (n : Rat) - 1 := by linarith
  have hcast : ((n - 1 : Nat) : Rat) = (n : Rat) - 1 := by
    rw [Nat.cast_sub (by omega)]; simp
  generalize hr : q * ((n : Rat) - 1) = r
  have hr0 : 0 ≤ r := by rw [← hr]; exact mul_nonneg h0 (le_of_lt hpos)
  have hrn : r ≤ (n : Rat) - 1 := by rw [← hr]; nlinarith
  have hf0 : 0 ≤ r.floor := Rat.le_floor_iff.mpr (by simpa using hr0)
  have hfn : r.floor ≤ ((n - 1 : Nat) : Int) := by
    have h2 : ((r.floor : Int) : Rat) ≤ (((n - 1 : Nat) : Int) : Rat) := by
      have := Rat.floor_le r
      rw [Int.cast_natCast, hcast]; linarith
    exact_mod_cast h2
  by_cases hq : q = 1
  · subst hq
    simp only [qidx, if_true]
    have : r = (((n - 1 : Nat) : Int) : Rat) := by rw [← hr, Int.cast_natCast, hcast]; ring
    rw [this, Rat.floor_intCast]; simp
  · simp only [qidx, hq, if_false]
    have hcongr : (List.range n).countP (fun (i : Nat) => decide ((i : Rat) / ((n : Rat) - 1) ≤ q))
        = (List.range n).countP (fun i => decide (i < r.floor.toNat + 1)) := by
      apply List.countP_congr
      intro i _
      simp only [decide_eq_true_eq]
      rw [div_le_iff₀ hpos, hr]
      constructor
      · intro h
        have h3 : (i : Int) ≤ r.floor := Rat.le_floor_iff.mpr (by simpa using h)
        have := (Int.le_toNat hf0).mpr h3
        omega
      · intro h
        have h2 : i ≤ r.floor.toNat := by omega
        have h3 : (i : Int) ≤ r.floor := (Int.le_toNat hf0).mp h2
        have := Rat.le_floor_iff.mp h3
        simpa using this
    rw [hcongr, countP_lt]
    have : r.floor.toNat ≤ n - 1 := Int.toNat_le.mpr hfn
    omega

/-- **Quantile = the documented rule** ("lowest member ↦ 0, highest ↦ 1, round down to the
nearest member"): for a complete ensemble of M ≥ 2 members and a level 0 ≤ q ≤ 1 the script
writes member ⌊q·(M−1)⌋ of the ascending ensemble. -/
theorem C20_quantile_def (ens : List Rat) (hM : 2 ≤ ens.length) (q : Rat) (h0 : 0 ≤ q)
    (h1 : q ≤ 1) :
    quantile (fin q) (ens.map fin) = toXR (Spec.Scripts.quantileSorted q (sortR ens)) := by
  have hc : ¬ (ens.length < 2 ∨ q < 0 ∨ 1 < q) := by
    simp only [not_or, not_lt]; exact ⟨hM, h0, h1⟩
  rw [quantile_eq ens hM q h0 h1, qidx_floor ens.length hM q h0 h1]
  simp only [Spec.Scripts.quantileSorted, sortR_length, hc, if_false]

/-- a single member: levels 0 and 1 return it (levels strictly between fall outside SciPy's
one-point grid and are written as missing). -/
theorem C20_quantile_single (e : Rat) :
    quantile (fin 0) [fin e] = fin e ∧ quantile (fin 1) [fin e] = fin e := by
  refine ⟨?_, ?_⟩
  · simp [quantile, sortNanLast, Vec.sort, Vec.insertSorted, XR.eqb, interpZero, linspace01, isNan]
  · simp [quantile, sortNanLast, Vec.sort, Vec.insertSorted, XR.eqb, isNan]

/-- non-vacuity: members 3, 1, 2, 5 (unsorted) at levels 1/2 ≤ 3/4 and at 1 -/
example : quantile (fin (1/2)) [fin 3, fin 1, fin 2, fin 5] = fin 2
    ∧ quantile (fin (3/4)) [fin 3, fin 1, fin 2, fin 5] = fin 3
    ∧ quantile (fin 1) [fin 3, fin 1, fin 2, fin 5] = fin 5 := by
  refine ⟨by decide +kernel, by decide +kernel, by decide +kernel⟩

/-! ### ens2prob: the file as a whole (thresholds and levels in ANY order) -/

/-- **The cdf slice stored at index i belongs to the threshold stored at index i**, whatever the
order of the `-r` list (ascending, descending, shuffled, with repeats): for every cell, slice `i`
is the documented fraction of non-missing members strictly below `thr[i]`; the threshold
coordinate is the list as typed; and read against that coordinate the probabilities never
decrease with the threshold. -/
theorem C20_cdf_file (thr qs : Vec) (p : Bool) (f : VFile) (t l s : Nat) (ens : List (Option Rat))
    (hens : f.member t l s = ens.map toXR) :
    (ens2probFile thr qs p f).thresholds = thr
    ∧ (∀ i x, thr[i]? = some (fin x) →
        (ens2probFile thr qs p f).cdf t l s i = toXR (Spec.Scripts.cdf x ens))
    ∧ (∀ i j x y a b, thr[i]? = some (fin x) → thr[j]? = some (fin y) → x ≤ y →
        (ens2probFile thr qs p f).cdf t l s i = fin a →
        (ens2probFile thr qs p f).cdf t l s j = fin b → 0 ≤ a ∧ a ≤ b ∧ b ≤ 1) := by
  have hcell : ∀ i x, thr[i]? = some (fin x) →
      (ens2probFile thr qs p f).cdf t l s i = cdf (fin x) (ens.map toXR) := by
    intro i x hi
    simp only [ens2probFile, List.getD_eq_getElem?_getD, hi, Option.getD_some, hens]
  refine ⟨rfl, ?_, ?_⟩
  · intro i x hi
    rw [hcell i x hi, C20_cdf]
  · intro i j x y a b hi hj hxy ha hb
    rw [hcell i x hi] at ha
    rw [hcell j y hj] at hb
    exact ⟨(C20_cdf_bounds x ens a ha).1, C20_cdf_mono x y hxy ens a b ha hb,
      (C20_cdf_bounds y ens b hb).2⟩

/-- **The x slice stored at index i belongs to the level stored at index i**, whatever the order of
the `-q` list: for a complete ensemble (M ≥ 2) and levels in [0,1], slice `i` is member
⌊q·(M−1)⌋ of the ascending ensemble for `q = qs[i]`, and read against the level coordinate the
values never decrease with the level and are members of the ensemble. -/
theorem C20_quantile_file (thr qs : Vec) (p : Bool) (f : VFile) (t l s : Nat) (ens : List Rat)
    (hens : f.member t l s = ens.map fin) (hM : 2 ≤ ens.length) :
    (ens2probFile thr qs p f).quantiles = qs
    ∧ (∀ i q, qs[i]? = some (fin q) → 0 ≤ q → q ≤ 1 →
        (ens2probFile thr qs p f).x t l s i = toXR (Spec.Scripts.quantileSorted q (sortR ens)))
    ∧ (∀ i j q q', qs[i]? = some (fin q) → qs[j]? = some (fin q') → 0 ≤ q → q ≤ q' → q' ≤ 1 →
        ∃ a b, (ens2probFile thr qs p f).x t l s i = fin a
          ∧ (ens2probFile thr qs p f).x t l s j = fin b ∧ a ≤ b ∧ a ∈ ens ∧ b ∈ ens) := by
  have hcell : ∀ i q, qs[i]? = some (fin q) →
      (ens2probFile thr qs p f).x t l s i = quantile (fin q) (ens.map fin) := by
    intro i q hi
    simp only [ens2probFile, List.getD_eq_getElem?_getD, hi, Option.getD_some, hens]
  refine ⟨rfl, ?_, ?_⟩
  · intro i q hi h0 h1
    rw [hcell i q hi, C20_quantile_def ens hM q h0 h1]
  · intro i j q q' hi hj h0 hqq h1
    obtain ⟨a, b, ha, hb, hab, hma, hmb, _⟩ := C20_quantile ens hM q q' h0 hqq h1
    exact ⟨a, b, by rw [hcell i q hi, ha], by rw [hcell j q' hj, hb], hab, hma, hmb⟩

/-- non-vacuity: `-r 5,1,3 -q 1,1/4` on one cell with members 3, 4, 5, 9 -/
example :
    let f : VFile := ⟨"T", "K", [0], [0], [fin 1], [fin 0], [fin 0], [fin 0], none, none, 4,
      fun _ _ _ m => [fin 3, fin 4, fin 5, fin 9].getD m nan⟩
    let o := ens2probFile [fin 5, fin 1, fin 3] [fin 1, fin (1/4)] false f
    o.thresholds = [fin 5, fin 1, fin 3]
    ∧ [o.cdf 0 0 0 0, o.cdf 0 0 0 1, o.cdf 0 0 0 2] = [fin (1/2), fin 0, fin 0]
    ∧ [o.x 0 0 0 0, o.x 0 0 0 1] = [fin 9, fin 3] := by
  decide +kernel

/-! ### expandverif -/

/-- every stored pair as (valid time, observation at location s), in file order: times outer
(row k, k+1, … of the field), lead times inner -/
def storedFrom (k : Nat) (ileads : List Rat) (obs : Arr3) (s : Nat) : List Int → List (Rat × XR)
  | [] => []
  | t :: ts =>
    (ileads.zipIdx.map fun x => ((t : Rat) + 3600 * x.1, obs.cell k x.2 s))
      ++ storedFrom (k + 1) ileads obs s ts

private theorem firstIdx_append {α : Type} (p : α → Bool) (A B : List α) :
    firstIdx p (A ++ B) = match firstIdx p A with
      | some i => some i
      | none => (firstIdx p B).map (· + A.length) := by
  induction A with
  | nil => simp [firstIdx]
  | cons a as ih =>
    simp only [List.cons_append, firstIdx]
    split
    · rfl
    · rw [ih]
      cases firstIdx p as with
      | none =>
        simp only [Option.map_none, Option.map_map, List.length_cons]
        congr 1
      | some i => rfl

private theorem firstIdx_lt {α : Type} (p : α → Bool) (A : List α) (i : Nat)
    (h : firstIdx p A = some i) : i < A.length := by
  induction A generalizing i with
  | nil => simp [firstIdx] at h
  | cons a as ih =>
    simp only [firstIdx] at h
    split at h
    · cases h; simp
    · cases h2 : firstIdx p as with
      | none => simp [h2] at h
      | some j =>
        simp only [h2, Option.map_some, Option.some.injEq] at h
        subst h
        have := ih j h2
        simp; omega

private theorem block_find (p : Rat → Bool) (g : Rat → Rat) (c : Nat → XR) (l : List Rat) (m : Nat) :
    (((l.zipIdx m).map fun x => (g x.1, c x.2)).find? fun pr => p pr.1).map (·.2)
      = (firstIdx p (l.map g)).map fun i => c (m + i) := by
  induction l generalizing m with
  | nil => rfl
  | cons a as ih =>
    simp only [List.zipIdx_cons, List.map_cons, List.find?_cons, firstIdx]
    cases hp : p (g a) with
    | true => simp
    | false =>
      simp only [Bool.false_eq_true, if_false, ih (m + 1), Option.map_map]
      congr 1
      funext i
      simp only [Function.comp]
      congr 1
      omega

private theorem expand_eq (L : List (Rat × XR)) (tgt : Rat) :
    Spec.Scripts.expand L tgt = ((L.find? fun pr => decide (pr.1 = tgt)).map (·.2)).getD nan := by
  unfold Spec.Scripts.expand
  cases L.find? fun pr => decide (pr.1 = tgt) <;> rfl

private theorem expand_from (ileads : List Rat) (hL : 0 < ileads.length) (obs : Arr3) (s : Nat)
    (tgt : Rat) (k : Nat) (ts : List Int) :
    (match firstIdx (fun v => decide (v = tgt)) (allTimes ts ileads) with
      | some i => obs.cell (k + i / ileads.length) (i % ileads.length) s
      | none => nan) = Spec.Scripts.expand (storedFrom k ileads obs s ts) tgt := by
  induction ts generalizing k with
  | nil => simp [allTimes, firstIdx, storedFrom, Spec.Scripts.expand]
  | cons t ts ih =>
    have hall : allTimes (t :: ts) ileads
        = ileads.map (fun l => (t : Rat) + 3600 * l) ++ allTimes ts ileads := by
      simp only [allTimes, List.flatMap_cons]
      congr 1
      apply List.map_congr_left
      intro l _
      ring
    have hb := block_find (fun v => decide (v = tgt)) (fun l => (t : Rat) + 3600 * l)
      (fun j => obs.cell k j s) ileads 0
    rw [hall, firstIdx_append, expand_eq]
    simp only [storedFrom, List.find?_append, Option.map_or]
    cases h : firstIdx (fun v => decide (v = tgt)) (ileads.map fun l => (t : Rat) + 3600 * l) with
    | some i =>
      have hi : i < ileads.length := by
        have := firstIdx_lt _ _ _ h
        simpa using this
      simp only [h, Option.map_some, Nat.zero_add] at hb
      simp only [hb, Option.some_or, Option.getD_some, Nat.div_eq_of_lt hi, Nat.mod_eq_of_lt hi,
        Nat.add_zero]
    | none =>
      simp only [h, Option.map_none] at hb
      simp only [hb, Option.none_or, List.length_map]
      have ih' := ih (k + 1)
      rw [expand_eq] at ih'
      rw [← ih']
      cases h2 : firstIdx (fun v => decide (v = tgt)) (allTimes ts ileads) with
      | none => rfl
      | some j =>
        simp only [Option.map_some, Nat.add_div_right j hL, Nat.add_mod_right]
        congr 1
        omega

/-- **expandverif places the observation with the matching valid time, and nothing else**: the
value written at output (initialisation time ot, lead time ol), location s, is the observation of
the first stored (t₀, l₀) — in file order — with t₀ + 3600·l₀ = ot + 3600·ol; it is missing iff no
stored pair has that valid time (see `C20_expand_nowhere_else`). -/
theorem C20_expand (itimes : List Int) (ileads : List Rat) (obs : Arr3) (ot ol : Rat) (s : Nat) :
    expandCell itimes ileads obs ot ol s
      = Spec.Scripts.expand (storedFrom 0 ileads obs s itimes) (ot + 3600 * ol) := by
  have htgt : ot + ol * 3600 = ot + 3600 * ol := by ring
  unfold expandCell
  rw [htgt]
  by_cases hL : ileads.length = 0
  · have : ileads = [] := List.length_eq_zero_iff.mp hL
    subst this
    have h2 : ∀ (ts : List Int) (k : Nat), storedFrom k [] obs s ts = [] := by
      intro ts
      induction ts with
      | nil => intro k; rfl
      | cons t ts ih => intro k; simp [storedFrom, ih]
    have h1 : allTimes itimes [] = [] := by simp [allTimes]
    simp [h1, h2, firstIdx, Spec.Scripts.expand]
  · have := expand_from ileads (Nat.pos_of_ne_zero hL) obs s (ot + 3600 * ol) 0 itimes
    rw [← this]
    cases firstIdx (fun v => decide (v = ot + 3600 * ol)) (allTimes itimes ileads) with
    | none => rfl
    | some i => simp

/-- nowhere else: if no stored (time, lead time) has the requested valid time, the cell is missing -/
theorem C20_expand_nowhere_else (itimes : List Int) (ileads : List Rat) (obs : Arr3) (ot ol : Rat)
    (s : Nat) (h : ∀ pr ∈ storedFrom 0 ileads obs s itimes, pr.1 ≠ ot + 3600 * ol) :
    expandCell itimes ileads obs ot ol s = nan := by
  rw [C20_expand, Spec.Scripts.expand]
  have : (storedFrom 0 ileads obs s itimes).find? (fun p => decide (p.1 = ot + 3600 * ol)) = none := by
    apply List.find?_eq_none.mpr
    intro pr hpr
    simpa using h pr hpr
  rw [this]

/-- non-vacuity: two stored times x two lead times, one location; valid time 86400 is stored twice,
the first stored pair wins; valid time 7 is not stored -/
example :
    let obs : Arr3 := ⟨2, 2, 1, fun t l _ => fin ((t : Rat) * 10 + l)⟩
    expandCell [86400, 43200] [0, 12] obs 0 24 0 = fin 0
    ∧ expandCell [43200, 86400] [0, 12] obs 0 24 0 = fin 1
    ∧ expandCell [43200, 86400] [0, 12] obs 0 7 0 = nan := by
  refine ⟨by decide +kernel, by decide +kernel, by decide +kernel⟩

private theorem insertUniq_mem (x y : Int) (l : List Int) :
    y ∈ insertUniq x l ↔ y = x ∨ y ∈ l := by
  induction l with
  | nil => simp [insertUniq]
  | cons z zs ih =>
    simp only [insertUniq]
    split
    · simp only [List.mem_cons]
    · split
      · rename_i h; subst h; simp only [List.mem_cons]; tauto
      · simp only [List.mem_cons, ih]; tauto

private theorem insertUniq_sorted (x : Int) (l : List Int) (h : l.Pairwise (· < ·)) :
    (insertUniq x l).Pairwise (· < ·) := by
  induction l with
  | nil => simp [insertUniq]
  | cons y ys ih =>
    simp only [insertUniq]
    rw [List.pairwise_cons] at h
    split
    · rename_i hxy
      rw [List.pairwise_cons]
      refine ⟨?_, List.pairwise_cons.mpr h⟩
      intro z hz
      rcases List.mem_cons.mp hz with rfl | hz
      · exact hxy
      · exact lt_trans hxy (h.1 z hz)
    · split
      · exact List.pairwise_cons.mpr h
      · rename_i h1 h2
        rw [List.pairwise_cons]
        refine ⟨?_, ih h.2⟩
        intro z hz
        rcases (insertUniq_mem x z ys).mp hz with rfl | hz
        · omega
        · exact h.1 z hz

theorem uniqueSorted_mem (y : Int) (l : List Int) : y ∈ uniqueSorted l ↔ y ∈ l := by
  induction l with
  | nil => simp [uniqueSorted]
  | cons z zs ih =>
    simp only [uniqueSorted, List.foldr_cons] at ih ⊢
    rw [insertUniq_mem, ih, List.mem_cons]

theorem uniqueSorted_sorted (l : List Int) : (uniqueSorted l).Pairwise (· < ·) := by
  induction l with
  | nil => simp [uniqueSorted]
  | cons z zs ih =>
    simp only [uniqueSorted, List.foldr_cons] at ih ⊢
    exact insertUniq_sorted z _ ih

/-- **Requested initialisation times**: the output times are exactly the whole days (00 UTC) of
the input's times shifted by each `-i` hour — each day once per hour (days strictly ascending). -/
theorem C20_expand_times (itimes : List Int) (inits : List Rat) (x : Rat) :
    (x ∈ expandTimes itimes inits ↔
      ∃ h ∈ inits, ∃ t ∈ itimes, x = ((wholeDay t : Int) : Rat) + h * 3600)
    ∧ (uniqueSorted (itimes.map wholeDay)).Pairwise (· < ·) := by
  refine ⟨?_, uniqueSorted_sorted _⟩
  simp only [expandTimes, List.mem_flatMap, List.mem_map, uniqueSorted_mem]
  constructor
  · rintro ⟨h, hh, d, ⟨t, ht, rfl⟩, rfl⟩
    exact ⟨h, hh, t, ht, rfl⟩
  · rintro ⟨h, hh, t, ht, rfl⟩
    exact ⟨h, hh, wholeDay t, ⟨t, ht, rfl⟩, rfl⟩

/-! ### what the scripts leave alone -/

/-- **accumulate on a file, any combination of fields**: whenever the script finishes, each of obs and
fcst is absent in the output iff it is absent in the input, and a field that is present is the
accumulation (`accumulate3`, characterised by `C20_accumulate_axis`) of the input field; all other
content is copied.  No hypothesis that both fields are present. -/
theorem C20_accumulate_file (axis : Axis) (w : Option Nat) (ign : Bool) (f g : VFile)
    (h : accumulateFile axis w ign f = some g) :
    ((f.obs = none → g.obs = none) ∧
      ∀ a, f.obs = some a → ∃ b, g.obs = some b ∧ accumulate3 axis w ign a = some b) ∧
    ((f.fcst = none → g.fcst = none) ∧
      ∀ a, f.fcst = some a → ∃ b, g.fcst = some b ∧ accumulate3 axis w ign a = some b) ∧
    g.name = f.name ∧ g.units = f.units ∧ g.times = f.times ∧ g.leads = f.leads ∧ g.ids = f.ids
      ∧ g.lats = f.lats ∧ g.lons = f.lons ∧ g.elevs = f.elevs := by
  have key : ∀ (x : Option Arr3) (y : Option Arr3), accumulateField axis w ign x = some y →
      (x = none → y = none) ∧ ∀ a, x = some a → ∃ b, y = some b ∧ accumulate3 axis w ign a = some b := by
    intro x y hxy
    cases x with
    | none => simp [accumulateField] at hxy; simp [← hxy]
    | some a =>
      simp only [accumulateField, Option.map_eq_some_iff] at hxy
      obtain ⟨b, hb, rfl⟩ := hxy
      exact ⟨by simp, fun a' ha' => ⟨b, rfl, by cases ha'; exact hb⟩⟩
  unfold accumulateFile at h
  split at h
  · rename_i o' fc' ho' hf'
    cases h
    exact ⟨key _ _ ho', key _ _ hf', rfl, rfl, rfl, rfl, rfl, rfl, rfl, rfl⟩
  · cases h

/-- the length of the accumulation axis of a field -/
def axisLen : Axis → Arr3 → Nat
  | .leadtime, a => a.L
  | .time, a => a.T

/-- the script finishes on a file without fcst (and without obs) whenever the window fits; the recorded
witness `acc leadtime 2 0 … obs=1,2,3 fcst=none`, which used to crash, gives obs = nan,3,5 and no fcst -/
theorem C20_accumulate_file_total (axis : Axis) (w : Option Nat) (ign : Bool) (f : VFile)
    (ho : ∀ a, f.obs = some a → windowTooLong w (axisLen axis a) = false)
    (hf : ∀ a, f.fcst = some a → windowTooLong w (axisLen axis a) = false) :
    ∃ g, accumulateFile axis w ign f = some g := by
  have key : ∀ (x : Option Arr3),
      (∀ a, x = some a → windowTooLong w (axisLen axis a) = false) →
      ∃ y, accumulateField axis w ign x = some y := by
    intro x hx
    cases x with
    | none => exact ⟨none, rfl⟩
    | some a =>
      have := hx a rfl
      cases axis <;> simp_all [accumulateField, accumulate3, axisLen]
  obtain ⟨o', ho'⟩ := key f.obs ho
  obtain ⟨fc', hf'⟩ := key f.fcst hf
  exact ⟨{ f with obs := o', fcst := fc' }, by simp [accumulateFile, ho', hf']⟩

example :
    let f : VFile := ⟨"T", "K", [0], [0, 1, 2], [fin 1], [fin 0], [fin 0], [fin 0],
      some ⟨1, 3, 1, fun _ l _ => [fin 1, fin 2, fin 3].getD l nan⟩, none, 0, fun _ _ _ _ => nan⟩
    ∃ g, accumulateFile .leadtime (some 2) false f = some g ∧ g.fcst = none ∧
      ∃ b, g.obs = some b ∧ [b.cell 0 0 0, b.cell 0 1 0, b.cell 0 2 0] = [nan, fin 3, fin 5] := by
  refine ⟨_, rfl, rfl, _, rfl, ?_⟩
  decide +kernel

/-- **window on a file, any combination of fields**: the script always finishes; each of obs and fcst
is absent in the output iff it is absent in the input, a field that is present is turned into windows
(`window3`) with the dimensions unchanged, and all other content is copied.  No hypothesis that both
fields are present (the script used to crash on such a file). -/
theorem C20_window_file (I : Interval) (f : VFile) :
    ((f.obs = none → (windowFile I f).obs = none) ∧
      ∀ a, f.obs = some a → (windowFile I f).obs = some (window3 I (f.leads.map XR.fin) a)) ∧
    ((f.fcst = none → (windowFile I f).fcst = none) ∧
      ∀ a, f.fcst = some a → (windowFile I f).fcst = some (window3 I (f.leads.map XR.fin) a)) ∧
    (∀ leads a, (window3 I leads a).T = a.T ∧ (window3 I leads a).L = a.L ∧ (window3 I leads a).S = a.S) ∧
    (windowFile I f).name = f.name ∧ (windowFile I f).units = f.units ∧ (windowFile I f).times = f.times
      ∧ (windowFile I f).leads = f.leads ∧ (windowFile I f).ids = f.ids ∧ (windowFile I f).lats = f.lats
      ∧ (windowFile I f).lons = f.lons ∧ (windowFile I f).elevs = f.elevs := by
  refine ⟨⟨?_, ?_⟩, ⟨?_, ?_⟩, fun _ _ => ⟨rfl, rfl, rfl⟩, rfl, rfl, rfl, rfl, rfl, rfl, rfl, rfl⟩ <;>
    simp +contextual [windowFile]

/-- a file with obs only (`win below= 0 … leads 0,1,2 obs=0,0,1 fcst=none`), which used to crash: the
dry spell lengths are 2,1,0 and no fcst is written -/
example :
    let f : VFile := ⟨"T", "K", [0], [0, 1, 2], [fin 1], [fin 0], [fin 0], [fin 0],
      some ⟨1, 3, 1, fun _ l _ => [fin 0, fin 0, fin 1].getD l nan⟩, none, 0, fun _ _ _ _ => nan⟩
    let g := windowFile ⟨ninf, fin 0, false, true⟩ f
    g.fcst = none ∧
      ∃ b, g.obs = some b ∧ [b.cell 0 0 0, b.cell 0 1 0, b.cell 0 2 0] = [fin 2, fin 1, fin 0] := by
  refine ⟨rfl, _, rfl, ?_⟩
  decide +kernel

/-- **Preservation** (structural): accumulate and window copy name, units, times, lead times and
location metadata and keep the dimensions of both fields; ens2prob copies the whole input
(including obs and fcst) next to the requested thresholds and levels; expandverif copies name,
units and location metadata and writes the requested lead times. -/
theorem C20_preserve :
    (∀ axis w ign (f g : VFile), accumulateFile axis w ign f = some g →
      g.name = f.name ∧ g.units = f.units ∧ g.times = f.times ∧ g.leads = f.leads ∧ g.ids = f.ids
      ∧ g.lats = f.lats ∧ g.lons = f.lons ∧ g.elevs = f.elevs
      ∧ (g.obs.map fun a => (a.T, a.L, a.S)) = (f.obs.map fun a => (a.T, a.L, a.S))
      ∧ (g.fcst.map fun a => (a.T, a.L, a.S)) = (f.fcst.map fun a => (a.T, a.L, a.S)))
    ∧ (∀ I (f g : VFile), windowFile I f = g →
      g.name = f.name ∧ g.units = f.units ∧ g.times = f.times ∧ g.leads = f.leads ∧ g.ids = f.ids
      ∧ g.lats = f.lats ∧ g.lons = f.lons ∧ g.elevs = f.elevs
      ∧ (g.obs.map fun a => (a.T, a.L, a.S)) = (f.obs.map fun a => (a.T, a.L, a.S))
      ∧ (g.fcst.map fun a => (a.T, a.L, a.S)) = (f.fcst.map fun a => (a.T, a.L, a.S)))
    ∧ (∀ thr qs p (f : VFile), (ens2probFile thr qs p f).base = f
      ∧ (ens2probFile thr qs p f).thresholds = thr ∧ (ens2probFile thr qs p f).quantiles = qs)
    ∧ (∀ inits oleads (f : VFile) (g : ExpandFile), expandFile inits oleads f = some g →
      g.name = f.name ∧ g.units = f.units ∧ g.leads = oleads ∧ g.ids = f.ids ∧ g.lats = f.lats
      ∧ g.lons = f.lons ∧ g.elevs = f.elevs ∧ g.times = expandTimes f.times inits
      ∧ g.obs.T = g.times.length ∧ g.obs.L = oleads.length) := by
  refine ⟨?_, ?_, ?_, ?_⟩
  · intro axis w ign f g h
    obtain ⟨ho, hf, rest⟩ := C20_accumulate_file axis w ign f g h
    refine ⟨rest.1, rest.2.1, rest.2.2.1, rest.2.2.2.1, rest.2.2.2.2.1, rest.2.2.2.2.2.1,
      rest.2.2.2.2.2.2.1, rest.2.2.2.2.2.2.2, ?_, ?_⟩
    · cases hfo : f.obs with
      | none => simp [(ho.1 hfo)]
      | some a =>
        obtain ⟨b, hb, hacc⟩ := ho.2 a hfo
        have d := C20_accumulate_axis axis w ign a b hacc
        simp [hb, d.1, d.2.1, d.2.2.1]
    · cases hff : f.fcst with
      | none => simp [(hf.1 hff)]
      | some a =>
        obtain ⟨b, hb, hacc⟩ := hf.2 a hff
        have d := C20_accumulate_axis axis w ign a b hacc
        simp [hb, d.1, d.2.1, d.2.2.1]
  · intro I f g h
    subst h
    refine ⟨rfl, rfl, rfl, rfl, rfl, rfl, rfl, rfl, ?_, ?_⟩
    · cases hfo : f.obs <;> simp [windowFile, window3, hfo]
    · cases hff : f.fcst <;> simp [windowFile, window3, hff]
  · intro thr qs p f
    exact ⟨rfl, rfl, rfl⟩
  · intro inits oleads f g h
    unfold expandFile at h
    split at h
    · cases h
    · cases h; exact ⟨rfl, rfl, rfl, rfl, rfl, rfl, rfl, rfl, rfl, rfl⟩

end VerifModel.C20
