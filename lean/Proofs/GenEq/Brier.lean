import Proofs.Lemmas.Vec
import Mathlib.Tactic.Positivity
import VerifModel.Gen.Brier
import VerifModel.Model.BrierGen
/-
  GenEq (C08): the loops over probability bins of BsRel / BsRes / BssRel / BssRes, machine-translated
  from /repo on every run as a fold over the bin numbers (Gen/Brier.lean), compute the hand-written
  model of Model/Prob.lean (`bsrel`, `bsres`, `bssrel`, `bssres`: every case looks up the ONE bin that
  holds its forecast) — for all vectors, no hypothesis on lengths or values.  The C08 theorems
  (`C08_def_bsrel`, `C08_decomposition`, …) are about those models.

  Shape of the proof: the loop carries an array that is always `map h fcst` for some `h`; one pass of
  the body turns `h` into `fun x => if x in bin i then <value of bin i> else h x` (`fold_eq`), and
  because the bins are disjoint the last bin that holds x is the first one (`H_find`).
-/
namespace VerifModel.GenEq.Brier
open VerifModel XR Prob
set_option linter.unusedSimpArgs false
set_option linter.unusedVariables false
set_option linter.unusedTactic false
set_option linter.unreachableTactic false
set_option linter.unnecessarySeqFocus false

/-- the test of bin `i` on one forecast, the edges given as a list -/
def cE (edges : List XR) (i : Nat) (x : XR) : Bool :=
  XR.ge x (edges.getD i .nan) && XR.lt x (edges.getD (i + 1) .nan)

theorem zipWith_map_same {α β γ δ : Type} (f : β → γ → δ) (a : α → β) (b : α → γ) (l : List α) :
    List.zipWith f (l.map a) (l.map b) = l.map (fun x => f (a x) (b x)) := by
  induction l with
  | nil => rfl
  | cons x xs ih => simp only [List.map_cons, List.zipWith_cons_cons, ih]

theorem mask_eq (edges : List XR) (i : Nat) (p : Vec) :
    List.zipWith (fun x y => x && y) (Vec.cmpS XR.ge p (edges.getD i .nan))
      (Vec.cmpS XR.lt p (edges.getD (i + 1) .nan)) = List.map (cE edges i) p := by
  unfold Vec.cmpS
  rw [zipWith_map_same]
  rfl

/-- the same mask with the two comparisons written in the other order -/
theorem mask_eq' (edges : List XR) (i : Nat) (p : Vec) :
    List.zipWith (fun x y => x && y) (Vec.cmpS XR.lt p (edges.getD (i + 1) .nan))
      (Vec.cmpS XR.ge p (edges.getD i .nan)) = List.map (cE edges i) p := by
  unfold Vec.cmpS
  rw [zipWith_map_same]
  apply List.map_congr_left
  intro x _
  simp only [cE, Bool.and_comm]

theorem take_self (c : XR → Bool) (f : XR → XR) (p : Vec) :
    MA.take (List.map c p) (List.map f p) = List.map f (List.filter c p) := by
  induction p with
  | nil => rfl
  | cons x xs ih =>
    simp only [List.map_cons, List.filter_cons]
    cases h : c x <;> simp [MA.take, ih]

theorem take_zip (c : XR → Bool) (o p : Vec) :
    MA.take (List.map c p) o = List.map (·.1) (List.filter (fun q => c q.2) (List.zip o p)) := by
  induction p generalizing o with
  | nil => cases o <;> simp [MA.take]
  | cons x xs ih =>
    cases o with
    | nil => cases h : c x <;> simp [MA.take, h]
    | cons y ys =>
      simp only [List.map_cons, List.zip_cons_cons, List.filter_cons]
      cases h : c x <;> simp [MA.take, ih]

theorem put_eq (c : XR → Bool) (g h : XR → XR) (p : Vec) :
    MA.put (List.map h p) (List.map c p) (List.map g (List.filter c p))
      = List.map (fun x => if c x then g x else h x) p := by
  induction p with
  | nil => simp [MA.put]
  | cons x xs ih =>
    simp only [List.map_cons, List.filter_cons]
    cases hc : c x <;> simp [MA.put, ih, hc]

theorem putS_eq (c : XR → Bool) (s : XR) (h : XR → XR) (p : Vec) :
    MA.putS (List.map h p) (List.map c p) s = List.map (fun x => if c x then s else h x) p := by
  induction p with
  | nil => simp [MA.putS]
  | cons x xs ih => simp [MA.putS, ih]

theorem filter_id_map (c : XR → Bool) (p : Vec) :
    ((List.map c p).filter id).length = (p.filter c).length := by
  induction p with
  | nil => rfl
  | cons x xs ih => simp only [List.map_cons, List.filter_cons, id]; cases c x <;> simp [ih]

theorem count_pos (c : XR → Bool) (p : Vec) :
    XR.gt (Vec.countTrue (List.map c p)) (fin 0) = p.any c := by
  simp only [Vec.countTrue, filter_id_map, XR.ofNat, XR.gt, XR.lt]
  induction p with
  | nil => simp
  | cons x xs ih =>
    simp only [List.filter_cons, List.any_cons]
    cases hc : c x
    · simpa using ih
    · have : (0 : Rat) < ((xs.filter c).length : Rat) + 1 := by positivity
      simp [this]

theorem count_ge_one (c : XR → Bool) (p : Vec) :
    XR.ge (Vec.countTrue (List.map c p)) (fin 1) = p.any c := by
  simp only [Vec.countTrue, filter_id_map, XR.ofNat, XR.ge, XR.le]
  induction p with
  | nil => simp
  | cons x xs ih =>
    simp only [List.filter_cons, List.any_cons]
    cases hc : c x
    · simpa using ih
    · simp

theorem take_same (c : XR → Bool) (p : Vec) : MA.take (List.map c p) p = List.filter c p := by
  simpa using take_self c id p

theorem no_hit (c : XR → Bool) (g h : XR → XR) (p : Vec) (hn : p.any c = false) :
    List.map (fun x => if c x then g x else h x) p = List.map h p := by
  apply List.map_congr_left
  intro x hx
  have : c x = false := by
    cases hc : c x
    · rfl
    · exact absurd (List.any_eq_true.mpr ⟨x, hx, hc⟩) (by simp [hn])
  simp [this]

/-- the array after `n` passes of the loop, as a function of one forecast value -/
def H (c : Nat → XR → Bool) (g : Nat → XR → XR) (h0 : XR → XR) : Nat → XR → XR
  | 0, x => h0 x
  | n + 1, x => if c n x then g n x else H c g h0 n x

theorem fold_eq (c : Nat → XR → Bool) (g : Nat → XR → XR) (h0 : XR → XR) (p : Vec) (step : Vec → Nat → Vec)
    (hstep : ∀ (h : XR → XR) (i : Nat),
      step (List.map h p) i = List.map (fun x => if c i x then g i x else h x) p) (n : Nat) :
    List.foldl step (List.map h0 p) (List.range n) = List.map (H c g h0 n) p := by
  induction n with
  | zero => rfl
  | succ n ih =>
    rw [List.range_succ, List.foldl_append, ih]
    simp only [List.foldl_cons, List.foldl_nil, hstep]
    rfl

theorem H_congr (c c' : Nat → XR → Bool) (g g' : Nat → XR → XR) (h0 : XR → XR) (n : Nat)
    (hc : ∀ i, i < n → c i = c' i) (hg : ∀ i, i < n → g i = g' i) : H c g h0 n = H c' g' h0 n := by
  induction n with
  | zero => rfl
  | succ n ih =>
    funext x
    simp only [H, hc n (Nat.lt_succ_self n), hg n (Nat.lt_succ_self n),
      ih (fun i hi => hc i (Nat.lt_succ_of_lt hi)) (fun i hi => hg i (Nat.lt_succ_of_lt hi))]

/-- disjoint bins: the last bin that holds x is the first one -/
theorem H_find (c : Nat → XR → Bool) (g : Nat → XR → XR) (h0 : XR → XR) (n : Nat) (x : XR)
    (hd : ∀ i j, i < j → j < n → c i x = true → c j x = false) :
    H c g h0 n x = (match (List.range n).find? (fun i => c i x) with
      | none => h0 x
      | some i => g i x) := by
  induction n with
  | zero => rfl
  | succ n ih =>
    have ih' := ih (fun i j hij hj => hd i j hij (Nat.lt_succ_of_lt hj))
    rw [List.range_succ, List.find?_append]
    cases hn : c n x with
    | false => simp [H, hn, ih']
    | true =>
      have hnone : (List.range n).find? (fun i => c i x) = none := by
        rw [List.find?_eq_none]
        intro i hi
        have hi' : i < n := List.mem_range.mp hi
        cases hci : c i x
        · simp
        · have := hd i n hi' (Nat.lt_succ_self n) hci
          simp [hn] at this
      simp [H, hn, hnone]

/-! ### the model's edges -/

theorem edges_length : edgesList.length - 1 = numBins := by simp [edgesList]

theorem edges_getD : ∀ i, i < 11 → edgesList.getD i .nan = fin (edgeQ i) := by decide +kernel

theorem cE_inBin (i : Nat) (hi : i < numBins) : cE edgesList i = inBin i := by
  funext x
  have h10 : numBins = 10 := rfl
  simp only [cE, inBin, edges_getD i (by omega), edges_getD (i + 1) (by omega)]

theorem inBin_disjoint (x : XR) (i j : Nat) (hij : i < j) (hj : j < numBins) (h : inBin i x = true) :
    inBin j x = false := by
  have h10 : numBins = 10 := rfl
  cases x with
  | fin q =>
    have e1 : edgeQ (i + 1) = ((i + 1 : Nat) : Rat) / 10 := by simp [edgeQ]; omega
    have e2 : edgeQ j = (j : Rat) / 10 := by simp [edgeQ]; omega
    simp only [inBin, XR.ge, XR.le, XR.lt, Bool.and_eq_true, decide_eq_true_eq, e1] at h
    simp only [inBin, XR.ge, XR.le, XR.lt, e2, Bool.and_eq_false_iff, decide_eq_false_iff_not, not_le]
    left
    have : ((i + 1 : Nat) : Rat) ≤ (j : Rat) := by exact_mod_cast hij
    have : ((i + 1 : Nat) : Rat) / 10 ≤ (j : Rat) / 10 := by linarith
    linarith [h.2]
  | pinf => simp [inBin, XR.ge, XR.le, XR.lt] at h
  | ninf => simp [inBin, XR.ge, XR.le, XR.lt] at h
  | nan => simp [inBin, XR.ge, XR.le, XR.lt] at h

/-- the looked-up form of the model from the folded form -/
theorem H_model (g : Nat → XR → XR) (x : XR) :
    H (cE edgesList) g (fun _ => XR.nan) numBins x = (match binIdx x with
      | none => XR.nan
      | some i => g i x) := by
  rw [H_congr (cE edgesList) inBin g g _ numBins (fun i hi => cE_inBin i hi) (fun _ _ => rfl)]
  exact H_find inBin g _ numBins x (fun i j hij hj h => inBin_disjoint x i j hij hj h)

theorem init_eq (p : Vec) :
    Vec.sMul XR.nan (List.replicate (List.length p) (XR.fin 0)) = List.map (fun _ => XR.nan) p := by
  simp only [Vec.sMul]
  induction p with
  | nil => rfl
  | cons x xs ih => simpa [List.replicate_succ] using ih

theorem obs_mean_eq (i : Nat) (hi : i < numBins) (o p : Vec) :
    Vec.mean (MA.take (List.map (cE edgesList i) p) o) = binObsMean i o p := by
  rw [take_zip, cE_inBin i hi]; rfl

/-- one pass of the loop body, `bs[I] = <array over the selected cases>` -/
theorem step_put (c : Nat → XR → Bool) (gv : Nat → XR → XR) (p : Vec) (h : XR → XR) (i : Nat) :
    (if p.any (c i) = true then
        MA.put (List.map h p) (List.map (c i) p) (List.map (gv i) (MA.take (List.map (c i) p) p))
      else List.map h p) = List.map (fun x => if c i x then gv i x else h x) p := by
  simp only [take_same]
  cases hany : List.any p (c i)
  · simp only [Bool.false_eq_true, if_false]
    exact (no_hit _ _ h _ hany).symm
  · simp only [if_true]
    exact put_eq _ _ h _

/-- one pass of the loop body, `bs[I] = <scalar>` -/
theorem step_putS (c : Nat → XR → Bool) (sv : Nat → XR) (p : Vec) (h : XR → XR) (i : Nat) :
    (if p.any (c i) = true then
        MA.putS (List.map h p) (List.map (c i) p) (sv i)
      else List.map h p) = List.map (fun x => if c i x then sv i else h x) p := by
  cases hany : List.any p (c i)
  · simp only [Bool.false_eq_true, if_false]
    exact (no_hit _ (fun _ => sv i) h _ hany).symm
  · simp only [if_true]
    exact putS_eq _ _ h _

/-- the value the reliability loop stores for a case in bin `i` -/
def relVal (o p : Vec) (i : Nat) (x : XR) : XR :=
  XR.npow (x - Vec.mean (MA.take (List.map (cE edgesList i) p) o)) 2
/-- the value the resolution loop stores for every case of bin `i` -/
def resVal (o p : Vec) (i : Nat) : XR :=
  XR.npow (Vec.mean (MA.take (List.map (cE edgesList i) p) o) - Vec.mean o) 2

macro "rel_step" o:term "," p:term : tactic => `(tactic| (intro h i; (try simp only [Vec.npow, Vec.subS, List.map_map, mask_eq, mask_eq', count_pos, count_ge_one]); exact step_put (cE edgesList) (relVal $o $p) $p h i))
macro "res_step" o:term "," p:term : tactic => `(tactic| (intro h i; (try simp only [mask_eq, mask_eq', count_pos, count_ge_one]); exact step_putS (cE edgesList) (resVal $o $p) $p h i))

/-- the array after the reliability loop is the model's `relTerms` -/
theorem rel_fold (o p : Vec) (step : Vec → Nat → Vec)
    (hstep : ∀ (h : XR → XR) (i : Nat),
      step (List.map h p) i = List.map (fun x => if cE edgesList i x then relVal o p i x else h x) p) :
    List.foldl step (List.map (fun _ => XR.nan) p) (List.range numBins) = relTerms o p := by
  rw [fold_eq (cE edgesList) (relVal o p) _ p _ hstep]
  apply List.map_congr_left
  intro x _
  rw [H_model]
  cases hb : binIdx x with
  | none => rfl
  | some i =>
    have hi : i < numBins := List.mem_range.mp (List.mem_of_find?_eq_some hb)
    simp only [relVal, obs_mean_eq i hi]

/-- the array after the resolution loop is the model's `resTerms` -/
theorem res_fold (o p : Vec) (step : Vec → Nat → Vec)
    (hstep : ∀ (h : XR → XR) (i : Nat),
      step (List.map h p) i = List.map (fun x => if cE edgesList i x then resVal o p i else h x) p) :
    List.foldl step (List.map (fun _ => XR.nan) p) (List.range numBins) = resTerms o p := by
  rw [fold_eq (cE edgesList) (fun i _ => resVal o p i) _ p _ hstep]
  apply List.map_congr_left
  intro x _
  rw [H_model]
  cases hb : binIdx x with
  | none => rfl
  | some i =>
    have hi : i < numBins := List.mem_range.mp (List.mem_of_find?_eq_some hb)
    simp only [resVal, obs_mean_eq i hi]

theorem bsrel_eq (T : Tr) (o p : Vec) : Gen.Brier.m_bsrel T edgesList o p = bsrel o p := by
  simp only [Gen.Brier.m_bsrel, bsrel, init_eq, mask_eq, mask_eq', count_pos, count_ge_one, edges_length]
  rw [rel_fold o p _ (by rel_step o, p)]

theorem bsres_eq (T : Tr) (o p : Vec) : Gen.Brier.m_bsres T edgesList o p = bsres o p := by
  simp only [Gen.Brier.m_bsres, bsres, init_eq, mask_eq, mask_eq', count_pos, count_ge_one, edges_length]
  rw [res_fold o p _ (by res_step o, p)]

theorem bssrel_eq (T : Tr) (o p : Vec) : Gen.Brier.m_bssrel T edgesList o p = bssrel o p := by
  simp only [Gen.Brier.m_bssrel, bssrel, bsrel, uncOf, init_eq, mask_eq, mask_eq', count_pos, count_ge_one, edges_length]
  rw [rel_fold o p _ (by rel_step o, p)]
  first | rfl | (split_ifs <;> simp_all)

theorem bssres_eq (T : Tr) (o p : Vec) : Gen.Brier.m_bssres T edgesList o p = bssres o p := by
  simp only [Gen.Brier.m_bssres, bssres, bsres, uncOf, init_eq, mask_eq, mask_eq', count_pos, count_ge_one, edges_length]
  rw [res_fold o p _ (by res_step o, p)]
  first | rfl | (split_ifs <;> simp_all)

/-- what `__init__` stores: eleven edges, the last one the double 1.001 — the model's `numBins`, `topEdge` -/
theorem init_consts (name : String) (h : name ∈ Gen.Brier.names) :
    Gen.Brier.numEdges name = some (numBins + 1) ∧ Gen.Brier.lastEdge name = some (fin topEdge) := by
  simp only [Gen.Brier.names, List.mem_cons, List.not_mem_nil, or_false] at h
  rcases h with h | h | h | h <;> subst h <;> decide +kernel

/-- the generated loops compute: two cases in bin 2 (obs mean 1/2), one in the top bin, one outside every bin -/
example : Gen.Brier.m_bsrel ⟨fun q => q, fun _ => 0, fun _ => 0, fun q => q⟩ edgesList
    [fin 1, fin 0, fin 1, fin 0] [fin (1/4), fin (1/4), fin 1, fin 2] = fin (1/24) := by decide +kernel

end VerifModel.GenEq.Brier
