import Proofs.Lemmas.XR
import VerifModel.Gen.Cont
import VerifModel.Spec.Cont
/-
  GenEq (C06): each machine-translated `compute_from_abcd` equals the textbook
  definition in Spec/Cont.lean, for every table of natural numbers with at
  least one case.  Re-checked on every run against the regenerated Gen/Cont.lean.
-/
namespace VerifModel.GenEq.Cont
open VerifModel XR Spec.Cont
set_option linter.unusedSimpArgs false
set_option linter.unusedVariables false
set_option linter.unusedSectionVars false

theorem hN_ne (a b c d : Nat) (hN : 0 < a + b + c + d) : ((a:Rat) + b + c + d) ≠ 0 := by
  have : (0:Rat) < ((a + b + c + d : Nat) : Rat) := Nat.cast_pos.mpr hN
  push_cast at this; linarith

theorem pos_of_ne {x : Rat} (h0 : 0 ≤ x) (h : x ≠ 0) : 0 < x := lt_of_le_of_ne h0 (Ne.symm h)

/-- push `fin` outwards, expose guards -/
macro "xr_norm" : tactic => `(tactic| simp only [sdiv, slog, N, H, F, fin_add, fin_mul, fin_sub,
    eqb_fin, ofNat_eq, Nat.cast_zero, Nat.cast_ofNat, Nat.cast_one, Option.bind_eq_bind,
    Option.bind_some, Option.bind_none, Option.pure_def, fin_div, Bool.or_eq_true,
    decide_eq_true_eq, toXR, Tr.log_fin])

/-- generic closing tactic for the log-free scores -/
macro "cont_tac" hn:ident : tactic => `(tactic| (
  xr_norm
  try simp only [$hn:ident, if_false]
  try xr_norm
  try ring_nf
  try (split_ifs <;> simp_all [toXR] <;> try ring_nf)))

section
variable (T : Tr) (a b c d : Nat) (hN : 0 < a + b + c + d)
include hN

theorem a_eq : Gen.Cont.m_a T (fin a) (fin b) (fin c) (fin d) = toXR (fa_ a b c d) := by
  have hn := hN_ne a b c d hN
  simp only [Gen.Cont.m_a, fa_]; cont_tac hn
theorem b_eq : Gen.Cont.m_b T (fin a) (fin b) (fin c) (fin d) = toXR (fb_ a b c d) := by
  have hn := hN_ne a b c d hN
  simp only [Gen.Cont.m_b, fb_]; cont_tac hn
theorem c_eq : Gen.Cont.m_c T (fin a) (fin b) (fin c) (fin d) = toXR (fc_ a b c d) := by
  have hn := hN_ne a b c d hN
  simp only [Gen.Cont.m_c, fc_]; cont_tac hn
theorem d_eq : Gen.Cont.m_d T (fin a) (fin b) (fin c) (fin d) = toXR (fd_ a b c d) := by
  have hn := hN_ne a b c d hN
  simp only [Gen.Cont.m_d, fd_]; cont_tac hn
theorem n_eq : Gen.Cont.m_n T (fin a) (fin b) (fin c) (fin d) = toXR (n a b c d) := by
  have hn := hN_ne a b c d hN
  simp only [Gen.Cont.m_n, n]; xr_norm
theorem ets_eq : Gen.Cont.m_ets T (fin a) (fin b) (fin c) (fin d) = toXR (ets a b c d) := by
  have hn := hN_ne a b c d hN
  simp only [Gen.Cont.m_ets, ets]; cont_tac hn
theorem fcstrate_eq :
    Gen.Cont.m_fcstrate T (fin a) (fin b) (fin c) (fin d) = toXR (fcstrate a b c d) := by
  have hn := hN_ne a b c d hN
  simp only [Gen.Cont.m_fcstrate, fcstrate]; cont_tac hn
theorem baserate_eq :
    Gen.Cont.m_baserate T (fin a) (fin b) (fin c) (fin d) = toXR (baserate a b c d) := by
  have hn := hN_ne a b c d hN
  simp only [Gen.Cont.m_baserate, baserate]; cont_tac hn
theorem pc_eq : Gen.Cont.m_pc T (fin a) (fin b) (fin c) (fin d) = toXR (pc a b c d) := by
  have hn := hN_ne a b c d hN
  simp only [Gen.Cont.m_pc, pc]; cont_tac hn
theorem dscore_eq :
    Gen.Cont.m_dscore T (fin a) (fin b) (fin c) (fin d) = toXR (dscore a b c d) := by
  have hn := hN_ne a b c d hN
  simp only [Gen.Cont.m_dscore, dscore]; cont_tac hn
theorem threat_eq :
    Gen.Cont.m_threat T (fin a) (fin b) (fin c) (fin d) = toXR (threat a b c) := by
  have hn := hN_ne a b c d hN
  simp only [Gen.Cont.m_threat, threat]; cont_tac hn
theorem biasfreq_eq :
    Gen.Cont.m_biasfreq T (fin a) (fin b) (fin c) (fin d) = toXR (biasfreq a b c) := by
  have hn := hN_ne a b c d hN
  simp only [Gen.Cont.m_biasfreq, biasfreq]; cont_tac hn
theorem hss_eq : Gen.Cont.m_hss T (fin a) (fin b) (fin c) (fin d) = toXR (hss a b c d) := by
  have hn := hN_ne a b c d hN
  simp only [Gen.Cont.m_hss, hss]; cont_tac hn
theorem or_eq : Gen.Cont.m_or T (fin a) (fin b) (fin c) (fin d) = toXR (or_ a b c d) := by
  have hn := hN_ne a b c d hN
  simp only [Gen.Cont.m_or, or_]; cont_tac hn
theorem yulesq_eq :
    Gen.Cont.m_yulesq T (fin a) (fin b) (fin c) (fin d) = toXR (yulesq a b c d) := by
  have hn := hN_ne a b c d hN
  simp only [Gen.Cont.m_yulesq, yulesq]; cont_tac hn
theorem kss_eq : Gen.Cont.m_kss T (fin a) (fin b) (fin c) (fin d) = toXR (kss a b c d) := by
  have hn := hN_ne a b c d hN
  simp only [Gen.Cont.m_kss, kss]; cont_tac hn
theorem hit_eq : Gen.Cont.m_hit T (fin a) (fin b) (fin c) (fin d) = toXR (hit a c) := by
  have hn := hN_ne a b c d hN
  simp only [Gen.Cont.m_hit, hit]; cont_tac hn
theorem miss_eq : Gen.Cont.m_miss T (fin a) (fin b) (fin c) (fin d) = toXR (miss a c) := by
  have hn := hN_ne a b c d hN
  simp only [Gen.Cont.m_miss, miss]; cont_tac hn
theorem fa_eq : Gen.Cont.m_fa T (fin a) (fin b) (fin c) (fin d) = toXR (fa b d) := by
  have hn := hN_ne a b c d hN
  simp only [Gen.Cont.m_fa, fa]; cont_tac hn
theorem far_eq : Gen.Cont.m_far T (fin a) (fin b) (fin c) (fin d) = toXR (far a b) := by
  have hn := hN_ne a b c d hN
  simp only [Gen.Cont.m_far, far]; cont_tac hn

/-! ### the logarithm-based scores (for every `Tr`) -/

macro "xr_norm'" : tactic => `(tactic| simp only [sdiv, slog, N, H, F, fin_add, fin_mul, fin_sub,
    eqb_fin, ofNat_eq, Nat.cast_zero, Nat.cast_ofNat, Nat.cast_one, Option.bind_eq_bind,
    Option.bind_some, Option.bind_none, Option.pure_def, fin_div, Bool.or_eq_true,
    decide_eq_true_eq, toXR])

macro "log_close" : tactic => `(tactic| (
  simp only [*, Tr.log_fin_pos, if_true, if_false, or_self, or_false, false_or, Option.bind_some,
    fin_add, fin_sub, eqb_fin, decide_eq_true_eq, fin_div, sub_pos, sub_eq_zero]
  try ring_nf
  try (split_ifs <;> simp_all [toXR] <;> try ring_nf)))

theorem lor_eq : Gen.Cont.m_lor T (fin a) (fin b) (fin c) (fin d) = toXR (lor T a b c d) := by
  have ha : (0:Rat) ≤ a := Nat.cast_nonneg a
  have hb : (0:Rat) ≤ b := Nat.cast_nonneg b
  have hc : (0:Rat) ≤ c := Nat.cast_nonneg c
  have hd : (0:Rat) ≤ d := Nat.cast_nonneg d
  simp only [Gen.Cont.m_lor, lor, or_]
  xr_norm
  by_cases h1 : (b:Rat) * c = 0
  · simp [h1]
  · by_cases h2 : (a:Rat) * d = 0
    · simp [h1, h2]
    · have hp : 0 < (a:Rat) * d / (b * c) :=
        div_pos (pos_of_ne (mul_nonneg ha hd) h2) (pos_of_ne (mul_nonneg hb hc) h1)
      have : ¬ ((a:Rat) * d / (b * c) < 0) := not_lt.mpr hp.le
      have : ¬ ((a:Rat) * d / (b * c) = 0) := ne_of_gt hp
      simp_all

theorem edi_eq : Gen.Cont.m_edi T (fin a) (fin b) (fin c) (fin d) = toXR (edi T a b c d) := by
  have ha : (0:Rat) ≤ a := Nat.cast_nonneg a
  have hb : (0:Rat) ≤ b := Nat.cast_nonneg b
  have hc : (0:Rat) ≤ c := Nat.cast_nonneg c
  have hd : (0:Rat) ≤ d := Nat.cast_nonneg d
  simp only [Gen.Cont.m_edi, edi]
  xr_norm'
  by_cases h1 : (b:Rat) + d = 0
  · simp [h1]
  by_cases h2 : (a:Rat) + c = 0
  · simp [h1, h2]
  have hF0 : 0 ≤ (b:Rat)/(b+d) := div_nonneg hb (add_nonneg hb hd)
  have hH0 : 0 ≤ (a:Rat)/(a+c) := div_nonneg ha (add_nonneg ha hc)
  simp only [h1, h2, if_false, or_self, Option.bind_some]
  generalize (b:Rat)/(b+d) = Fv at *
  generalize (a:Rat)/(a+c) = Hv at *
  rcases eq_or_lt_of_le hF0 with hF | hF
  · subst hF; simp [Tr.log_fin]
  rcases eq_or_lt_of_le hH0 with hH | hH
  · subst hH; simp [Tr.log_fin, hF]
  have := ne_of_gt hF
  have := ne_of_gt hH
  log_close

theorem sedi_eq : Gen.Cont.m_sedi T (fin a) (fin b) (fin c) (fin d) = toXR (sedi T a b c d) := by
  have ha : (0:Rat) ≤ a := Nat.cast_nonneg a
  have hb : (0:Rat) ≤ b := Nat.cast_nonneg b
  have hc : (0:Rat) ≤ c := Nat.cast_nonneg c
  have hd : (0:Rat) ≤ d := Nat.cast_nonneg d
  simp only [Gen.Cont.m_sedi, sedi]
  xr_norm'
  by_cases h1 : (b:Rat) + d = 0
  · simp [h1]
  by_cases h2 : (a:Rat) + c = 0
  · simp [h1, h2]
  have hF0 : 0 ≤ (b:Rat)/(b+d) := div_nonneg hb (add_nonneg hb hd)
  have hH0 : 0 ≤ (a:Rat)/(a+c) := div_nonneg ha (add_nonneg ha hc)
  have hF1 : (b:Rat)/(b+d) ≤ 1 := by
    rw [div_le_one (pos_of_ne (add_nonneg hb hd) h1)]; linarith
  have hH1 : (a:Rat)/(a+c) ≤ 1 := by
    rw [div_le_one (pos_of_ne (add_nonneg ha hc) h2)]; linarith
  simp only [h1, h2, if_false, or_self, Option.bind_some]
  generalize (b:Rat)/(b+d) = Fv at *
  generalize (a:Rat)/(a+c) = Hv at *
  rcases eq_or_lt_of_le hF0 with hF | hF
  · subst hF; simp [Tr.log_fin]
  rcases eq_or_lt_of_le hH0 with hH | hH
  · subst hH; simp [Tr.log_fin, hF]
  rcases eq_or_lt_of_le hF1 with hF' | hF'
  · subst hF'; simp [Tr.log_fin, hH]
  rcases eq_or_lt_of_le hH1 with hH' | hH'
  · subst hH'; simp [Tr.log_fin, hF, hF']
  have := ne_of_gt hF
  have := ne_of_gt hH
  have := ne_of_lt hF'
  have := ne_of_lt hH'
  have : 0 < 1 - Fv := by linarith
  have : 0 < 1 - Hv := by linarith
  log_close

theorem eds_eq : Gen.Cont.m_eds T (fin a) (fin b) (fin c) (fin d) = toXR (eds T a b c d) := by
  have hn := hN_ne a b c d hN
  have ha : (0:Rat) ≤ a := Nat.cast_nonneg a
  have hb : (0:Rat) ≤ b := Nat.cast_nonneg b
  have hc : (0:Rat) ≤ c := Nat.cast_nonneg c
  have hd : (0:Rat) ≤ d := Nat.cast_nonneg d
  simp only [Gen.Cont.m_eds, eds]
  xr_norm'
  by_cases h2 : (a:Rat) + c = 0
  · simp [h2]
  have hH0 : 0 ≤ (a:Rat)/(a+c) := div_nonneg ha (add_nonneg ha hc)
  have hp0 : 0 ≤ ((a:Rat)+c)/(a+b+c+d) := div_nonneg (add_nonneg ha hc) (by linarith)
  simp only [h2, hn, if_false, or_self, Option.bind_some]
  generalize ((a:Rat)+c)/(a+b+c+d) = pv at *
  generalize (a:Rat)/(a+c) = Hv at *
  rcases eq_or_lt_of_le hH0 with hH | hH
  · subst hH; simp [Tr.log_fin]
  rcases eq_or_lt_of_le hp0 with hp | hp
  · subst hp; simp [Tr.log_fin, hH]
  have := ne_of_gt hp
  have := ne_of_gt hH
  log_close

theorem seds_eq : Gen.Cont.m_seds T (fin a) (fin b) (fin c) (fin d) = toXR (seds T a b c d) := by
  have hn := hN_ne a b c d hN
  have ha : (0:Rat) ≤ a := Nat.cast_nonneg a
  have hb : (0:Rat) ≤ b := Nat.cast_nonneg b
  have hc : (0:Rat) ≤ c := Nat.cast_nonneg c
  have hd : (0:Rat) ≤ d := Nat.cast_nonneg d
  simp only [Gen.Cont.m_seds, seds]
  xr_norm'
  by_cases h2 : (a:Rat) + c = 0
  · simp [h2]
  have hH0 : 0 ≤ (a:Rat)/(a+c) := div_nonneg ha (add_nonneg ha hc)
  have hq0 : 0 ≤ ((a:Rat)+b)/(a+b+c+d) := div_nonneg (add_nonneg ha hb) (by linarith)
  have hp : 0 < ((a:Rat)+c)/(a+b+c+d) :=
    div_pos (pos_of_ne (add_nonneg ha hc) h2) (pos_of_ne (by linarith) hn)
  simp only [h2, hn, if_false, or_self, Option.bind_some]
  generalize ((a:Rat)+c)/(a+b+c+d) = pv at *
  generalize ((a:Rat)+b)/(a+b+c+d) = qv at *
  generalize (a:Rat)/(a+c) = Hv at *
  rcases eq_or_lt_of_le hq0 with hq | hq
  · subst hq; simp [Tr.log_fin]
  rcases eq_or_lt_of_le hH0 with hH | hH
  · subst hH; simp [Tr.log_fin, hq]
  have := ne_of_gt hp
  have := ne_of_gt hq
  have := ne_of_gt hH
  log_close

end
end VerifModel.GenEq.Cont
