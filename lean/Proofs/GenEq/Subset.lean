import Proofs.Lemmas.XR
import VerifModel.Gen.Subset
import VerifModel.Model.SubsetGen
/-
  GenEq (C03): the location-subsetting pieces of `Data.__init__` that harness/translate_more.py reads
  from /repo on every run (Gen/Subset.lean) are the predicates of the hand-written model
  (`inRange`, `memX` filters of Model/Data.lean `useLocations`, which Spec/DataCoord.lean
  `allowedByRange` / `allowedByElev` / `allowedByExclusion` share), and the model re-assembled from them
  is `useLocations`.  "Ranges are inclusive at both ends" is restated on the generated test itself.
-/
namespace VerifModel.GenEq.Subset
open VerifModel XR
set_option linter.unusedSimpArgs false
set_option linter.unusedVariables false
set_option linter.unusedTactic false
set_option linter.unreachableTactic false
set_option linter.unnecessarySeqFocus false

/-- boolean rearrangements a harmless rewrite of a range test may produce -/
macro "range_tac" : tactic => `(tactic| (
  simp only [inRange, XR.ge, XR.gt, id, Option.getD_some, Option.getD_none, Option.isSome_some, Option.isSome_none,
    Option.isNone_some, Option.isNone_none, Bool.false_eq_true, if_true, if_false, Bool.and_assoc, Bool.not_not]
  try simp
  try (generalize XR.le _ _ = a at *)
  try (generalize XR.le _ _ = b at *)
  try (generalize XR.le _ _ = c at *)
  try (generalize XR.le _ _ = d at *)
  try (revert a) ; try (revert b) ; try (revert c) ; try (revert d)
  try decide))

theorem latlonKeep_eq (lr nr : Option (XR × XR)) (l : Loc) :
    Gen.Subset.latlonKeep lr nr l
      = (inRange (lr.getD (.ninf, .pinf)) l.lat && inRange (nr.getD (.ninf, .pinf)) l.lon) := by
  have top : ∀ x : XR, XR.le x .pinf = !x.isNan := by intro x; cases x <;> rfl
  have bot : ∀ x : XR, XR.le .ninf x = !x.isNan := by intro x; cases x <;> rfl
  cases lr <;> cases nr <;> simp only [Gen.Subset.latlonKeep] <;> range_tac

theorem latlonId_eq (lr nr : Option (XR × XR)) (l : Loc) : Gen.Subset.latlonId lr nr l = l.id := by
  cases lr <;> cases nr <;> simp [Gen.Subset.latlonId]

theorem elevKeep_eq (r : XR × XR) (l : Loc) : Gen.Subset.elevKeep (some r) l = inRange r l.elev := by
  simp only [Gen.Subset.elevKeep] <;> range_tac

theorem elevId_eq (r : Option (XR × XR)) (l : Loc) : Gen.Subset.elevId r l = l.id := by
  simp [Gen.Subset.elevId]

theorem latlonSelect_eq (ls : Option (List XR)) (ll : List XR) :
    Gen.Subset.latlonSelect ls ll = (match ls with
      | some ls => ls.filter fun l => memX l ll
      | none => ll) := by
  cases ls <;> simp [Gen.Subset.latlonSelect]

theorem excludeX_eq (u xs : List XR) : Gen.Subset.excludeX u xs = u.filter fun l => !memX l xs := by
  simp [Gen.Subset.excludeX]

/-- the model assembled from the generated pieces is the hand-written `useLocations`
(hence, by `C03_dims_are_intersection`, the specification's set semantics) -/
theorem useLocationsGen_eq (first : Input) (cfg : Cfg) : useLocationsGen first cfg = useLocations first cfg := by
  have h1 : Gen.Subset.latlonKeep cfg.latRange cfg.lonRange = fun l =>
      inRange (cfg.latRange.getD (.ninf, .pinf)) l.lat && inRange (cfg.lonRange.getD (.ninf, .pinf)) l.lon := by
    funext l; exact latlonKeep_eq _ _ l
  have h2 : Gen.Subset.latlonId cfg.latRange cfg.lonRange = fun l => l.id := by
    funext l; exact latlonId_eq _ _ l
  have h3 : ∀ r, Gen.Subset.elevKeep (some r) = fun l => inRange r l.elev := by
    intro r; funext l; exact elevKeep_eq r l
  have h4 : ∀ r, Gen.Subset.elevId r = fun l => l.id := by
    intro r; funext l; exact elevId_eq r l
  unfold useLocationsGen useLocations
  simp only [h1, h2, h3, h4, latlonSelect_eq, excludeX_eq]
  rcases cfg with ⟨_, _, _, _, ls, lx, _, _, er, _, _, _⟩
  cases ls <;> cases lx <;> cases er <;> rfl

/-- C03 "range options are inclusive at both ends", on the test as it is written in /repo today:
with only `-latrange lo,hi` a station is kept iff lo ≤ lat ≤ hi (its longitude not missing) -/
theorem gen_latrange_inclusive (lo hi v : Rat) (i o e : XR) (ho : o.isNan = false) :
    Gen.Subset.latlonKeep (some (fin lo, fin hi)) none ⟨i, fin v, o, e⟩ = decide (lo ≤ v ∧ v ≤ hi) := by
  rw [latlonKeep_eq]
  cases o <;> simp_all [inRange, XR.ge, XR.le, XR.isNan]

theorem gen_elevrange_inclusive (lo hi v : Rat) (i a o : XR) :
    Gen.Subset.elevKeep (some (fin lo, fin hi)) ⟨i, a, o, fin v⟩ = decide (lo ≤ v ∧ v ≤ hi) := by
  rw [elevKeep_eq]
  simp [inRange, XR.ge, XR.le]

example : Gen.Subset.latlonKeep (some (fin 40, fin 50)) none ⟨fin 1, fin 40, fin 7, fin 0⟩ = true
    ∧ Gen.Subset.latlonKeep (some (fin 40, fin 50)) none ⟨fin 1, fin 50, fin 7, fin 0⟩ = true
    ∧ Gen.Subset.latlonKeep (some (fin 40, fin 50)) none ⟨fin 1, fin (501/10), fin 7, fin 0⟩ = false
    ∧ Gen.Subset.excludeX [fin 1, fin 2, fin 3] [fin 2] = [fin 1, fin 3] := by decide +kernel

end VerifModel.GenEq.Subset
