import Proofs.Lemmas.Vec
import VerifModel.Gen.Prob
import VerifModel.Model.Prob
import VerifModel.Spec.Prob
/-
  GenEq (C08): each machine-translated closed-form probabilistic kernel equals the textbook
  definition in Spec/Prob.lean, for all non-empty, equally long lists of valid cases.
  Re-checked on every run against the regenerated Gen/Prob.lean.
-/
namespace VerifModel.GenEq.Prob
open VerifModel XR Spec.Prob
set_option linter.unusedSimpArgs false
set_option linter.unusedVariables false
set_option linter.unusedSectionVars false
-- the fallback branches below only run after a harmless rewrite of the translated source
set_option linter.unusedTactic false
set_option linter.unreachableTactic false

/-- outcome indicators -/
def Binary (os : List Rat) : Prop := ∀ o ∈ os, o = 0 ∨ o = 1

theorem sSub_ofRats (m : Rat) (xs : List Rat) :
    Vec.sSub (fin m) (Vec.ofRats xs) = Vec.ofRats (xs.map (m - ·)) := by
  simp [Vec.sSub, Vec.ofRats_map, Function.comp_def]

theorem length_pos_ne (xs : List Rat) (h : xs ≠ []) : (xs.length : Rat) ≠ 0 := by
  have : 0 < xs.length := List.length_pos_iff.mpr h
  exact_mod_cast this.ne'

theorem zipWith_ne_nil {α β γ : Type} (f : α → β → γ) (xs : List α) (ys : List β)
    (hx : xs ≠ []) (hl : xs.length = ys.length) : List.zipWith f xs ys ≠ [] := by
  cases xs <;> cases ys <;> simp_all

/-- Σ (c − o)² for outcome indicators: N c² − 2 c S + S with S = Σ o -/
theorem sum_sq_binary (os : List Rat) (hb : Binary os) (c : Rat) :
    (os.map (fun o => (c - o) ^ 2)).sum = (os.length : Rat) * c ^ 2 - 2 * c * os.sum + os.sum := by
  induction os with
  | nil => simp
  | cons o os ih =>
    have ho : o = 0 ∨ o = 1 := hb o (by simp)
    have ih' := ih (fun x hx => hb x (by simp [hx]))
    simp only [List.map_cons, List.sum_cons, List.length_cons, ih']
    rcases ho with h | h <;> subst h <;> push_cast <;> ring

/-- the mean squared deviation of outcome indicators from their mean is ō(1 − ō) -/
theorem mean_sq_dev_binary (os : List Rat) (hne : os ≠ []) (hb : Binary os) :
    (os.map (fun o => (os.sum / os.length - o) ^ 2)).sum / os.length
      = os.sum / os.length * (1 - os.sum / os.length) := by
  have hN := length_pos_ne os hne
  rw [sum_sq_binary os hb]
  field_simp
  ring

section
variable (T : Tr) (os ps : List Rat) (hne : os ≠ []) (hl : os.length = ps.length)
include hne hl

theorem bs_value :
    Gen.Prob.m_bs T (Vec.ofRats os) (Vec.ofRats ps) = fin (bs os ps) := by
  have hz : List.zipWith (fun o p => (p - o) ^ 2) os ps ≠ [] := zipWith_ne_nil _ os ps hne hl
  have hz' : List.map (fun x => x ^ 2) (List.zipWith (fun x1 x2 => x1 - x2) ps os)
      = List.zipWith (fun o p => (p - o) ^ 2) os ps := by
    first
      | (rw [List.map_zipWith, List.zipWith_comm])
      | (rw [List.map_zipWith]; congr 1; funext a b; ring)
  simp only [Gen.Prob.m_bs, Vec.sub_ofRats, Vec.npow_ofRats, Vec.nanmean_ofRats, hz']
  rw [Vec.mean_ofRats _ hz]
  simp [bs, Spec.Prob.mean]

/-- Brier score (Brier 1950) -/
theorem bs_eq : Gen.Prob.m_bs T (Vec.ofRats os) (Vec.ofRats ps) = fin (bs os ps) := bs_value T os ps hne hl

theorem bsunc_value (hb : Binary os) :
    Gen.Prob.m_bsunc T (Vec.ofRats os) (Vec.ofRats ps) = fin (unc os) := by
  have hm : (os.map (fun o => os.sum / (os.length : Rat) - o)).map (fun x => x ^ 2)
      = os.map (fun o => (os.sum / os.length - o) ^ 2) := by simp [List.map_map, Function.comp_def]
  simp only [Gen.Prob.m_bsunc, Vec.mean_ofRats os hne, sSub_ofRats, Vec.npow_ofRats, Vec.nanmean_ofRats, hm]
  rw [Vec.mean_ofRats _ (by simpa using hne)]
  simp only [List.length_map, unc, Spec.Prob.mean]
  rw [mean_sq_dev_binary os hne hb]

/-- uncertainty term ō(1 − ō) (Murphy 1973), for outcome indicators -/
theorem bsunc_eq (hb : Binary os) :
    Gen.Prob.m_bsunc T (Vec.ofRats os) (Vec.ofRats ps) = fin (unc os) := bsunc_value T os ps hne hl hb

/-- Brier skill score 1 − BS/UNC, NaN exactly when UNC = 0 -/
theorem bss_eq (hb : Binary os) :
    Gen.Prob.m_bss T (Vec.ofRats os) (Vec.ofRats ps) = toXR (bss os ps) := by
  have h1 := bs_value T os ps hne hl
  have h2 := bsunc_value T os ps hne hl hb
  simp only [Gen.Prob.m_bs] at h1
  simp only [Gen.Prob.m_bsunc] at h2
  simp only [Gen.Prob.m_bss, h1, h2, bss, sdiv]
  by_cases hu : unc os = 0
  · simp [hu, toXR]
  · simp [hu, toXR]
    field_simp
end

/-! ### per-case kernels -/

theorem log_two_pos (T : Tr) (hT : T.Lawful) : 0 < T.logQ 2 := by
  have := hT.log_lt 1 2 (by norm_num) (by norm_num)
  rw [hT.log_one] at this
  exact this

/-- binary ignorance of one case: −log₂ of the probability given to what happened -/
theorem ign0_case (T : Tr) (hT : T.Lawful) (o p : Rat) (ho : o = 0 ∨ o = 1) :
    Gen.Prob.e_ign0 T (fin o) (fin p) = ignTerm T o p := by
  have h2 := log_two_pos T hT
  have h2' : T.logQ 2 ≠ 0 := h2.ne'
  have hlog2 : T.log (fin 2) = fin (T.logQ 2) := Tr.log_fin_pos T 2 (by norm_num)
  have key : ∀ x : Rat, XR.neg (Tr.log2 T (fin x))
      = if x < 0 then nan else if x = 0 then pinf else fin (-(T.logQ x / T.logQ 2)) := by
    intro x
    unfold Tr.log2
    rw [hlog2, Tr.log_fin]
    by_cases hx : x < 0
    · simp [hx]; rfl
    · by_cases hx0 : x = 0
      · have : ¬ T.logQ 2 < 0 := not_lt.mpr h2.le
        simp [hx0]
        show XR.neg (XR.div ninf (fin (T.logQ 2))) = pinf
        simp [XR.div, this, XR.neg]
      · simp [hx, hx0, h2']
        rfl
  simp only [Gen.Prob.e_ign0, ignTerm, pOutcome]
  rcases ho with h | h <;> subst h
  · simp [key]
  · have : ¬ ((1 : Rat) = 0) := by norm_num
    simp [key]

/-- spherical score of one case -/
theorem spherical_case (T : Tr) (o p : Rat) (ho : o = 0 ∨ o = 1) :
    Gen.Prob.e_spherical T (fin o) (fin p) = sphTerm T o p := by
  simp only [Gen.Prob.e_spherical, sphTerm, pOutcome]
  rcases ho with h | h <;> subst h <;> simp <;> try ring_nf

/-- pinball loss of one case -/
theorem quantilescore_case (T : Tr) (τ o q : Rat) :
    Gen.Prob.e_quantilescore T (fin τ) (fin o) (fin q) = fin (pinball τ o q) := by
  simp only [Gen.Prob.e_quantilescore, pinball, fin_sub, XR.lt, boolToXR]
  by_cases h : o < q
  · have : o - q < 0 := by linarith
    simp [h, this]; ring
  · have : ¬ (o - q < 0) := by linarith
    simp [h, this]; ring

theorem zipWith_fin_congr {β : Type} (f : XR → XR → β) (g : Rat → Rat → β) (os ps : List Rat)
    (P : Rat → Prop) (hP : ∀ o ∈ os, P o) (h : ∀ o p, P o → f (fin o) (fin p) = g o p) :
    List.zipWith f (Vec.ofRats os) (Vec.ofRats ps) = List.zipWith g os ps := by
  induction os generalizing ps with
  | nil => simp
  | cons o os ih =>
    cases ps with
    | nil => simp
    | cons p ps =>
      simp only [Vec.ofRats_cons, List.zipWith_cons_cons]
      rw [h o p (hP o (by simp)), ih ps (fun x hx => hP x (by simp [hx]))]

/-- binary ignorance (mean of −log₂ p(outcome)), for every lawful `Tr` -/
theorem ign0_eq (T : Tr) (hT : T.Lawful) (os ps : List Rat) (hb : Binary os) :
    Prob.ign0 T (Vec.ofRats os) (Vec.ofRats ps) = Spec.Prob.ign0 T os ps := by
  unfold Prob.ign0 Spec.Prob.ign0
  rw [zipWith_fin_congr _ (ignTerm T) os ps (fun o => o = 0 ∨ o = 1) hb (fun o p h => ign0_case T hT o p h)]

/-- spherical score, for every `Tr` -/
theorem spherical_eq (T : Tr) (os ps : List Rat) (hb : Binary os) :
    Prob.spherical T (Vec.ofRats os) (Vec.ofRats ps) = Spec.Prob.spherical T os ps := by
  unfold Prob.spherical Spec.Prob.spherical
  rw [zipWith_fin_congr _ (sphTerm T) os ps (fun o => o = 0 ∨ o = 1) hb (fun o p h => spherical_case T o p h)]

/-- quantile score = mean pinball loss -/
theorem quantilescore_eq (T : Tr) (τ : Rat) (os qs : List Rat) (hne : os ≠ []) (hl : os.length = qs.length) :
    Prob.quantileScore T (fin τ) (Vec.ofRats os) (Vec.ofRats qs) = fin (Spec.Prob.quantileScore τ os qs) := by
  unfold Prob.quantileScore Spec.Prob.quantileScore
  rw [zipWith_fin_congr (Gen.Prob.e_quantilescore T (fin τ)) (fun o q => fin (pinball τ o q)) os qs
    (fun _ => True) (fun _ _ => trivial) (fun o q _ => quantilescore_case T τ o q)]
  have : List.zipWith (fun o q => fin (pinball τ o q)) os qs = Vec.ofRats (List.zipWith (pinball τ) os qs) := by
    simp [Vec.ofRats_map, List.map_zipWith]
  rw [this, Vec.mean_ofRats _ (zipWith_ne_nil _ os qs hne hl)]
  rfl

/-! ### non-vacuity -/

example : Binary [0, 1, 1] := by
  intro o ho
  simp only [List.mem_cons, List.not_mem_nil, or_false] at ho
  rcases ho with h | h | h <;> simp [h]
/-- the hypotheses are satisfiable and the scores take non-trivial values -/
example : bs [0, 1] [1 / 4, 1 / 2] = 5 / 32 := by decide +kernel
example : unc [0, 1, 1, 1] = 3 / 16 := by decide +kernel
example : bss [0, 1] [1 / 4, 1 / 2] = some (3 / 8) := by decide +kernel
example : bss [1, 1] [1 / 4, 1 / 2] = none := by decide +kernel
example : pinball (1 / 10) 2 3 = 9 / 10 ∧ pinball (1 / 10) 3 2 = 1 / 10 := by decide +kernel
/-- a lawful `Tr` exists (hypothesis of `ign0_eq`) -/
example : Tr.Lawful ⟨fun q => q, fun q => q - 1, fun q => q + 1, fun q => q⟩ :=
  ⟨rfl, fun _ h => h, fun _ _ _ h => h, by simp, fun p q _ h => by simpa using h, rfl,
   fun _ h => h, by simp⟩

end VerifModel.GenEq.Prob
