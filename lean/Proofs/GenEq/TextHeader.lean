import Mathlib.Tactic.Tauto
import VerifModel.Gen.TextHeader
import VerifModel.Model.TextInput
/-
  GenEq (C09): the header classifiers of the text reader, machine-translated from /repo on every run
  (Gen/TextHeader.lean), are the predicates `isQ`, `isP`, `isE`, `isOther` of the hand-written model
  Model/TextInput.lean — the ones `C09_classify` (every header word is in exactly one class) and
  `C09_roundtrip` are about — and `Input.get_regular_names` lists the model's regular names.

  The proofs treat the tests on a word as opaque booleans and compare truth tables (`bool_tac`), so the
  nesting of the `if`s, `continue` / append placement, reordered conjuncts or a De Morgan form do not
  matter; which words are appended does.
-/
namespace VerifModel.GenEq.TextHeader
open VerifModel VerifModel.TextInput
set_option linter.unusedSimpArgs false
set_option linter.unusedVariables false
set_option linter.unusedTactic false

/-- the same names (in any order, with repetitions) -/
theorem regular_eq (n : List Char) :
    Gen.TextHeader.regularNames.contains n = TextInput.regularNames.contains n := by
  first
    | (have h : Gen.TextHeader.regularNames = TextInput.regularNames := rfl
       rw [h])
    | (rw [Bool.eq_iff_iff]
       simp only [List.contains_iff_mem, Gen.TextHeader.regularNames, TextInput.regularNames, List.mem_cons,
         List.not_mem_nil, or_false, sObs, sFcst, sId, sLocation, sLat, sLon, sElev, sAltitude, sHour, sDate,
         sUnixtime, sLeadtime, sOffset]
       tauto)

/-- compare two boolean expressions over the (opaque) tests on one word -/
macro "bool_tac" w:ident : tactic => `(tactic| (
  try simp only [regular_eq, isRegular, sPit, sElev]
  cases h1 : startsWith 'q' $w <;> cases h2 : startsWith 'p' $w <;> cases h3 : startsWith 'e' $w <;>
    cases h4 : Tok.isNumber (Word.sfx $w) <;> cases h5 : TextInput.regularNames.contains (Word.name $w) <;>
    cases h6 : decide ((Word.name $w).length > 1) <;> simp_all <;> (try simp [bne]) <;> (try (rw [Bool.eq_iff_iff]; simp))))

theorem isQ_eq (w : Word) : Gen.TextHeader.isQ w = TextInput.isQ w := by
  simp only [Gen.TextHeader.isQ, TextInput.isQ]
  bool_tac w

theorem isP_eq (w : Word) : Gen.TextHeader.isP w = TextInput.isP w := by
  simp only [Gen.TextHeader.isP, TextInput.isP]
  bool_tac w

theorem isE_eq (w : Word) : Gen.TextHeader.isE w = TextInput.isE w := by
  simp only [Gen.TextHeader.isE, TextInput.isE]
  bool_tac w

theorem isOther_eq (w : Word) : Gen.TextHeader.isOther w = TextInput.isOther w := by
  simp only [Gen.TextHeader.isOther, TextInput.isOther]
  bool_tac w

/-- one word of each class, evaluated on the generated classifiers -/
example : Gen.TextHeader.isQ ⟨"q0.25".toList, .bad "", .num (1/4)⟩ = true
    ∧ Gen.TextHeader.isP ⟨"p5".toList, .bad "", .num 5⟩ = true
    ∧ Gen.TextHeader.isP ⟨"pit".toList, .bad "", .bad ""⟩ = false
    ∧ Gen.TextHeader.isE ⟨"e10".toList, .bad "", .num 10⟩ = true
    ∧ Gen.TextHeader.isE ⟨"elev".toList, .bad "", .bad ""⟩ = false
    ∧ Gen.TextHeader.isOther ⟨"pit".toList, .bad "", .bad ""⟩ = true
    ∧ Gen.TextHeader.isOther ⟨"q".toList, .bad "", .bad ""⟩ = true
    ∧ Gen.TextHeader.isOther ⟨"obs".toList, .bad "", .bad ""⟩ = false := by decide +kernel

end VerifModel.GenEq.TextHeader
