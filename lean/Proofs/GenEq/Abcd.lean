import Proofs.Lemmas.XR
import Mathlib.Tactic.Positivity
import VerifModel.Gen.Abcd
import VerifModel.Model.Contingency
/-
  GenEq (C06): the machine translation of `Contingency._compute_abcd` (Gen/Abcd.lean, regenerated from
  /repo on every run) computes the table of the hand-written counting model `abcd` of
  Model/Contingency.lean — the one the C06 theorems (`C06_counts`, `C06_swap`, `C06_complement`, …)
  are about — for ALL observation / forecast vectors and all intervals, with the forecast interval
  given or defaulted.

  The proof does not depend on how the four masked array expressions are written: each is reduced to
  its value on one (obs, fcst) pair and compared by a case split on the four booleans involved
  (`cell_tac`), so temporaries, `~x` / `x == 0` / `np.logical_not(x)`, swapped `&` operands or a
  De Morgan form keep it provable; a change of which pairs are counted in which cell does not.
-/
namespace VerifModel.GenEq.Abcd
open VerifModel
set_option linter.unusedSimpArgs false
set_option linter.unusedVariables false

/-- the four cells of a table as `_compute_abcd` returns them (`none` = NaN / masked) -/
def cells : Option Table → Option Nat × Option Nat × Option Nat × Option Nat
  | none => (none, none, none, none)
  | some t => (some t.a, some t.b, some t.c, some t.d)

/-- what one element of a masked cell array must be: masked iff a member of the pair is missing,
otherwise the cell's predicate -/
def cellOf (p : XR → XR → Bool) (o f : XR) : Option Bool :=
  if o.isNan || f.isNan then none else some (p o f)

theorem all_isNone_zipWith (p : XR → XR → Bool) (obs fcst : Vec) :
    (List.zipWith (cellOf p) obs fcst).all Option.isNone = (validPairs obs fcst).isEmpty := by
  unfold validPairs
  induction obs generalizing fcst with
  | nil => simp
  | cons o os ih =>
    cases fcst with
    | nil => simp
    | cons f fs =>
      have := ih fs
      simp only [List.zipWith_cons_cons, List.all_cons, List.zip_cons_cons, List.filter_cons, this, cellOf]
      cases ho : o.isNan <;> cases hf : f.isNan <;> simp

theorem countP_zipWith (p : XR → XR → Bool) (obs fcst : Vec) :
    (List.zipWith (cellOf p) obs fcst).countP (· == some true)
      = (validPairs obs fcst).countP (fun q => p q.1 q.2) := by
  unfold validPairs
  induction obs generalizing fcst with
  | nil => simp
  | cons o os ih =>
    cases fcst with
    | nil => simp
    | cons f fs =>
      have := ih fs
      simp only [List.zipWith_cons_cons, List.countP_cons, List.zip_cons_cons, List.filter_cons, this, cellOf]
      cases ho : o.isNan <;> cases hf : f.isNan <;> cases hp : p o f <;> simp [hp]

theorem sum_zipWith (p : XR → XR → Bool) (obs fcst : Vec) :
    MA.sum (List.zipWith (cellOf p) obs fcst)
      = if (validPairs obs fcst).isEmpty then none
        else some ((validPairs obs fcst).countP (fun q => p q.1 q.2)) := by
  simp only [MA.sum, all_isNone_zipWith, countP_zipWith]

/-- the guards `len(fcst) > 0` may be written in -/
theorem len_gt_zero (v : Vec) : XR.gt (Vec.len v) (XR.fin 0) = !v.isEmpty := by
  cases v with
  | nil => simp [Vec.len, XR.ofNat, XR.gt, XR.lt]
  | cons x xs =>
    have h : (0 : Rat) < (xs.length : Rat) + 1 := by positivity
    simp [Vec.len, XR.ofNat, XR.gt, XR.lt, h]
theorem len_ge_one (v : Vec) : XR.ge (Vec.len v) (XR.fin 1) = !v.isEmpty := by
  cases v with
  | nil => simp [Vec.len, XR.ofNat, XR.ge, XR.le]
  | cons x xs => simp [Vec.len, XR.ofNat, XR.ge, XR.le]
theorem len_eq_zero (v : Vec) : XR.eqb (Vec.len v) (XR.fin 0) = v.isEmpty := by
  cases v with
  | nil => simp [Vec.len, XR.ofNat, XR.eqb]
  | cons x xs =>
    have h : (xs.length : Rat) + 1 ≠ 0 := by positivity
    simp [Vec.len, XR.ofNat, XR.eqb, h]
theorem zero_lt_len (v : Vec) : XR.lt (XR.fin 0) (Vec.len v) = !v.isEmpty := len_gt_zero v

/-- a table assembled from any four cell arrays that have the right elements -/
theorem of_cells (ea eb ec ed : XR → XR → Option Bool) (I J : Interval)
    (ha : ea = cellOf (fun o f => J.withinVal f && I.withinVal o))
    (hb : eb = cellOf (fun o f => J.withinVal f && !I.withinVal o))
    (hc : ec = cellOf (fun o f => !J.withinVal f && I.withinVal o))
    (hd : ed = cellOf (fun o f => !J.withinVal f && !I.withinVal o)) (obs fcst : Vec) :
    (if (!fcst.isEmpty) = true then
        (MA.sum (List.zipWith ea obs fcst), MA.sum (List.zipWith eb obs fcst),
         MA.sum (List.zipWith ec obs fcst), MA.sum (List.zipWith ed obs fcst))
      else (none, none, none, none)) = cells (abcd I J obs fcst) := by
  subst ha hb hc hd
  simp only [sum_zipWith, abcd]
  cases hf : fcst.isEmpty with
  | true => simp [cells]
  | false =>
    cases hv : (validPairs obs fcst).isEmpty <;> simp [cells]

/-- one element of a cell array, for every spelling of the boolean expression -/
macro "cell_tac" : tactic => `(tactic| (
  funext o f
  simp only [cellOf, MA.and, MA.or, MA.not, Interval.within]
  cases o.isNan <;> cases f.isNan <;>
    (try generalize Interval.withinVal _ f = p) <;> (try generalize Interval.withinVal _ o = q) <;>
    (try cases p) <;> (try cases q) <;> rfl))

macro "abcd_tac" I:term "," J:term : tactic => `(tactic| (
  simp only [Gen.Abcd.abcd, Option.isNone_some, Option.isNone_none, Option.isSome_some, Option.isSome_none,
    Option.getD_some, Bool.false_eq_true, if_true, if_false, len_gt_zero, len_ge_one, len_eq_zero, zero_lt_len,
    Bool.not_not, ite_not]
  first
    | exact of_cells _ _ _ _ $I $J (by cell_tac) (by cell_tac) (by cell_tac) (by cell_tac) _ _
    | (split <;> simp_all [cells, abcd] <;>
        exact of_cells _ _ _ _ $I $J (by cell_tac) (by cell_tac) (by cell_tac) (by cell_tac) _ _)))

/-- `_compute_abcd(obs, fcst, interval, f_interval)` is the counting model with observation interval
`I` and forecast interval `J` -/
theorem abcd_eq (I J : Interval) (obs fcst : Vec) :
    Gen.Abcd.abcd I (some J) obs fcst = cells (abcd I J obs fcst) := by
  abcd_tac I, J

/-- `f_interval=None`: the observation interval is used for the forecasts too -/
theorem abcd_default_eq (I : Interval) (obs fcst : Vec) :
    Gen.Abcd.abcd I none obs fcst = cells (abcd I I obs fcst) := by
  abcd_tac I, I

/-- the statement is about real tables: two valid pairs, one masked, different intervals -/
example : Gen.Abcd.abcd ⟨.fin 1, .pinf, false, false⟩ (some ⟨.fin 0, .pinf, true, false⟩)
    [.fin 2, .fin 0, .nan] [.fin 0, .fin 0, .fin 5] = (some 1, some 1, some 0, some 0) := by
  decide +kernel

end VerifModel.GenEq.Abcd
