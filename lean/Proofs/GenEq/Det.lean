import Proofs.Lemmas.Vec
import VerifModel.Gen.Det
import VerifModel.Model.DetMetrics
import VerifModel.Spec.Det
/-
  GenEq (C05): each machine-translated `_compute_from_obs_fcst` equals the textbook
  definition in Spec/Det.lean for all non-empty, equally long lists of finite pairs, every
  aggregator function and every `Tr`.  Re-checked each run against the regenerated Gen/Det.lean.
-/
namespace VerifModel.GenEq.Det
open VerifModel XR Spec.Det
set_option linter.unusedSimpArgs false
set_option linter.unusedVariables false
set_option linter.unusedSectionVars false
set_option linter.unusedTactic false
set_option linter.unreachableTactic false
set_option linter.unnecessarySeqFocus false

theorem rabs_eq (x : Rat) : rabs x = |x| := by
  unfold rabs
  by_cases h : x < 0
  · simp [h, abs_of_neg h]
  · simp [h, abs_of_nonneg (not_lt.mp h)]

theorem map_rabs (xs : List Rat) : xs.map rabs = xs.map (fun x => |x|) := by
  congr 1; funext x; exact rabs_eq x

theorem zipWith_ne_nil {α β γ : Type} (f : α → β → γ) (xs : List α) (ys : List β)
    (hx : xs ≠ []) (hl : xs.length = ys.length) : List.zipWith f xs ys ≠ [] := by
  cases xs <;> cases ys <;> simp_all

theorem zipWith_length {α β γ : Type} (f : α → β → γ) (xs : List α) (ys : List β)
    (hl : xs.length = ys.length) : (List.zipWith f xs ys).length = xs.length := by
  simp [hl]

theorem sum_map_sq_nonneg (xs : List Rat) (m : Rat) :
    0 ≤ (List.map (fun x => (x - m) ^ 2) xs).sum := by
  apply List.sum_nonneg
  intro x hx
  simp only [List.mem_map] at hx
  obtain ⟨y, _, rfl⟩ := hx
  positivity

theorem sum_zipWith_sq_nonneg (xs ys : List Rat) :
    0 ≤ (List.zipWith (fun x y => (x - y) ^ 2) xs ys).sum := by
  apply List.sum_nonneg
  intro x hx
  obtain ⟨i, hi, rfl⟩ := List.getElem_of_mem hx
  simp only [List.getElem_zipWith]
  positivity

theorem sort_ofRats (xs : List Rat) : Vec.sort (Vec.ofRats xs) = Vec.ofRats (Spec.Det.sort xs) := by
  have ins : ∀ (x : Rat) (ys : List Rat),
      Vec.insertSorted (fin x) (Vec.ofRats ys) = Vec.ofRats (Spec.Det.insertSorted x ys) := by
    intro x ys
    induction ys with
    | nil => rfl
    | cons y ys ih =>
      simp only [Vec.ofRats_cons, Vec.insertSorted, Spec.Det.insertSorted, XR.lt]
      by_cases h : y < x <;> simp [h, ih]
  unfold Vec.sort Spec.Det.sort
  induction xs with
  | nil => rfl
  | cons x xs ih => simp only [Vec.ofRats_cons, List.foldr_cons, ih, ins]

theorem sort_length (xs : List Rat) : (Spec.Det.sort xs).length = xs.length := by
  have ins : ∀ (x : Rat) (ys : List Rat), (Spec.Det.insertSorted x ys).length = ys.length + 1 := by
    intro x ys
    induction ys with
    | nil => rfl
    | cons y ys ih =>
      simp only [Spec.Det.insertSorted]
      split <;> simp [ih]
  unfold Spec.Det.sort
  induction xs with
  | nil => rfl
  | cons x xs ih => simp [List.foldr_cons, ins, ih]

section
variable (T : Tr) (agg : Vec → XR) (os fs : List Rat) (hne : os ≠ []) (hl : os.length = fs.length)
include hne hl

theorem mae_eq : Gen.Det.m_mae T agg (Vec.ofRats os) (Vec.ofRats fs) = mae agg os fs := by
  simp [Gen.Det.m_mae, mae, err, fins, List.map_zipWith, rabs_eq]

theorem bias_eq : Gen.Det.m_bias T agg (Vec.ofRats os) (Vec.ofRats fs) = bias agg os fs := by
  simp [Gen.Det.m_bias, bias, fins]

theorem diff_eq : Gen.Det.m_diff T agg (Vec.ofRats os) (Vec.ofRats fs) = diff agg os fs := by
  simp [Gen.Det.m_diff, diff, fins]

theorem ratio_eq : Gen.Det.m_ratio T agg (Vec.ofRats os) (Vec.ofRats fs) = ratio agg os fs := by
  simp [Gen.Det.m_ratio, ratio, fins]

theorem rmse_eq : Gen.Det.m_rmse T agg (Vec.ofRats os) (Vec.ofRats fs) = rmse T agg os fs := by
  simp [Gen.Det.m_rmse, rmse, err, fins]

theorem cmae_eq : Gen.Det.m_cmae T agg (Vec.ofRats os) (Vec.ofRats fs) = cmae T agg os fs := by
  simp only [Gen.Det.m_cmae, cmae, fins, Vec.npow_ofRats, Vec.sub_ofRats, Vec.abs_ofRats]
  congr 3
  simp [List.zipWith_map_left, List.zipWith_map_right, List.map_zipWith, rabs_eq]

theorem obsstddev_eq : Gen.Det.m_obsstddev T agg (Vec.ofRats os) (Vec.ofRats fs) = obsstddev T os := by
  simp only [Gen.Det.m_obsstddev, obsstddev, Vec.std, Vec.var_ofRats os hne, Spec.Det.var, Spec.Det.mean, List.length_map]

theorem fcststddev_eq : Gen.Det.m_fcststddev T agg (Vec.ofRats os) (Vec.ofRats fs) = fcststddev T fs := by
  have hf : fs ≠ [] := by cases os <;> cases fs <;> simp_all
  simp only [Gen.Det.m_fcststddev, fcststddev, Vec.std, Vec.var_ofRats fs hf, Spec.Det.var, Spec.Det.mean, List.length_map]

theorem stderror_eq : Gen.Det.m_stderror T agg (Vec.ofRats os) (Vec.ofRats fs) = stderror T os fs := by
  have he : err os fs ≠ [] := zipWith_ne_nil _ os fs hne hl
  simp only [Gen.Det.m_stderror, stderror, Vec.sub_ofRats]
  change T.sqrt (Vec.mean (Vec.npow (Vec.subS (Vec.ofRats (err os fs)) (Vec.mean (Vec.ofRats (err os fs)))) 2)) = _
  rw [Vec.mean_ofRats _ he]
  simp only [Vec.subS_ofRats, Vec.npow_ofRats, List.map_map]
  rw [Vec.mean_ofRats _ (by simpa using he)]
  simp only [Spec.Det.var, Spec.Det.mean, err, List.length_map, Function.comp_def, pow_two]

theorem ef_eq : Gen.Det.m_ef T agg (Vec.ofRats os) (Vec.ofRats fs) = ef os fs := by
  have hf : (fs.length : Rat) ≠ 0 := by
    have : 0 < fs.length := by rw [← hl]; exact List.length_pos_iff.mpr hne
    exact_mod_cast this.ne'
  simp only [Gen.Det.m_ef, ef, Vec.len_ofRats, Vec.countTrue, Vec.cmp, XR.ofNat]
  rw [fin_div_ne _ _ hf]
  congr 3
  simp only [Vec.ofRats_map, List.zipWith_map_left, List.zipWith_map_right]
  rfl

theorem dmb_eq : Gen.Det.m_dmb T agg (Vec.ofRats os) (Vec.ofRats fs) = dmb os fs := by
  have hf : fs ≠ [] := by cases os <;> cases fs <;> simp_all
  simp only [Gen.Det.m_dmb, dmb, Vec.mean_ofRats os hne, Vec.mean_ofRats fs hf, Spec.Det.mean]

theorem mbias_eq : Gen.Det.m_mbias T agg (Vec.ofRats os) (Vec.ofRats fs) = mbias os fs := by
  have hf : fs ≠ [] := by cases os <;> cases fs <;> simp_all
  simp only [Gen.Det.m_mbias, mbias, Vec.nanmean_ofRats, Vec.mean_ofRats os hne, Vec.mean_ofRats fs hf, Spec.Det.mean,
    eqb_fin, fin_div]
  by_cases h : os.sum / (os.length : Rat) = 0 <;> simp [h]

theorem nsec_eq : Gen.Det.m_nsec T agg (Vec.ofRats os) (Vec.ofRats fs) = nsec os fs := by
  simp only [Gen.Det.m_nsec, nsec, Vec.mean_ofRats os hne, Vec.sub_ofRats, Vec.subS_ofRats, Vec.npow_ofRats,
    Vec.sum_ofRats, eqb_fin, fin_div, Spec.Det.mean, List.map_map, Function.comp_def, List.map_zipWith]
  by_cases h : (List.map (fun x => (x - os.sum / (os.length : Rat)) ^ 2) os).sum = 0 <;> simp [h]

theorem nnsec_eq : Gen.Det.m_nnsec T agg (Vec.ofRats os) (Vec.ofRats fs) = nnsec os fs := by
  simp only [Gen.Det.m_nnsec, nnsec, Vec.mean_ofRats os hne, Vec.sub_ofRats, Vec.subS_ofRats, Vec.npow_ofRats,
    Vec.sum_ofRats, eqb_fin, fin_div, Spec.Det.mean, List.map_map, Function.comp_def, List.map_zipWith]
  by_cases h : (List.map (fun x => (x - os.sum / (os.length : Rat)) ^ 2) os).sum = 0
  · simp [h]
  · simp only [h, decide_false, if_false, Bool.false_eq_true, fin_sub, fin_div]
    have hnum := sum_zipWith_sq_nonneg fs os
    have hden := sum_map_sq_nonneg os (os.sum / (os.length : Rat))
    have hpos : 0 < (List.map (fun x => (x - os.sum / (os.length : Rat)) ^ 2) os).sum :=
      lt_of_le_of_ne hden (Ne.symm h)
    have hq : 0 ≤ (List.zipWith (fun x y => (x - y) ^ 2) fs os).sum /
        (List.map (fun x => (x - os.sum / (os.length : Rat)) ^ 2) os).sum := div_nonneg hnum hpos.le
    have hne2 : ¬ (2 - (1 - (List.zipWith (fun x y => (x - y) ^ 2) fs os).sum /
        (List.map (fun x => (x - os.sum / (os.length : Rat)) ^ 2) os).sum) = 0) := by
      intro h0; linarith
    simp only [hne2, if_false]

theorem alphaindex_eq :
    Gen.Det.m_alphaindex T agg (Vec.ofRats os) (Vec.ofRats fs) = alphaindex os fs := by
  have hf : fs ≠ [] := by cases os <;> cases fs <;> simp_all
  simp only [Gen.Det.m_alphaindex, alphaindex, Vec.mean_ofRats os hne, Vec.mean_ofRats fs hf,
    Vec.sub_ofRats, Vec.subS_ofRats, Vec.addS_ofRats, Vec.npow_ofRats, Vec.add_ofRats,
    Vec.sum_ofRats, eqb_fin, fin_div, Spec.Det.mean, List.map_map, Function.comp_def,
    List.map_zipWith, List.zipWith_map_left, List.zipWith_map_right]
  split_ifs <;> simp_all

theorem derror_eq : Gen.Det.m_derror T agg (Vec.ofRats os) (Vec.ofRats fs) = derror os fs := by
  have hz : (List.zipWith (· - ·) (Spec.Det.sort os) (Spec.Det.sort fs)).map (fun x => |x|) ≠ [] := by
    have h1 : Spec.Det.sort os ≠ [] := by
      intro h0; have := sort_length os; rw [h0] at this; cases os <;> simp_all <;> omega
    have h2 : (Spec.Det.sort os).length = (Spec.Det.sort fs).length := by
      rw [sort_length, sort_length, hl]
    simpa using zipWith_ne_nil (· - ·) _ _ h1 h2
  simp only [Gen.Det.m_derror, derror, sort_ofRats, Vec.sub_ofRats, Vec.abs_ofRats]
  rw [Vec.mean_ofRats _ hz]
  simp only [Spec.Det.mean, map_rabs]

/-- rmsf, on its domain: every ratio f/o is positive (obs ≠ 0, same sign) -/
theorem rmsf_eq (hpos : ∀ p ∈ List.zip fs os, 0 < p.1 / p.2 ∧ p.2 ≠ 0) :
    Gen.Det.m_rmsf T agg (Vec.ofRats os) (Vec.ofRats fs) = rmsf T agg os fs := by
  simp only [Gen.Det.m_rmsf, rmsf]
  congr 3
  clear hne
  induction fs generalizing os with
  | nil => simp [Vec.div, Vec.mapX, Vec.npow]
  | cons f fs ih =>
    cases os with
    | nil => simp [Vec.div, Vec.mapX, Vec.npow]
    | cons o os =>
      have h0 := hpos (f, o) (by simp)
      have hrest : ∀ p ∈ List.zip fs os, 0 < p.1 / p.2 ∧ p.2 ≠ 0 := fun p hp =>
        hpos p (by simp [hp])
      have ih' := ih os (by simpa using hl) hrest
      simp only [Vec.div, Vec.mapX, Vec.npow, Vec.ofRats_cons, List.zipWith_cons_cons,
        List.map_cons] at ih' ⊢
      rw [ih', fin_div_ne _ _ h0.2]

end

/-! ### corr and kge: `np.corrcoef(obs, fcst)[1, 0]` is the translator primitive `corrCore`
(Model/Corrcoef.lean); the guards and the arithmetic around it are machine-translated.  Generated =
hand-written model of Model/DetMetrics.lean for ALL vectors (no finiteness or length hypothesis); that
the model is Pearson's r / Gupta's KGE is `C05_corr_def`, `C05_kge_def` (Proofs/C05Rank.lean). -/

theorem len_le_one (v : Vec) : XR.le (Vec.len v) (fin 1) = decide (v.length ≤ 1) := by
  simp only [Vec.len, XR.ofNat, XR.le]
  congr 1
  exact propext ⟨fun h => by exact_mod_cast h, fun h => by exact_mod_cast h⟩
theorem len_lt_two (v : Vec) : XR.lt (Vec.len v) (fin 2) = decide (v.length ≤ 1) := by
  simp only [Vec.len, XR.ofNat, XR.lt]
  congr 1
  apply propext
  constructor
  · intro h
    have h2 : v.length < 2 := by exact_mod_cast h
    omega
  · intro h
    have h2 : v.length < 2 := by omega
    exact_mod_cast h2

/-- spellings of the guards / of the clipping-free arithmetic a harmless rewrite may use -/
macro "lib_tac" : tactic => `(tactic| (
  simp only [len_le_one, len_lt_two, XR.gt, XR.ge, Bool.false_eq_true, if_false, if_true, Bool.or_false,
    Bool.false_or, decide_eq_true_eq, Bool.or_eq_true, Bool.not_eq_true', ite_not]
  try (split_ifs <;> simp_all)))

theorem corr_eq (T : Tr) (agg : Vec → XR) (obs fcst : Vec) :
    Gen.Det.m_corr T agg obs fcst = corr T obs fcst := by
  simp only [Gen.Det.m_corr, corr] <;> lib_tac

theorem kge_eq (T : Tr) (agg : Vec → XR) (obs fcst : Vec) :
    Gen.Det.m_kge T agg obs fcst = kge T obs fcst := by
  simp only [Gen.Det.m_kge, kge] <;> lib_tac

/-- the generated definitions compute: a perfectly correlated pair of series (with the identity as the
root parameter: sums of squares 1/2 and 2, covariance 1) -/
example : Gen.Det.m_corr ⟨fun q => q, fun _ => 0, fun _ => 0, fun q => q⟩ Vec.mean [fin 0, fin 1] [fin 1, fin 3]
    = fin 1 := by decide +kernel

end VerifModel.GenEq.Det
