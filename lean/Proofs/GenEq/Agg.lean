import Mathlib.Tactic.Ring
import Mathlib.Tactic.NormNum
import VerifModel.Gen.Agg
import VerifModel.Model.AggPrim
import Proofs.Lemmas.XR
/-
  GenEq (C15): the `__call__` of every aggregator class, machine-translated from /repo's verif/aggregator.py on every
  run (Gen/Agg.lean, 1-d reading: axis=None), is `Agg.apply` of the hand-written model Model/Aggregator.lean — the
  function the C15 theorems (`C15_agg_*`: every aggregator equals its textbook statistic) are about.  So which NumPy
  reduction a class calls, the percent levels 75 / 25 of Iqr, `self.quantile * 100`, max − min, where the absolute
  value sits, which ends of the array Change reads, are all read from the source; the NumPy calls themselves are the
  primitives of Model/AggPrim.lean.

  One generic script (`agg_tac`) for every class: unfold, rewrite the primitives into the model's vocabulary
  (`idx_first`, `idx_last`, `count_eq`, `pct`), case-split on the optional values.  Temporaries, inlined / extracted
  helpers, `array[-1]` for `array.flatten()[-1]`, `~np.isnan(x)` for `np.isnan(x) == 0` do not matter.
-/
namespace VerifModel.GenEq.Agg
open VerifModel
set_option linter.unusedSimpArgs false
set_option linter.unusedVariables false
set_option linter.unusedTactic false
set_option linter.unreachableTactic false

theorem idx_first (v : Vec) : AggPrim.idx v 0 = List.head? v := by
  cases v <;> simp [AggPrim.idx]

theorem idx_last (v : Vec) : AggPrim.idx v (-1) = List.getLast? v := by
  simp only [AggPrim.idx]
  rw [List.getLast?_eq_getElem?]
  cases v <;> simp

theorem count_eq (v : Vec) : AggPrim.count (AggPrim.bnot (AggPrim.isnan v)) = some (Agg.countOf v) := by
  simp only [AggPrim.count, AggPrim.bnot, AggPrim.isnan, Agg.countOf]
  congr 2
  induction v with
  | nil => rfl
  | cons x xs ih => cases h : x.isNan <;> simp_all [List.filter]

theorem count_eq' (v : Vec) : AggPrim.count (AggPrim.bnot (AggPrim.bnot (AggPrim.bnot (AggPrim.isnan v)))) = some (Agg.countOf v) := by
  have : AggPrim.bnot (AggPrim.bnot (AggPrim.bnot (AggPrim.isnan v))) = AggPrim.bnot (AggPrim.isnan v) := by
    simp [AggPrim.bnot, List.map_map, Function.comp_def]
  rw [this, count_eq]

theorem pct (v : Vec) (r : Rat) : AggPrim.percentile v (XR.fin r) = Agg.percentile v (r / 100) := rfl
theorem pct_level (v : Vec) (q : Rat) : AggPrim.percentile v (XR.fin q * XR.fin 100) = Agg.percentile v q := by
  rw [XR.fin_mul, pct]; congr 1; ring
theorem pct_level' (v : Vec) (q : Rat) : AggPrim.percentile v (XR.fin 100 * XR.fin q) = Agg.percentile v q := by
  rw [XR.fin_mul, pct]; congr 1; ring
theorem qnt (v : Vec) (r : Rat) : AggPrim.quantile v (XR.fin r) = Agg.percentile v r := rfl
theorem r75 : (75 : Rat) / 100 = 3 / 4 := by norm_num
theorem r25 : (25 : Rat) / 100 = 1 / 4 := by norm_num

/-- the generic script -/
macro "agg_tac" v:ident : tactic => `(tactic| (
  try simp only [Gen.Agg.c_mean, Gen.Agg.c_median, Gen.Agg.c_min, Gen.Agg.c_max, Gen.Agg.c_std, Gen.Agg.c_variance,
    Gen.Agg.c_iqr, Gen.Agg.c_range, Gen.Agg.c_count, Gen.Agg.c_sum, Gen.Agg.c_meanabs, Gen.Agg.c_absmean,
    Gen.Agg.c_quantile, Gen.Agg.c_change, Gen.Agg.c_abschange, Agg.apply, Agg.changeOf, Agg.level,
    idx_first, idx_last, count_eq, count_eq', pct_level, pct_level', pct, qnt, r75, r25]
  try simp only [AggPrim.mean, AggPrim.median, AggPrim.min, AggPrim.max, AggPrim.std, AggPrim.var, AggPrim.sum,
    AggPrim.sub, AggPrim.add, AggPrim.abs, AggPrim.lift2, Option.map]
  try (first
    | rfl
    | (cases h1 : List.head? $v <;> cases h2 : List.getLast? $v <;> cases h3 : Agg.percentile $v (3 / 4) <;>
        cases h4 : Agg.percentile $v (1 / 4) <;> cases h5 : List.isEmpty $v <;> simp_all))))

theorem mean_eq (T : Tr) (l : XR) (v : Vec) : Gen.Agg.c_mean T l v = Agg.apply T .mean v := by agg_tac v
theorem median_eq (T : Tr) (l : XR) (v : Vec) : Gen.Agg.c_median T l v = Agg.apply T .median v := by agg_tac v
theorem min_eq (T : Tr) (l : XR) (v : Vec) : Gen.Agg.c_min T l v = Agg.apply T .min v := by agg_tac v
theorem max_eq (T : Tr) (l : XR) (v : Vec) : Gen.Agg.c_max T l v = Agg.apply T .max v := by agg_tac v
theorem std_eq (T : Tr) (l : XR) (v : Vec) : Gen.Agg.c_std T l v = Agg.apply T .std v := by agg_tac v
theorem variance_eq (T : Tr) (l : XR) (v : Vec) : Gen.Agg.c_variance T l v = Agg.apply T .variance v := by agg_tac v
theorem iqr_eq (T : Tr) (l : XR) (v : Vec) : Gen.Agg.c_iqr T l v = Agg.apply T .iqr v := by agg_tac v
theorem range_eq (T : Tr) (l : XR) (v : Vec) : Gen.Agg.c_range T l v = Agg.apply T .range v := by agg_tac v
theorem count_eq_model (T : Tr) (l : XR) (v : Vec) : Gen.Agg.c_count T l v = Agg.apply T .count v := by agg_tac v
theorem sum_eq (T : Tr) (l : XR) (v : Vec) : Gen.Agg.c_sum T l v = Agg.apply T .sum v := by agg_tac v
theorem meanabs_eq (T : Tr) (l : XR) (v : Vec) : Gen.Agg.c_meanabs T l v = Agg.apply T .meanabs v := by agg_tac v
theorem absmean_eq (T : Tr) (l : XR) (v : Vec) : Gen.Agg.c_absmean T l v = Agg.apply T .absmean v := by agg_tac v
theorem change_eq (T : Tr) (l : XR) (v : Vec) : Gen.Agg.c_change T l v = Agg.apply T .change v := by agg_tac v
theorem abschange_eq (T : Tr) (l : XR) (v : Vec) : Gen.Agg.c_abschange T l v = Agg.apply T .abschange v := by agg_tac v
/-- `Quantile(q)(array)`: `self.quantile * 100` percent = level q -/
theorem quantile_eq (T : Tr) (q : Rat) (v : Vec) :
    Gen.Agg.c_quantile T (XR.fin q) v = Agg.apply T (.quantile q) v := by agg_tac v

/-- the generated dispatch on the class name calls, for every aggregator of the model, the class the model means -/
theorem call_eq (T : Tr) (a : Agg) (v : Vec) :
    Gen.Agg.callByName T (Agg.className a) (Agg.level a) v = some (Agg.apply T a v) := by
  cases a <;>
    simp [Gen.Agg.callByName, Agg.className, Agg.level, mean_eq, median_eq, min_eq, max_eq, std_eq, variance_eq, iqr_eq,
      range_eq, count_eq_model, sum_eq, meanabs_eq, absmean_eq, change_eq, abschange_eq, quantile_eq]

/-- every class name of the model is a class `get_all()` returns, constructible without an argument; `quantile` needs one -/
theorem classNames_cover : ∀ p ∈ Agg.names, (p.1, 0) ∈ Gen.Agg.classNames := by decide
theorem classNames_quantile : ("quantile", 1) ∈ Gen.Agg.classNames := by decide

/-- `Quantile.__init__` refuses exactly the levels outside [0, 1] (the test `Agg.get` makes) -/
theorem initRejects_eq (q : Rat) : Gen.Agg.initRejects_quantile (XR.fin q) = decide (q < 0 ∨ q > 1) := by
  simp only [Gen.Agg.initRejects_quantile, XR.lt, XR.gt]
  by_cases h1 : q < 0 <;> by_cases h2 : q > 1 <;> simp_all [XR.lt, XR.gt]

example (T : Tr) : Gen.Agg.callByName T "range" .nan [.fin 3, .fin 1, .fin 2] = some (some (.fin 2)) := by
  rw [show "range" = Agg.className .range from rfl, show XR.nan = Agg.level .range from rfl, call_eq]; simp only [Agg.apply]; decide +kernel

end VerifModel.GenEq.Agg
