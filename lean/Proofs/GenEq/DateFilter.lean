import Proofs.Lemmas.XR
import VerifModel.Gen.DateFilter
import VerifModel.Model.Data
import Mathlib.Tactic.Ring
import Mathlib.Tactic.Linarith
import Mathlib.Data.Rat.Cast.Order
import Mathlib.Data.Rat.Floor
/-
  GenEq (C03): the `-d` / `-tod` tests of `Data.__init__` that harness/translate_more.py gen_datefilter reads from
  /repo on every run (Gen/DateFilter.lean: Python `//`, `%`, `int()`, `*`, `/` as the primitives of
  Model/DatePrim.lean) are the tests of the hand-written model (Model/Data.lean `Data.init`:
  `memX (dayStart t) ds`, `memX (hourOfDay t) hs`, shared by Spec/DataCoord.lean), for every time, negative
  (before 1970) and fractional ones included: the day is the FLOOR of t / 86400, the hour of day is
  floor(t) mod 86400 over 3600, so a time at hh:30 is not selected by `-tod hh`.
-/
namespace VerifModel.GenEq.DateFilter
open VerifModel XR

/-- `int()` of a whole number is that number -/
theorem trunc_int (n : Int) : DatePrim.trunc (.fin (n : Rat)) = .fin (n : Rat) := by
  have e : (-(n : Rat)) = ((-n : Int) : Rat) := by push_cast; rfl
  simp only [DatePrim.trunc, e, Rat.floor_intCast]
  split <;> simp

theorem day_eq (t : XR) : DatePrim.mul (DatePrim.trunc (DatePrim.floordiv t 86400)) 86400 = dayStart t := by
  cases t with
  | fin q => simp only [DatePrim.floordiv, trunc_int, DatePrim.mul, dayStart]; congr 1; push_cast; rfl
  | _ => rfl

/-- `-d`: the generated test is the model's, for every time (floor semantics for negative times) -/
theorem dateKeep_eq (t : XR) (ds : List XR) : Gen.DateFilter.dateKeep t ds = memX (dayStart t) ds := by
  simp only [Gen.DateFilter.dateKeep, day_eq]

theorem mod_floor (q : Rat) :
    let r := q - (((q / ((86400 : Int) : Rat)).floor : Int) : Rat) * ((86400 : Int) : Rat)
    0 ≤ r ∧ r.floor = q.floor % 86400 := by
  intro r
  have a := Rat.floor_le (q / ((86400 : Int) : Rat))
  have b := Rat.lt_floor_add_one (q / ((86400 : Int) : Rat))
  have e : q / ((86400 : Int) : Rat) * 86400 = q := by push_cast; ring
  have r0 : 0 ≤ r := by show 0 ≤ q - _ * _; push_cast at *; linarith
  have r1 : r < 86400 := by show q - _ * _ < 86400; push_cast at *; linarith
  have f0 := Rat.floor_le q
  have f1 := Rat.lt_floor_add_one q
  have m : r.floor = q.floor - (q / ((86400 : Int) : Rat)).floor * 86400 := by
    apply le_antisymm
    · have : r.floor < q.floor - (q / ((86400 : Int) : Rat)).floor * 86400 + 1 := by
        rw [Rat.floor_lt_iff]; show q - _ * _ < _; push_cast at *; linarith
      omega
    · rw [Rat.le_floor_iff]; show _ ≤ q - _ * _; push_cast at *; linarith
  have p0 : 0 ≤ r.floor := Rat.le_floor_iff.mpr (by simpa using r0)
  have p1 : r.floor < 86400 := Rat.floor_lt_iff.mpr (by simpa using r1)
  exact ⟨r0, by omega⟩

theorem hour_eq (t : XR) : DatePrim.div (DatePrim.trunc (DatePrim.pymod t 86400)) 3600 = hourOfDay t := by
  cases t with
  | fin q =>
    obtain ⟨r0, m⟩ := mod_floor q
    simp only [DatePrim.pymod, DatePrim.trunc, DatePrim.div, hourOfDay, r0, if_true, m]
    congr 1
  | _ => rfl

/-- `-tod`: the generated test is the model's, for every time -/
theorem todKeep_eq (t : XR) (hs : List XR) : Gen.DateFilter.todKeep t hs = memX (hourOfDay t) hs := by
  simp only [Gen.DateFilter.todKeep, hour_eq]

/-- on the test as written in /repo: a time `s` seconds past the whole hour `h` of a day (`0 < s < 3600`, e.g.
hh:30) is NOT selected by `-tod h`; the whole hour itself is.  Any day `d`, before 1970 too. -/
theorem C03_tod_exact_hour (d h s : Int) (hh : 0 ≤ h ∧ h < 24) (hs : 0 ≤ s ∧ s < 3600) :
    Gen.DateFilter.todKeep (.fin ((d * 86400 + h * 3600 + s : Int) : Rat)) [.fin (h : Rat)] = decide (s = 0) := by
  rw [todKeep_eq]
  have fl : (((d * 86400 + h * 3600 + s : Int) : Rat)).floor % 86400 = h * 3600 + s := by
    rw [Rat.floor_intCast]; omega
  simp only [hourOfDay, fl, memX, List.any_cons, List.any_nil, Bool.or_false, XR.eqb_fin, decide_eq_decide]
  constructor
  · intro e
    have e2 : ((h * 3600 + s : Int) : Rat) = (h : Rat) * 3600 := by rw [← e]; ring
    have e3 : (h * 3600 + s : Int) = h * 3600 := by exact_mod_cast e2
    omega
  · intro e; subst e; push_cast; ring

example : Gen.DateFilter.todKeep (.fin 1800) [.fin 0] = false := by decide +kernel
example : Gen.DateFilter.todKeep (.fin (-86400 + 3600)) [.fin 1] = true := by decide +kernel
/-- a pre-1970 half-hour time: the day is the one that contains it (floor), not the next one (truncation) -/
example : Gen.DateFilter.dateKeep (.fin (-1800)) [.fin (-86400)] = true
    ∧ Gen.DateFilter.dateKeep (.fin (-1800)) [.fin 0] = false := by decide +kernel

end VerifModel.GenEq.DateFilter
