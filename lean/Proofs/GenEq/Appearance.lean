import VerifModel.Model.FigProps
/-
  GenEq for C17 — the numeric tables on which the option routes are computed (Gen/Appearance.lean,
  `…N`) are the generated string tables with every string replaced by its index in `sym`
  (re-checked on every run against the regenerated file).
-/
namespace VerifModel.GenEq.Appearance
open VerifModel.FigProps
open VerifModel.Gen.Appearance

theorem tables_interned :
    flagLocal = flagLocalN.map (fun e => (symAt e.1, symAt e.2.1, symAt e.2.2)) ∧
    localPost = localPostN.map (fun e => (symAt e.1, symAt e.2)) ∧
    localAttr = localAttrN.map (fun e => (symAt e.1, symAt e.2)) ∧
    dataKw = dataKwN.map (fun e => (symAt e.1, symAt e.2)) ∧
    attrGuards = attrGuardsN.map (fun e => (symAt e.1, symAt e.2.1, symAt e.2.2)) ∧
    attrConv = attrConvN.map (fun e => (symAt e.1, symAt e.2.1, symAt e.2.2)) ∧
    callOrder = callOrderN.map (fun e => (symAt e.1, symAt e.2)) ∧
    problems = [] := by
  decide +kernel

theorem reads_interned : attrReads = attrReadsN.map (fun e => (symAt e.1, symAt e.2)) := by
  decide +kernel

theorem setters_interned :
    attrSetters = attrSettersN.map (fun e => (symAt e.1, symAt e.2.1, symAt e.2.2.1, symAt e.2.2.2)) := by
  decide +kernel

end VerifModel.GenEq.Appearance
