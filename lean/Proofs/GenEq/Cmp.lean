import VerifModel.Gen.Cmp
import VerifModel.Model.Interval
/-
  GenEq — the machine translation of verif's comparison kernels equals the
  hand-written model (re-checked on every run against the regenerated Gen/Cmp.lean).
-/
namespace VerifModel.GenEq.Cmp
open VerifModel

theorem withinArray_eq (I : Interval) (x : XR) :
    Gen.Cmp.withinArray I.lower I.upper I.lowerEq I.upperEq x = I.withinVal x := by
  simp [Gen.Cmp.withinArray, Interval.withinVal]

theorem withinScalar_eq (I : Interval) (x : XR) :
    Gen.Cmp.withinScalar I.lower I.upper I.lowerEq I.upperEq x = I.withinVal x := by
  simp [Gen.Cmp.withinScalar, Interval.withinVal]

theorem applyThreshold_eq (b : BinType) (t : XR) (u : Option XR) (x : XR) (hx : x.isNan = false) :
    Gen.Cmp.applyThreshold b.name t u x = applyThreshold b t u x := by
  cases b <;> cases u <;> simp [Gen.Cmp.applyThreshold, applyThreshold, BinType.name, hx] <;> decide

theorem applyThresholdProb_eq (b : BinType) (p : XR) (pu : Option XR) :
    Gen.Cmp.applyThresholdProb b.name p pu = applyThresholdProb b p pu := by
  cases b <;> cases pu <;>
    simp [Gen.Cmp.applyThresholdProb, applyThresholdProb, BinType.name] <;> decide

theorem intervalBody_eq (b : BinType) (t u : XR) :
    Gen.Cmp.intervalBody b.name t u = some (intervalOf b t (if b.isWithin then u else t)) := by
  cases b <;> simp [Gen.Cmp.intervalBody, intervalOf, BinType.name, BinType.isWithin] <;> decide

/-- a bin-type name outside the eight documented ones is rejected by `get_intervals` -/
theorem intervalBody_unknown (s : String) (t u : XR) (h : BinType.ofName? s = none) :
    Gen.Cmp.intervalBody s t u = none := by
  simp only [BinType.ofName?, BinType.all, List.find?_eq_none, List.mem_cons, List.not_mem_nil,
    or_false, forall_eq_or_imp, forall_eq, BinType.name, beq_iff_eq] at h
  simp [Gen.Cmp.intervalBody]
  grind

end VerifModel.GenEq.Cmp
