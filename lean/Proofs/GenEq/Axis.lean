import VerifModel.Gen.Axis
import VerifModel.Model.Axis
import Mathlib.Tactic.Ring
import Mathlib.Tactic.NormNum
import Mathlib.Data.Rat.Cast.Order
/-
  GenEq — the machine translation of the two arithmetic bucket functions of verif/axis.py
  (`Leadtimeday.compute_from_leadtimes`, `Timeofday.compute_from_times`; regenerated on every
  run as Gen/Axis.lean) equals the hand-written model of Model/Axis.lean, which the C11
  theorems are about.  An edit of either function changes the generated definition and this
  obligation is re-checked.  The proof scripts are generic (unfold, normalise casts and
  literals) so that a harmless rewrite (`24.0` for `24`, a temporary) does not break them.
-/
set_option linter.unusedTactic false
set_option linter.unreachableTactic false
namespace VerifModel.GenEq.Axis
open VerifModel VerifModel.Axis

theorem pyInt_eq (q : Rat) : Gen.Axis.pyInt q = truncate q := rfl

/-- `Leadtimeday`: generated = model, for every lead time -/
theorem leadtimeday_eq (l : Rat) : Gen.Axis.leadtimeday l = leadtimeDay l := by
  simp only [Gen.Axis.leadtimeday, leadtimeDay, pyInt_eq]
  first
    | rfl
    | (congr 1; first | rfl | (push_cast; ring) | norm_num)

/-- `Timeofday`: generated = model, for every unix time -/
theorem timeofday_eq (t : Int) : Gen.Axis.timeofday t = timeOfDay t := by
  simp only [Gen.Axis.timeofday, timeOfDay]
  first | rfl | (push_cast; ring) | norm_num

end VerifModel.GenEq.Axis
