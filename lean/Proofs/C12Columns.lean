import VerifModel.Model.OutputColumns
import VerifModel.Model.OutputTable
import Proofs.DataRefine
import Proofs.C11
import Proofs.C12
/-
  C12 — "one column per input file in command-line order (legend names if given), then one row per slice in axis
  order (ascending for data dimensions)": the value columns are the SCORED inputs (a climatology given with -c / -C is
  never a column), column j is input j; the axis values the rows are built from are strictly increasing.
-/
namespace VerifModel.C12
open VerifModel VerifModel.Decimal VerifModel.OutputColumns VerifModel.OutputTable VerifModel.DataRefine VerifModel.C03

/-- **Value columns = scored inputs.**  For every dataset the constructor accepts (with or without a climatology):
`num_inputs` is the number of scored files, `get_names()` is their names in command-line order (the climatology's
name is not among them), the legend is `-leg` or those names, every row of the matrix `_get_x_y` builds has exactly
one entry per scored file, and entry (i, j) is slice i of the score vector of input j. -/
theorem C12_columns_scored (scored : List Input) (cfg : Cfg) (D : DataS) (h : Data.init scored cfg = .ok D)
    (names : List String) (climName : String) (hn : names.length = scored.length)
    (nx : Nat) (score : Nat → List XR) :
    numInputs D = scored.length
    ∧ getNames D (inputNames cfg names climName) = names
    ∧ getLegend D (inputNames cfg names climName) none = names
    ∧ (∀ l, getLegend D (inputNames cfg names climName) (some l) = l)
    ∧ (yMatrix nx (numInputs D) score).length = nx
    ∧ (∀ row ∈ yMatrix nx (numInputs D) score, row.length = names.length)
    ∧ ∀ i j v, j < scored.length → (score j)[i]? = some v → i < nx →
        ((yMatrix nx (numInputs D) score)[i]?.bind (·[j]?)) = some v := by
  have F := init_facts scored cfg D h
  have hnum : numInputs D = scored.length := by
    unfold numInputs
    rw [F.hInputs, F.hCfg]
    unfold Spec.DataCoord.allInputs
    cases cfg.clim <;> simp
  have hnames : getNames D (inputNames cfg names climName) = names := by
    unfold getNames inputNames
    rw [F.hCfg]
    cases cfg.clim <;> simp
  refine ⟨hnum, hnames, hnames, fun _ => rfl, by simp [yMatrix], ?_, ?_⟩
  · intro row hrow
    simp only [yMatrix, List.mem_map, List.mem_range] at hrow
    obtain ⟨i, _, rfl⟩ := hrow
    simp [hnum, hn]
  · intro i j v hj hv hi
    simp only [yMatrix, hnum]
    rw [List.getElem?_map, List.getElem?_range hi]
    simp only [Option.map_some, Option.bind_some]
    rw [List.getElem?_map, List.getElem?_range hj]
    simp only [Option.map_some, List.getD_eq_getElem?_getD, hv, Option.getD_some]

/-- non-vacuity: two scored files and a climatology → two columns, names without the climatology's -/
example : numInputs { (default : DataS) with inputs := [default, default, default],
                                              cfg := { (default : Cfg) with clim := some default } } = 2
    ∧ getNames { (default : DataS) with cfg := { (default : Cfg) with clim := some default } }
        (inputNames { (default : Cfg) with clim := some default } ["a", "b"] "clim") = ["a", "b"] := by
  decide

/-- The table the writers print from that matrix: header = descriptor names ++ legend, and (when the legend is
not overridden) its value part is exactly the names of the scored files — `C12_csv_cell` / `C12_csv_shape` then say
that field `names.length + j` of line i+1 is `%g` of input j's score. -/
def tableOf {δ : Type} (descNames : List Str) (legend : List String) (descRows : List (List δ))
    (y : List (List XR)) : Table δ :=
  { names := descNames, legend := legend.map String.toList, rows := descRows.zip y }

theorem C12_table_columns {δ : Type} (scored : List Input) (cfg : Cfg) (D : DataS)
    (h : Data.init scored cfg = .ok D) (names : List String) (climName : String)
    (hn : names.length = scored.length) (descNames : List Str) (descRows : List (List δ))
    (score : Nat → List XR) :
    let t := tableOf descNames (getLegend D (inputNames cfg names climName) none) descRows
      (yMatrix descRows.length (numInputs D) score)
    t.legend = names.map String.toList ∧ t.legend.length = scored.length
    ∧ t.rows.length = descRows.length
    ∧ ∀ r ∈ t.rows, r.2.length = scored.length := by
  obtain ⟨h1, _, h3, _, h5, h6, _⟩ :=
    C12_columns_scored scored cfg D h names climName hn descRows.length score
  refine ⟨by simp [tableOf, h3], by simp [tableOf, h3, hn], by simp [tableOf, h5], ?_⟩
  intro r hr
  have := (List.of_mem_zip hr).2
  rw [h6 _ this, hn]

/-! ### row order -/

/-- **Rows ascending (data dimensions).**  The verified times, lead times and location ids of every dataset the
constructor accepts are strictly increasing (NaN-free): the rows of `-x time`, `-x leadtime` and of the location-like
axes (`-x location|lat|lon|elev` all list `Data.locations`, i.e. id order) are in strictly increasing order of
their leading field. -/
theorem C12_rows_ascending (scored : List Input) (cfg : Cfg) (D : DataS) (h : Data.init scored cfg = .ok D) :
    StrictAsc D.times ∧ StrictAsc D.leads ∧ StrictAsc (D.locs.map (·.id)) := by
  obtain ⟨first, rest, useLocs, _, _, _, hD⟩ := init_cases scored cfg D h
  subst hD
  obtain ⟨_, st, _⟩ := C03_commonValues cfg.times first.times (rest.map (·.times))
  obtain ⟨_, sl, _⟩ := C03_commonValues cfg.leads first.leads (rest.map (·.leads))
  obtain ⟨_, sx, _⟩ := C03_commonValues (some useLocs) (first.locs.map (·.id))
    (rest.map fun I => I.locs.map (·.id))
  refine ⟨?_, sl, ?_⟩
  · show StrictAsc (mTimes cfg _)
    rw [mTimes_eq]; exact strictAsc_filter _ _ st
  · have hx : (List.map (fun i => first.locs.getD i default)
        (indicesOf (commonValues (some useLocs) ((first :: rest).map fun I => I.locs.map (·.id)))
          (first.locs.map (·.id)))).map (·.id)
        = commonValues (some useLocs) ((first :: rest).map fun I => I.locs.map (·.id)) := by
      apply locs_ids
      intro v hv
      have := commonValues_all (some useLocs) (first.locs.map fun (x : Loc) => x.id)
        (rest.map fun (I : Input) => I.locs.map fun (x : Loc) => x.id) v hv
      rw [List.all_cons, Bool.and_eq_true] at this
      exact this.1
    show StrictAsc (List.map (·.id) (initBody scored cfg first rest useLocs).locs)
    unfold initBody
    rw [hx]; exact sx

/-- **Rows ascending (derived axes).**  The axis values of every bucketed axis (year, month, week, day, timeofday,
dayofyear, dayofmonth, monthofyear, leadtime, leadtimeday) are `np.unique` of the bucket values: pairwise strictly
increasing whatever the order of the dimension; `-x time` keeps the (strictly increasing) times. -/
theorem C12_rows_ascending_axis (k : Axis.Kind) (D : Axis.Dims) (ht : D.times.Pairwise (· < ·)) :
    match k.shape with
    | .byLocation _ => True          -- listed in `Data.locations` order: `C12_rows_ascending`, third part
    | .pooledAll => True             -- one row
    | _ => (Axis.axisValues k D).Pairwise (· < ·) := by
  cases hs : k.shape with
  | byLocation _ => trivial
  | pooledAll => trivial
  | byTime =>
    simp only [Axis.axisValues, hs]
    exact List.Pairwise.map _ (fun a b hab => by exact_mod_cast hab) ht
  | timeBucket f => simp only [Axis.axisValues, hs]; exact C11.sorted_unique _
  | leadBucket g => simp only [Axis.axisValues, hs]; exact C11.sorted_unique _

example : (Axis.axisValues .leadtime ⟨[0], [6, 0, 3, 6], []⟩) = [0, 3, 6] := by decide +kernel

/-- **Location descriptors.**  The leading fields of row i of a location-like axis are headed id, lat, lon, elev and
are the id, latitude, longitude and elevation of ONE location record, the i-th verified location (whose ids ascend,
`C12_rows_ascending`). -/
theorem C12_loc_descs (D : DataS) (i : Nat) (l : Loc) (h : D.locs[i]? = some l) :
    (locDescs D).map (·.1) = ["id", "lat", "lon", "elev"]
    ∧ (locDescs D).map (fun c => c.2[i]?) = [some l.id, some l.lat, some l.lon, some l.elev] := by
  simp [locDescs, h]

/-! ### text: the score cell -/

/-- … and in line i of the text layout the score of input f is `"%.4g" % y[i][f]` (4 significant digits), at column
(number of descriptors) + f — the text analogue of `C12_csv_cell`. -/
theorem C12_text_cell (t : Table Desc) (h : TextOk t = true) (i f : Nat) (r : List Desc × List XR) (y : XR)
    (hr : t.rows[i]? = some r) (hy : r.2[f]? = some y) :
    ((parseText (textChars t))[i + 1]?.bind (·[t.names.length + f]?)) = some (fmtGChars 4 y) := by
  have hlen : r.1.length = t.names.length := by
    simp only [TextOk, Bool.and_eq_true, List.all_eq_true, beq_iff_eq] at h
    exact (h.2 r (List.mem_of_getElem? hr)).1.1
  rw [(C12_text_lines t h).2.2 i, hr]
  simp [textFields, ← hlen, List.getElem?_append_right, hy]

end VerifModel.C12
