import Proofs.C06
import Proofs.GenEq.Abcd
import VerifModel.Model.ContingencyF
/-
  C06 — the optional forecast interval of `compute_from_obs_fcst` / `_compute_abcd`.
-/
namespace VerifModel.C06
open VerifModel XR

private theorem countP_split {α : Type} (l : List α) (p q : α → Bool) :
    l.countP (fun x => p x && q x) + l.countP (fun x => p x && !q x) = l.countP p := by
  induction l with
  | nil => rfl
  | cons x xs ih =>
    simp only [List.countP_cons]
    cases p x <;> cases q x <;> simp <;> omega

private theorem countP_split' {α : Type} (l : List α) (p q : α → Bool) :
    l.countP (fun x => p x && q x) + l.countP (fun x => !p x && q x) = l.countP q := by
  induction l with
  | nil => rfl
  | cons x xs ih =>
    simp only [List.countP_cons]
    cases p x <;> cases q x <;> simp <;> omega

/-- **C06, forecast interval.**  The machine translation of `_compute_abcd(obs, fcst, interval, f_interval)`
is the counting model `abcdF`; without a forecast interval (`f_interval=None`) the forecasts' event is
membership in `interval` — the same event as for the observations —, with one it is membership in
`f_interval` while the observations' event is still `interval`: the number of forecast events (hits +
false alarms) is the number of valid pairs whose forecast lies in the forecast interval and depends on no
other interval, the number of observed events (hits + misses) is the number of valid pairs whose
observation lies in `interval` whatever the forecast interval is; and in every case the four counts sum to
the number of valid pairs. -/
theorem C06_forecast_interval (I : Interval) (fi : Option Interval) (obs fcst : Vec) :
    Gen.Abcd.abcd I fi obs fcst = GenEq.Abcd.cells (abcdF I fi obs fcst)
    ∧ abcdF I none obs fcst = abcd I I obs fcst
    ∧ (∀ J, abcdF I (some J) obs fcst = abcd I J obs fcst)
    ∧ ∀ t, abcdF I fi obs fcst = some t →
        t.total = (validPairs obs fcst).length
        ∧ t.a + t.b = (validPairs obs fcst).countP (fun p => (fcstInterval I fi).withinVal p.2)
        ∧ t.a + t.c = (validPairs obs fcst).countP (fun p => I.withinVal p.1) := by
  refine ⟨?_, rfl, fun _ => rfl, ?_⟩
  · cases fi with
    | none => exact GenEq.Abcd.abcd_default_eq I obs fcst
    | some J => exact GenEq.Abcd.abcd_eq I J obs fcst
  · intro t h
    obtain ⟨h0, ha, hb, hc, _⟩ := C06_counts I (fcstInterval I fi) obs fcst t h
    refine ⟨h0, ?_, ?_⟩
    · rw [ha, hb]
      exact countP_split _ (fun p : XR × XR => (fcstInterval I fi).withinVal p.2) (fun p : XR × XR => I.withinVal p.1)
    · rw [ha, hc]
      exact countP_split' _ (fun p : XR × XR => (fcstInterval I fi).withinVal p.2) (fun p : XR × XR => I.withinVal p.1)

/-- the score with a forecast interval is the textbook formula of that table (infinities → NaN), the same
function of the table as without one -/
theorem C06_forecast_interval_score (T : Tr) (name : String) (I : Interval) (fi : Option Interval) (obs fcst : Vec) :
    contScoreF T name I fi obs fcst = contScore T name I (fcstInterval I fi) obs fcst
    ∧ contScoreF T name I none obs fcst = contScore T name I I obs fcst := ⟨rfl, rfl⟩

/-- non-vacuity: obs event `> 1`, forecast event `>= 0`; three pairs, one masked: a table exists, its
forecast marginal (2) differs from the one the observation interval would give (0) -/
example : abcdF ⟨.fin 1, .pinf, false, false⟩ (some ⟨.fin 0, .pinf, true, false⟩)
      [.fin 2, .fin 0, .nan] [.fin 0, .fin 0, .fin 5] = some ⟨1, 1, 0, 0⟩
    ∧ abcdF ⟨.fin 1, .pinf, false, false⟩ none [.fin 2, .fin 0, .nan] [.fin 0, .fin 0, .fin 5] = some ⟨0, 0, 1, 1⟩ := by
  decide +kernel

end VerifModel.C06
