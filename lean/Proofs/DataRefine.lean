import Proofs.C01
import Proofs.C02
import Proofs.C03
import VerifModel.Spec.DataCoord
/-
  End-to-end refinement: the index-based model of `verif.data.Data` (Model/Data.lean) computes the
  coordinate-based specification (Spec/DataCoord.lean).

    getScores_refines          Data.init scored cfg = .ok D → all arrays of the declared shape →
                               D.getScores r = specScores scored cfg r          (every request r)
    C03_dims_are_intersection  D.times / D.leads / D.locs ids = specDims;  C03_dims_error: error ⇒ none
    C01_same_case_set          same contributing coordinates for any two scored inputs
    C02_order_irrelevant       equivalent datasets (same coordinate functions, any order) ⇒ same answers;
                               C02_reordered_inputs / C02_permuted_inputs: the concrete reorderings

  Plan of the proof: A–C value sets and the location options, D what `Data.init` establishes,
  E–F arrays as tables over coordinates (`cut` = tabulated lookup, `propagate`, `applySel`),
  G–H loading / columns as case lists, I per-case validity and values, J the final assembly,
  K the theorem, L–P corollaries and concrete examples.
-/
namespace VerifModel.DataRefine
open VerifModel XR Spec.DataCoord C03

/-! ## A. value sets: `memX`, strictly ascending lists -/

theorem eqb_isNan_false {a b : XR} (h : XR.eqb a b = true) : a.isNan = false := by
  cases a <;> cases b <;> simp_all [XR.eqb, XR.isNan]

theorem memX_iff {v : XR} {xs : List XR} : memX v xs = true ↔ v ∈ xs ∧ v.isNan = false := by
  unfold memX
  rw [List.any_eq_true]
  constructor
  · rintro ⟨w, hw, he⟩
    have := eqb_eq he
    subst this
    exact ⟨hw, eqb_isNan_false he⟩
  · rintro ⟨hm, hn⟩
    exact ⟨v, hm, eqb_refl_of_notNan hn⟩

theorem memX_congr {v : XR} {xs ys : List XR} (h : ∀ w, w ∈ xs ↔ w ∈ ys) : memX v xs = memX v ys := by
  rw [Bool.eq_iff_iff, memX_iff, memX_iff, h v]

theorem lt_asymm' {a b : XR} (h : XR.lt a b = true) : XR.lt b a = false := by
  cases hba : XR.lt b a with
  | false => rfl
  | true => have := lt_trans' h hba; rw [lt_irrefl'] at this; cases this

theorem lt_ne' {a b : XR} (h : XR.lt a b = true) : a ≠ b := by
  intro e; subst e; rw [lt_irrefl'] at h; cases h

theorem strictAsc_tail {a : XR} {rest : List XR} (h : StrictAsc (a :: rest)) : StrictAsc rest := by
  cases rest with
  | nil => trivial
  | cons _ _ => exact h.2

/-- a strictly ascending list is determined by its members -/
theorem strictAsc_ext (a b : List XR) (ha : StrictAsc a) (hb : StrictAsc b)
    (h : ∀ v, v ∈ a ↔ v ∈ b) : a = b := by
  induction a generalizing b with
  | nil =>
    cases b with
    | nil => rfl
    | cons y ys => exact absurd ((h y).2 (by simp)) (by simp)
  | cons x xs ih =>
    cases b with
    | nil => exact absurd ((h x).1 (by simp)) (by simp)
    | cons y ys =>
      have hx := head_lt_of_strictAsc ha
      have hy := head_lt_of_strictAsc hb
      have hxy : x = y := by
        have h1 : x ∈ y :: ys := (h x).1 (by simp)
        have h2 : y ∈ x :: xs := (h y).2 (by simp)
        rcases List.mem_cons.1 h1 with e | h1
        · exact e
        · rcases List.mem_cons.1 h2 with e | h2
          · exact e.symm
          · have := lt_asymm' (hx y h2)
            rw [hy x h1] at this; cases this
      subst hxy
      congr 1
      apply ih ys (strictAsc_tail ha) (strictAsc_tail hb)
      intro v
      constructor
      · intro hv
        rcases List.mem_cons.1 ((h v).1 (List.mem_cons_of_mem _ hv)) with e | h'
        · exact absurd e.symm (lt_ne' (hx v hv))
        · exact h'
      · intro hv
        rcases List.mem_cons.1 ((h v).2 (List.mem_cons_of_mem _ hv)) with e | h'
        · exact absurd e.symm (lt_ne' (hy v hv))
        · exact h'

theorem mem_iff_of_memX {a b : List XR} (ha : NoNan a) (hb : NoNan b) (h : ∀ v, memX v a = memX v b)
    (v : XR) : v ∈ a ↔ v ∈ b := by
  constructor
  · intro hv
    have : memX v b = true := by rw [← h v]; exact memX_iff.2 ⟨hv, ha v hv⟩
    exact (memX_iff.1 this).1
  · intro hv
    have : memX v a = true := by rw [h v]; exact memX_iff.2 ⟨hv, hb v hv⟩
    exact (memX_iff.1 this).1

theorem strictAsc_ext' (a b : List XR) (ha : StrictAsc a) (hb : StrictAsc b) (na : NoNan a) (nb : NoNan b)
    (h : ∀ v, memX v a = memX v b) : a = b :=
  strictAsc_ext a b ha hb (mem_iff_of_memX na nb h)

theorem memX_filter_pred (v : XR) (xs : List XR) (p : XR → Bool) :
    memX v (xs.filter p) = (memX v xs && p v) := by
  rw [Bool.eq_iff_iff, memX_iff, Bool.and_eq_true, memX_iff, List.mem_filter]
  tauto

theorem sortU_id (a : List XR) (ha : StrictAsc a) (na : NoNan a) : sortU a = a := by
  obtain ⟨s1, s2, s3⟩ := C03_sortU a
  apply strictAsc_ext' _ _ s1 ha s2 na
  intro v
  rw [s3 v, memX_filter_pred]
  cases hm : memX v a with
  | false => rfl
  | true => simp [(memX_iff.1 hm).2]

/-! ## B. the verified value lists are the specification's sets -/

theorem memX_commonSet (user : Option (List XR)) (c : List XR) (cols : List (List XR)) (v : XR) :
    memX v (commonSet user (c :: cols))
      = (memX v c && ((c :: cols).all (fun k => memX v k)
          && (match user with | some u => memX v u | none => true)) && !v.isNan) := by
  unfold commonSet
  rw [(C03_sortU _).2.2 v, memX_filter_pred, memX_filter_pred]
  rfl

theorem commonValues_none (c : List XR) (cols : List (List XR)) :
    commonValues none (c :: cols) = commonSet none (c :: cols) := by
  obtain ⟨m, s, n⟩ := C03_commonValues none c cols
  obtain ⟨s1, s2, _⟩ := C03_sortU ((List.headD (c :: cols) []).filter fun v =>
    (c :: cols).all (fun k => memX v k) && true)
  apply strictAsc_ext' _ _ s (by exact s1) n (by exact s2)
  intro v
  rw [m v, memX_commonSet, memX_filter_pred]
  simp only [Option.getD_none, List.all_cons]
  cases memX v c <;> cases (cols.all fun k => memX v k) <;> cases v.isNan <;> rfl

theorem commonValues_some (a u c : List XR) (cols : List (List XR)) (h : ∀ v, memX v a = memX v u) :
    commonValues (some a) (c :: cols) = commonSet (some u) (c :: cols) := by
  obtain ⟨m, s, n⟩ := C03_commonValues (some a) c cols
  obtain ⟨s1, s2, _⟩ := C03_sortU ((List.headD (c :: cols) []).filter fun v =>
    (c :: cols).all (fun k => memX v k) && memX v u)
  apply strictAsc_ext' _ _ s (by exact s1) n (by exact s2)
  intro v
  rw [m v, memX_commonSet, memX_filter_pred]
  simp only [Option.getD_some, List.all_cons, h v]
  cases memX v c <;> cases (cols.all fun k => memX v k) <;> cases v.isNan <;> cases memX v u <;> rfl

/-! ## C. the location options: `useLocations` (model) selects the set `allowedLocs` (spec) -/

/-- same error behaviour, same members -/
def LocRel : Except String (List XR) → Option (List XR) → Prop
  | .ok u, some a => ∀ v, v ∈ u ↔ v ∈ a
  | .error _, none => True
  | _, _ => False

theorem LocRel.bind {m : Except String (List XR)} {s : Option (List XR)}
    {f : List XR → Except String (List XR)} {g : List XR → Option (List XR)}
    (h : LocRel m s) (hfg : ∀ u a, (∀ v, v ∈ u ↔ v ∈ a) → LocRel (f u) (g a)) :
    LocRel (m >>= f) (s.bind g) := by
  cases m with
  | error e => cases s with
    | none => exact h
    | some a => exact h.elim
  | ok u => cases s with
    | none => exact h.elim
    | some a => exact hfg u a h

theorem isEmpty_congr {a b : List XR} (h : ∀ v, v ∈ a ↔ v ∈ b) : a.isEmpty = b.isEmpty := by
  cases a with
  | nil =>
    cases b with
    | nil => rfl
    | cons y ys => exact absurd ((h y).2 (by simp)) (by simp)
  | cons x xs =>
    cases b with
    | nil => exact absurd ((h x).1 (by simp)) (by simp)
    | cons y ys => rfl

theorem mem_filter_congr {a b : List XR} (p : XR → Bool) (h : ∀ v, v ∈ a ↔ v ∈ b) (v : XR) :
    v ∈ a.filter p ↔ v ∈ b.filter p := by
  simp only [List.mem_filter, h v]

theorem mem_inter_comm (a b : List XR) (v : XR) : v ∈ inter a b ↔ v ∈ inter b a := by
  unfold inter
  simp only [List.mem_filter, memX_iff]
  tauto

def mStage1 (first : Input) (cfg : Cfg) : Except String (List XR) :=
  if cfg.latRange.isSome || cfg.lonRange.isSome then
      let latR := cfg.latRange.getD (.ninf, .pinf)
      let lonR := cfg.lonRange.getD (.ninf, .pinf)
      let ll := (first.locs.filter fun l => inRange latR l.lat && inRange lonR l.lon).map (·.id)
      let u := match cfg.locations with
        | some ls => ls.filter fun l => memX l ll
        | none => ll
      if u.isEmpty then .error "No available locations within lat/lon range" else .ok u
    else match cfg.locations with
      | some ls => .ok ls
      | none => .ok (first.locs.map (·.id))

def mStage2 (first : Input) (cfg : Cfg) (u1 : List XR) : Except String (List XR) :=
  match cfg.elevRange with
    | some r =>
      let el := (first.locs.filter fun l => inRange r l.elev).map (·.id)
      let u := u1.filter fun l => memX l el
      if u.isEmpty then .error "No available locations within elevation range" else .ok u
    | none => .ok u1

def mStage3 (cfg : Cfg) (u2 : List XR) : Except String (List XR) :=
  match cfg.locationsX with
  | some xs => .ok (u2.filter fun l => !memX l xs)
  | none => .ok u2

theorem useLocations_stages (first : Input) (cfg : Cfg) :
    useLocations first cfg = (mStage1 first cfg >>= fun u1 => mStage2 first cfg u1 >>= mStage3 cfg) := rfl

theorem stage1_rel (first : Input) (cfg : Cfg) : LocRel (mStage1 first cfg) (allowedByRange first cfg) := by
  unfold mStage1 allowedByRange
  cases hr : (cfg.latRange.isSome || cfg.lonRange.isSome) with
  | false =>
    cases hl : cfg.locations <;> simp [LocRel]
  | true =>
    cases hl : cfg.locations with
    | none =>
      simp only [if_true, Bool.true_and, idsWhere]
      split <;> simp_all [LocRel]
    | some ls =>
      simp only [if_true, Bool.true_and]
      have hm := mem_inter_comm ls
        (idsWhere first fun l => inRange (cfg.latRange.getD (.ninf, .pinf)) l.lat
          && inRange (cfg.lonRange.getD (.ninf, .pinf)) l.lon)
      have he := isEmpty_congr hm
      unfold inter idsWhere at hm he
      unfold inter idsWhere
      rw [he]
      split
      · trivial
      · exact hm

theorem stage2_rel (first : Input) (cfg : Cfg) (u a : List XR) (h : ∀ v, v ∈ u ↔ v ∈ a) :
    LocRel (mStage2 first cfg u) (allowedByElev first cfg a) := by
  unfold mStage2 allowedByElev
  cases cfg.elevRange with
  | none => exact h
  | some r =>
    have hm : ∀ v, v ∈ (u.filter fun l => memX l ((first.locs.filter fun l => inRange r l.elev).map (·.id)))
        ↔ v ∈ inter a (idsWhere first fun l => inRange r l.elev) :=
      mem_filter_congr (fun l => memX l ((first.locs.filter fun l => inRange r l.elev).map (·.id))) h
    have he := isEmpty_congr hm
    simp only []
    rw [he]
    by_cases hc : (inter a (idsWhere first fun l => inRange r l.elev)).isEmpty = true
    · rw [if_pos hc, if_pos hc]; trivial
    · rw [if_neg hc, if_neg hc]; exact hm

theorem stage3_rel (cfg : Cfg) (u a : List XR) (h : ∀ v, v ∈ u ↔ v ∈ a) :
    LocRel (mStage3 cfg u) (allowedByExclusion cfg a) := by
  unfold mStage3 allowedByExclusion
  cases cfg.locationsX with
  | none => exact h
  | some xs => exact mem_filter_congr _ h

theorem useLocations_spec (first : Input) (cfg : Cfg) :
    LocRel (useLocations first cfg) (allowedLocs first cfg) := by
  rw [useLocations_stages]
  unfold allowedLocs
  exact (stage1_rel first cfg).bind fun u a h =>
    (stage2_rel first cfg u a h).bind (stage3_rel cfg)

/-! ## D. what `Data.init` establishes -/

theorem commonValues_all (aux : Option (List XR)) (c : List XR) (cols : List (List XR)) (v : XR)
    (hv : v ∈ commonValues aux (c :: cols)) : (c :: cols).all (fun k => memX v k) = true := by
  obtain ⟨m, _, n⟩ := C03_commonValues aux c cols
  have := m v
  rw [memX_iff.2 ⟨hv, n v hv⟩] at this
  have h2 := this.symm
  rw [Bool.and_eq_true] at h2
  exact h2.2

/-- recomputing the common values with a sub-list of them as the user list changes nothing -/
theorem commonValues_self (t2 c : List XR) (cols : List (List XR)) (hs : StrictAsc t2) (hn : NoNan t2)
    (hall : ∀ v ∈ t2, (c :: cols).all (fun k => memX v k) = true) :
    commonValues (some t2) (c :: cols) = t2 := by
  obtain ⟨m, s, n⟩ := C03_commonValues (some t2) c cols
  apply strictAsc_ext' _ _ s hs n hn
  intro v
  rw [m v, Option.getD_some, memX_filter_pred]
  cases hm : memX v t2 with
  | false => rfl
  | true =>
    obtain ⟨h1, h2⟩ := memX_iff.1 hm
    simp [h2, hall v h1]

/-- the location records found for the verified ids carry those ids -/
theorem locs_ids (first : Input) (xv : List XR)
    (h : ∀ v ∈ xv, memX v (first.locs.map (·.id)) = true) :
    (List.map (fun i => first.locs.getD i default) (indicesOf xv (first.locs.map (·.id)))).map (·.id) = xv := by
  unfold indicesOf
  rw [List.map_map, List.map_map]
  conv => rhs; rw [← List.map_id xv]
  apply List.map_congr_left
  intro v hv
  obtain ⟨w, hw, he, _⟩ := C02.C02_index_correct v _ (h v hv)
  have hwv := eqb_eq he
  subst hwv
  simp only [Function.comp, id]
  rw [List.getElem?_map] at hw
  cases hl : first.locs[firstIdx v (first.locs.map (·.id))]? with
  | none => simp [hl] at hw
  | some loc =>
    simp only [hl, Option.map_some, Option.some.injEq] at hw
    simp [List.getD_eq_getElem?_getD, hl, hw]

/-- the `-d` / `-tod` filters of `Data.init` -/
def mTimes (cfg : Cfg) (tv : List XR) : List XR :=
  match cfg.tods with
  | some hs => List.filter (fun t => memX (hourOfDay t) hs)
      (match cfg.dateStarts with
      | some ds => List.filter (fun t => memX (dayStart t) ds) tv
      | none => tv)
  | none =>
    match cfg.dateStarts with
    | some ds => List.filter (fun t => memX (dayStart t) ds) tv
    | none => tv

theorem mTimes_eq (cfg : Cfg) (tv : List XR) :
    mTimes cfg tv = tv.filter (fun t => inDates cfg t && inTods cfg t) := by
  unfold mTimes inDates inTods
  cases cfg.tods <;> cases cfg.dateStarts <;> simp [List.filter_filter, Bool.and_comm]

structure InitFacts (scored : List Input) (cfg : Cfg) (D : DataS) : Prop where
  hInputs : D.inputs = allInputs scored cfg
  hN : D.nScored = scored.length
  hCfg : D.cfg = cfg
  hDims : specDims scored cfg = some ⟨D.times, D.leads, D.locs.map (·.id)⟩
  hTimesI : D.timesI = D.inputs.map fun I => indicesOf D.times I.times
  hLeadsI : D.leadsI = D.inputs.map fun I => indicesOf D.leads I.leads
  hLocsI : D.locsI = D.inputs.map fun I => indicesOf (D.locs.map (·.id)) (I.locs.map (·.id))

def initBody (scored : List Input) (cfg : Cfg) (first : Input) (rest : List Input) (useLocs : List XR) : DataS :=
  let inputs := first :: rest
  let tvals := commonValues cfg.times (inputs.map (·.times))
  let lvals := commonValues cfg.leads (inputs.map (·.leads))
  let xvals := commonValues (some useLocs) (inputs.map fun I => I.locs.map (·.id))
  let t2 := mTimes cfg tvals
  { inputs := inputs, nScored := scored.length, cfg := cfg,
    times := t2, leads := lvals,
    locs := (indicesOf xvals (first.locs.map (·.id))).map fun i => first.locs.getD i default,
    timesI := inputs.map fun I => indicesOf (commonValues (some t2) (inputs.map (·.times))) I.times,
    leadsI := inputs.map fun I => indicesOf lvals I.leads,
    locsI := inputs.map fun I => indicesOf xvals (I.locs.map (·.id)) }

theorem init_cases (scored : List Input) (cfg : Cfg) (D : DataS) (h : Data.init scored cfg = .ok D) :
    ∃ first rest useLocs, scored ++ cfg.clim.toList = first :: rest
      ∧ useLocations first cfg = .ok useLocs
      ∧ checkNonEmpty (commonValues cfg.times ((first :: rest).map (·.times)))
          (commonValues cfg.leads ((first :: rest).map (·.leads)))
          (commonValues (some useLocs) ((first :: rest).map fun I => I.locs.map (·.id))) = .ok ()
      ∧ D = initBody scored cfg first rest useLocs := by
  unfold Data.init at h
  cases hin : scored ++ cfg.clim.toList with
  | nil => simp [hin, bind, Except.bind, throw, throwThe, MonadExceptOf.throw] at h
  | cons first rest =>
    simp only [hin, bind, Except.bind, pure, Except.pure] at h
    cases hu : useLocations first cfg with
    | error e => simp only [hu, reduceCtorEq] at h
    | ok useLocs =>
      simp only [hu] at h
      cases hc : checkNonEmpty (commonValues cfg.times (List.map (fun x => x.times) (first :: rest)))
        (commonValues cfg.leads (List.map (fun x => x.leads) (first :: rest)))
        (commonValues (some useLocs) (List.map (fun I => List.map (fun x => x.id) I.locs) (first :: rest))) with
      | error e => simp only [hc, reduceCtorEq] at h
      | ok u =>
        simp only [hc, Except.ok.injEq] at h
        exact ⟨first, rest, useLocs, rfl, hu, hc, h.symm⟩

theorem commonValues_commonSet_opt (user : Option (List XR)) (c : List XR) (cols : List (List XR)) :
    commonValues user (c :: cols) = commonSet user (c :: cols) := by
  cases user with
  | none => exact commonValues_none c cols
  | some a => exact commonValues_some a a c cols (fun _ => rfl)

theorem isEmpty_false_of_ne {α : Type} {l : List α} (h : l ≠ []) : l.isEmpty = false := by
  cases l with
  | nil => exact absurd rfl h
  | cons _ _ => rfl

theorem init_facts (scored : List Input) (cfg : Cfg) (D : DataS) (h : Data.init scored cfg = .ok D) :
    InitFacts scored cfg D := by
  obtain ⟨first, rest, useLocs, hin, hu, hc, hD⟩ := init_cases scored cfg D h
  subst hD
  obtain ⟨hne1, hne2, hne3⟩ := (C03_empty_error _ _ _).1 hc
  obtain ⟨_, st, nt⟩ := C03_commonValues cfg.times first.times (rest.map (·.times))
  -- the recomputed index basis is the filtered list itself
  have ht2 : commonValues (some (mTimes cfg (commonValues cfg.times ((first :: rest).map (·.times)))))
      ((first :: rest).map (·.times))
      = mTimes cfg (commonValues cfg.times ((first :: rest).map (·.times))) := by
    apply commonValues_self _ first.times (rest.map (·.times))
    · rw [mTimes_eq]; exact strictAsc_filter _ _ st
    · rw [mTimes_eq]; intro v hv; exact nt v (List.mem_filter.1 hv).1
    · rw [mTimes_eq]; intro v hv
      exact commonValues_all cfg.times _ _ v (List.mem_filter.1 hv).1
  -- the location records carry the verified ids
  have hx : (List.map (fun i => first.locs.getD i default)
      (indicesOf (commonValues (some useLocs) ((first :: rest).map fun I => I.locs.map (·.id)))
        (first.locs.map (·.id)))).map (·.id)
      = commonValues (some useLocs) ((first :: rest).map fun I => I.locs.map (·.id)) := by
    apply locs_ids
    intro v hv
    have := commonValues_all (some useLocs) (first.locs.map fun (x : Loc) => x.id) (rest.map fun (I : Input) => I.locs.map fun (x : Loc) => x.id) v hv
    rw [List.all_cons, Bool.and_eq_true] at this
    exact this.1
  refine ⟨hin.symm, rfl, rfl, ?_, ?_, rfl, ?_⟩
  · -- dimensions
    have hrel := useLocations_spec first cfg
    rw [hu] at hrel
    cases ha : allowedLocs first cfg with
    | none => rw [ha] at hrel; exact hrel.elim
    | some allowed =>
      rw [ha] at hrel
      have e1 : commonValues cfg.times ((first :: rest).map (·.times))
          = commonSet cfg.times ((first :: rest).map (·.times)) :=
        commonValues_commonSet_opt cfg.times first.times (rest.map fun (x : Input) => x.times)
      have e2 : commonValues cfg.leads ((first :: rest).map (·.leads))
          = commonSet cfg.leads ((first :: rest).map (·.leads)) :=
        commonValues_commonSet_opt cfg.leads first.leads (rest.map fun (x : Input) => x.leads)
      have e3 : commonValues (some useLocs) ((first :: rest).map fun I => I.locs.map (·.id))
          = commonSet (some allowed) ((first :: rest).map fun I => I.locs.map (·.id)) :=
        commonValues_some useLocs allowed (first.locs.map fun (x : Loc) => x.id)
          (rest.map fun (I : Input) => I.locs.map fun (x : Loc) => x.id) (fun v => memX_congr hrel)
      unfold specDims allInputs
      rw [hin]
      simp only [List.head?_cons, ha]
      rw [← e1, ← e2, ← e3, isEmpty_false_of_ne hne1, isEmpty_false_of_ne hne2, isEmpty_false_of_ne hne3]
      simp only [Bool.or_self, Bool.false_eq_true, if_false, Option.some.injEq]
      show Dims.mk _ _ _ = Dims.mk _ _ _
      congr 1
      · exact (mTimes_eq _ _).symm
      · exact hx.symm
  · simp only [initBody]
    rw [ht2]
  · simp only [initBody]
    rw [hx]

/-! ## E. arrays as tables over coordinates -/

/-- the table of a function of coordinates over three coordinate lists -/
def tabC (T L X : List XR) (g : Coord → XR) : Arr3 :=
  T.map fun t => L.map fun l => X.map fun x => g (t, l, x)

theorem lookup_eq_lookupBy {α : Type} (v : XR) (keys : List XR) (rows : List α) :
    C02.lookup v (keys.zip rows) = lookupBy v keys rows := rfl

/-- index access at the first index of a coordinate value = lookup of the value -/
theorem getElem?_firstIdx {α : Type} (v : XR) (keys : List XR) (rows : List α)
    (hl : rows.length = keys.length) : rows[firstIdx v keys]? = lookupBy v keys rows := by
  rw [← lookup_eq_lookupBy]
  exact C02.C02_index_is_lookup v keys rows hl.symm

theorem shapeOK_iff (I : Input) (a : Arr3) : shapeOK I a = true ↔
    a.length = I.times.length ∧ ∀ p ∈ a, p.length = I.leads.length ∧ ∀ r ∈ p, r.length = I.locs.length := by
  simp [shapeOK, List.all_eq_true]

/-- the cell found by the three index searches is the value stored for the coordinates -/
theorem get_valueAt (I : Input) (a : Arr3) (c : Coord) (h : shapeOK I a = true) :
    a.get (firstIdx c.1 I.times) (firstIdx c.2.1 I.leads) (firstIdx c.2.2 (I.locs.map (·.id)))
      = valueAt I a c := by
  obtain ⟨h1, h2⟩ := (shapeOK_iff I a).1 h
  unfold Arr3.get valueAt
  simp only [List.getD_eq_getElem?_getD]
  rw [getElem?_firstIdx c.1 I.times a h1]
  cases hp : lookupBy c.1 I.times a with
  | none => simp
  | some plane =>
    have hmem : plane ∈ a := by
      rw [← getElem?_firstIdx c.1 I.times a h1] at hp
      exact List.mem_of_getElem? hp
    obtain ⟨h3, h4⟩ := h2 plane hmem
    simp only [Option.getD_some]
    rw [getElem?_firstIdx c.2.1 I.leads plane h3]
    cases hr : lookupBy c.2.1 I.leads plane with
    | none => simp
    | some row =>
      have hmem2 : row ∈ plane := by
        rw [← getElem?_firstIdx c.2.1 I.leads plane h3] at hr
        exact List.mem_of_getElem? hr
      simp only [Option.getD_some]
      rw [
        getElem?_firstIdx c.2.2 (I.locs.map (·.id)) row (by rw [h4 row hmem2, List.length_map])]

/-- cutting to the common indices tabulates the input's coordinate function over the verified values -/
theorem cut_eq_tab (I : Input) (a : Arr3) (T L X : List XR) (h : shapeOK I a = true) :
    cut a (indicesOf T I.times) (indicesOf L I.leads) (indicesOf X (I.locs.map (·.id)))
      = tabC T L X (valueAt I a) := by
  unfold cut indicesOf tabC
  simp only [List.map_map, Function.comp_def]
  apply List.map_congr_left; intro t _
  apply List.map_congr_left; intro l _
  apply List.map_congr_left; intro x _
  exact get_valueAt I a (t, l, x) h

theorem cut_nil (It Il Ix : List Nat) (T L X : List XR) (ht : It.length = T.length)
    (hl : Il.length = L.length) (hx : Ix.length = X.length) :
    cut [] It Il Ix = tabC T L X (fun _ => .nan) := by
  unfold cut tabC
  have rep : ∀ {α β γ : Type} (l : List α) (l' : List γ) (c : β), l.length = l'.length →
      l.map (fun _ => c) = l'.map (fun _ => c) := by
    intro α β γ l l' c h
    induction l generalizing l' with
    | nil => cases l' <;> simp_all
    | cons x xs ih =>
      cases l' with
      | nil => simp at h
      | cons y ys => simp [ih ys (by simpa using h)]
  have hg : ∀ t l x, Arr3.get [] t l x = XR.nan := by intro t l x; simp [Arr3.get]
  simp only [hg]
  rw [rep Ix X _ hx, rep Il L _ hl, rep It T _ ht]

theorem tabC_get (T L X : List XR) (g : Coord → XR) (i j k : Nat) (t l x : XR)
    (hi : T[i]? = some t) (hj : L[j]? = some l) (hk : X[k]? = some x) :
    (tabC T L X g).get i j k = g (t, l, x) := by
  unfold tabC Arr3.get
  simp [List.getD_eq_getElem?_getD, List.getElem?_map, hi, hj, hk]

theorem mapIdx_map_eq {α β γ : Type} (l : List α) (f : α → β) (F : Nat → β → γ) (G : α → γ)
    (h : ∀ i a, l[i]? = some a → F i (f a) = G a) : (l.map f).mapIdx F = l.map G := by
  apply List.ext_getElem?
  intro i
  simp only [List.getElem?_mapIdx, List.getElem?_map]
  cases hi : l[i]? with
  | none => rfl
  | some a => simp [h i a hi]

theorem anyNanAt_tab (T L X : List XR) (gs : List (Coord → XR)) (i j k : Nat) (t l x : XR)
    (hi : T[i]? = some t) (hj : L[j]? = some l) (hk : X[k]? = some x) :
    anyNanAt (gs.map (tabC T L X)) i j k = gs.any fun h => !isValid (h (t, l, x)) := by
  unfold anyNanAt
  rw [List.any_map]
  congr 1
  funext h
  simp [tabC_get T L X h i j k t l x hi hj hk]

theorem mapIdx3_tab (F : Nat → Nat → Nat → XR → XR) (T L X : List XR) (g G : Coord → XR)
    (h : ∀ i j k t l x, T[i]? = some t → L[j]? = some l → X[k]? = some x →
      F i j k (g (t, l, x)) = G (t, l, x)) :
    mapIdx3 F (tabC T L X g) = tabC T L X G := by
  unfold mapIdx3 tabC
  apply mapIdx_map_eq; intro i t hi
  apply mapIdx_map_eq; intro j l hj
  apply mapIdx_map_eq; intro k x hk
  exact h i j k t l x hi hj hk

/-- the cross-input NaN propagation, on tables: a case is missing iff some input misses it -/
theorem propagate_tab (T L X : List XR) (gs : List (Coord → XR)) :
    propagate (gs.map (tabC T L X))
      = gs.map fun g => tabC T L X fun c => if gs.any (fun h => !isValid (h c)) then .nan else g c := by
  unfold propagate
  rw [List.map_map]
  apply List.map_congr_left
  intro g _
  simp only [Function.comp]
  apply mapIdx3_tab
  intro i j k t l x hi hj hk
  rw [anyNanAt_tab T L X gs i j k t l x hi hj hk]

/-! ## F. slicing a table = listing the selected cases -/

theorem plane_tab (t : XR) (L X : List XR) (g : Coord → XR) :
    (L.map fun l => X.map fun x => g (t, l, x)).flatten
      = (L.flatMap fun l => X.map fun x => (t, l, x)).map g := by
  induction L with
  | nil => rfl
  | cons l L ihl =>
    simp only [List.map_cons, List.flatten_cons, List.flatMap_cons, List.map_append, ihl, List.map_map]
    rfl

theorem flat_tab (T L X : List XR) (g : Coord → XR) :
    Arr3.flat (tabC T L X g) = (prod3 T L X).map g := by
  unfold Arr3.flat tabC prod3
  induction T with
  | nil => rfl
  | cons t T ih =>
    simp only [List.map_cons, List.flatten_cons, List.flatten_append, List.flatMap_cons, List.map_append, ih,
      plane_tab]

/-- rows picked by index (missing rows contribute nothing) = rows of the picked coordinates -/
theorem flatten_pick {α β : Type} (T : List α) (f : α → List β) (idx : List Nat) :
    (idx.map fun i => (T.map f).getD i []).flatten = ((idx.filterMap fun i => T[i]?).map f).flatten := by
  induction idx with
  | nil => rfl
  | cons i idx ih =>
    simp only [List.map_cons, List.flatten_cons, List.filterMap_cons, ih]
    cases hi : T[i]? with
    | none => simp [List.getD_eq_getElem?_getD, hi]
    | some t => simp [List.getD_eq_getElem?_getD, hi]

/-- does a location selection name an existing verified location? -/
def selInRange (d : Dims) : Sel → Bool
  | .loc i => decide (i < d.locs.length)
  | _ => true

/-- the cases a selection names, as the model lists them: a location index outside the axis gives one
pseudo-location NaN per (time, lead time), at which nothing has data -/
def selCasesM (d : Dims) : Sel → List Coord
  | .loc i => prod3 d.times d.leads [d.locs.getD i .nan]
  | sel => selCases d sel

theorem selCasesM_eq (d : Dims) (sel : Sel) (hsel : selInRange d sel = true) :
    selCasesM d sel = selCases d sel := by
  cases sel with
  | loc i =>
    simp only [selInRange, decide_eq_true_eq] at hsel
    simp [selCasesM, selCases, List.getD_eq_getElem?_getD, List.getElem?_eq_getElem hsel]
  | _ => rfl

theorem getD_map_strict (X : List XR) (h : XR → XR) (hn : h .nan = .nan) (i : Nat) :
    (X.map h).getD i .nan = h (X.getD i .nan) := by
  simp only [List.getD_eq_getElem?_getD, List.getElem?_map]
  cases X[i]? with
  | none => exact hn.symm
  | some x => rfl

theorem applySel_tab (T L X : List XR) (g : Coord → XR) (sel : Sel)
    (hg : ∀ t l, g (t, l, .nan) = .nan) :
    applySel (tabC T L X g) sel = (selCasesM ⟨T, L, X⟩ sel).map g := by
  cases sel with
  | all => exact flat_tab T L X g
  | none => exact flat_tab T L X g
  | time i =>
    simp only [applySel, selCasesM, selCases]
    rw [← flat_tab]
    unfold tabC Arr3.flat
    cases hi : T[i]? with
    | none => simp [List.getD_eq_getElem?_getD, hi]
    | some t => simp [List.getD_eq_getElem?_getD, hi]
  | times idx =>
    simp only [applySel, selCasesM, selCases]
    rw [← flat_tab]
    unfold Arr3.flat
    congr 1
    exact flatten_pick T _ idx
  | leads idx =>
    simp only [applySel, selCasesM, selCases]
    rw [← flat_tab]
    unfold Arr3.flat tabC
    rw [List.flatten_flatten, List.flatten_flatten, List.map_map, List.map_map, List.map_map]
    congr 1
    apply List.map_congr_left
    intro t _
    exact flatten_pick L _ idx
  | loc i =>
    simp only [applySel, selCasesM]
    rw [← flat_tab]
    unfold Arr3.flat tabC
    simp only [List.map_map, Function.comp_def, List.map_cons, List.map_nil]
    rw [List.flatten_flatten, List.map_map]
    congr 1
    apply List.map_congr_left
    intro t _
    simp only [Function.comp]
    induction L with
    | nil => rfl
    | cons l L ih =>
      simp only [List.map_cons, List.flatten_cons, ih]
      rw [getD_map_strict X (fun x => g (t, l, x)) (hg t l) i]
      rfl

/-! ## G. loading a field = tabulating the inputs' coordinate functions -/

theorem range_map_getD {α : Type} (l : List α) (d : α) :
    (List.range l.length).map (fun i => l.getD i d) = l := by
  apply List.ext_getElem?
  intro i
  simp only [List.getElem?_map]
  by_cases hi : i < l.length
  · simp [List.getElem?_range hi, List.getD_eq_getElem?_getD, List.getElem?_eq_getElem hi]
  · have : l.length ≤ i := Nat.le_of_not_lt hi
    have h1 : (List.range l.length)[i]? = none := by simp [this]
    have h2 : l[i]? = none := by simp [this]
    rw [h1, h2]; rfl

theorem map_eq_range_map {α β : Type} (l : List α) (d : α) (f : α → β) :
    l.map f = (List.range l.length).map (fun i => f (l.getD i d)) := by
  conv => lhs; rw [← range_map_getD l d, List.map_map]
  rfl

theorem any_range_getD {α : Type} (l : List α) (d : α) (p : α → Bool) :
    (List.range l.length).any (fun i => p (l.getD i d)) = l.any p := by
  conv => rhs; rw [← range_map_getD l d, List.any_map]
  rfl

theorem all_range_getD {α : Type} (l : List α) (d : α) (p : α → Bool) :
    (List.range l.length).all (fun i => p (l.getD i d)) = l.all p := by
  conv => rhs; rw [← range_map_getD l d, List.all_map]
  rfl

theorem find?_range_getD {α : Type} (l : List α) (d : α) (p : α → Bool) :
    ((List.range l.length).find? (fun j => p (l.getD j d))).map (fun j => l.getD j d) = l.find? p := by
  conv => rhs; rw [← range_map_getD l d, List.find?_map]
  rfl

theorem lookup_mem {α : Type} (l : List (String × α)) (k : String) (v : α) (h : l.lookup k = some v) :
    ∃ k', (k', v) ∈ l := by
  induction l with
  | nil => simp [List.lookup] at h
  | cons kv rest ih =>
    obtain ⟨k', v'⟩ := kv
    simp only [List.lookup] at h
    split at h
    · injection h with h; subst h; exact ⟨k', by simp⟩
    · obtain ⟨k'', hk⟩ := ih h
      exact ⟨k'', List.mem_cons_of_mem _ hk⟩

theorem wf_field (J : Input) (nm : String) (a : Arr3) (hw : wfInput J = true) (h : J.field? nm = some a) :
    shapeOK J a = true := by
  obtain ⟨k', hk⟩ := lookup_mem J.fields nm a h
  unfold wfInput at hw
  rw [List.all_eq_true] at hw
  exact hw (k', a) hk

/-- an input's own value of a field (NaN when it does not store the field) -/
def ownValue (J : Input) (nm : String) (c : Coord) : XR :=
  match J.field? nm with
  | none => .nan
  | some a => valueAt J a c

theorem fieldValue_eq (inputs : List Input) (name : String) (I : Input) :
    fieldValue inputs name I = ownValue (supplier inputs name I) name := rfl

theorem length_indicesOf (avail col : List XR) : (indicesOf avail col).length = avail.length := by
  simp [indicesOf]

section Loaded
variable {scored : List Input} {cfg : Cfg} {D : DataS}

/-- input `o`'s array for field `nm` (or the empty array), cut to the common indices, is the table
of its coordinate function over the verified dimensions -/
theorem cutFor_tab (F : InitFacts scored cfg D) (hw : D.inputs.all wfInput = true) (o : Nat)
    (ho : o < D.inputs.length) (nm : String) :
    D.cutFor o (((D.inputs.getD o default).field? nm).getD [])
      = tabC D.times D.leads (D.locs.map (·.id)) (ownValue (D.inputs.getD o default) nm) := by
  have hJ : D.inputs.getD o default = D.inputs[o] := by
    simp [List.getD_eq_getElem?_getD, List.getElem?_eq_getElem ho]
  have hmem : D.inputs[o] ∈ D.inputs := List.getElem_mem ho
  unfold DataS.cutFor
  rw [F.hTimesI, F.hLeadsI, F.hLocsI]
  simp only [List.getD_eq_getElem?_getD, List.getElem?_map, List.getElem?_eq_getElem ho, Option.map_some,
    Option.getD_some]
  unfold ownValue
  cases hf : D.inputs[o].field? nm with
  | none =>
    simp only [Option.getD_none]
    exact cut_nil _ _ _ _ _ _ (length_indicesOf _ _) (length_indicesOf _ _) (length_indicesOf _ _)
  | some a =>
    simp only [Option.getD_some]
    have hwJ : wfInput D.inputs[o] = true := (List.all_eq_true.1 hw) _ hmem
    exact cut_eq_tab D.inputs[o] a _ _ _ (wf_field _ nm a hwJ hf)

theorem obsOwner_supplier (D : DataS) (i : Nat) (hi : i < D.inputs.length) :
    D.obsOwner i < D.inputs.length
    ∧ D.inputs.getD (D.obsOwner i) default = supplier D.inputs "obs" (D.inputs.getD i default) := by
  unfold DataS.obsOwner supplier hasField
  by_cases hs : ((D.inputs.getD i default).field? "obs").isSome = true
  · simp only [hs, if_true, beq_self_eq_true, Bool.not_true, Bool.and_false, Bool.false_eq_true, if_false]
    exact ⟨hi, trivial⟩
  · have hs' : ((D.inputs.getD i default).field? "obs").isSome = false := by simpa using hs
    have hfind := find?_range_getD D.inputs default (fun J => (J.field? "obs").isSome)
    simp only [hs', Bool.false_eq_true, if_false, beq_self_eq_true, Bool.not_false, Bool.and_self, if_true]
    cases hf : (List.range D.inputs.length).find? (fun j => ((D.inputs.getD j default).field? "obs").isSome) with
    | none =>
      rw [hf] at hfind
      simp only [Option.map_none] at hfind
      simp [← hfind, hi]
    | some j =>
      rw [hf] at hfind
      simp only [Option.map_some] at hfind
      have hj : j < D.inputs.length := by
        have := List.mem_of_find?_eq_some hf
        simpa using this
      simp [← hfind, hj]

theorem supplier_other (inputs : List Input) (name : String) (I : Input) (hn : (name == "obs") = false) :
    supplier inputs name I = I := by
  simp [supplier, hn]

/-- `loadAll`: the availability check of the specification, then one table per input -/
theorem loadAll_tab (F : InitFacts scored cfg D) (hw : D.inputs.all wfInput = true) (name : String) :
    D.loadAll name = match checkField D.inputs name with
      | .error e => .error e
      | .ok _ => .ok (D.inputs.map fun I =>
          tabC D.times D.leads (D.locs.map (·.id)) (fieldValue D.inputs name I)) := by
  unfold DataS.loadAll checkField
  cases hn : (name == "obs") with
  | true =>
    have := eq_of_beq hn
    subst this
    simp only [if_true]
    rw [any_range_getD D.inputs default (fun J => (J.field? "obs").isSome)]
    have hany : (D.inputs.any fun J => (J.field? "obs").isSome) = D.inputs.any (hasField "obs") := rfl
    rw [hany]
    cases D.inputs.any (hasField "obs") with
    | false => rfl
    | true =>
      simp only [if_true]
      congr 1
      rw [map_eq_range_map D.inputs default]
      apply List.map_congr_left
      intro i hi
      have hi' : i < D.inputs.length := by simpa using hi
      obtain ⟨ho, hJ⟩ := obsOwner_supplier D i hi'
      rw [cutFor_tab F hw _ ho "obs", hJ, fieldValue_eq]
  | false =>
    simp only [Bool.false_eq_true, if_false]
    rw [all_range_getD D.inputs default (fun J => (J.field? name).isSome)]
    have hall : (D.inputs.all fun J => (J.field? name).isSome) = D.inputs.all (hasField name) := rfl
    rw [hall]
    cases D.inputs.all (hasField name) with
    | false => rfl
    | true =>
      simp only [if_true]
      congr 1
      rw [map_eq_range_map D.inputs default]
      apply List.map_congr_left
      intro i hi
      have hi' : i < D.inputs.length := by simpa using hi
      rw [cutFor_tab F hw _ hi' name, fieldValue_eq, supplier_other _ _ _ hn]

/-- the value of a field after the cross-input propagation: missing as soon as any input misses it -/
def propValue (inputs : List Input) (name : String) (I : Input) (c : Coord) : XR :=
  if inputs.any (fun J => !isValid (fieldValue inputs name J c)) then .nan else fieldValue inputs name I c

theorem lookupBy_nan {α : Type} (keys : List XR) (rows : List α) : lookupBy XR.nan keys rows = none := by
  unfold lookupBy
  rw [Option.map_eq_none_iff, List.find?_eq_none]
  intro p _
  cases p.1 <;> simp [XR.eqb]

theorem valueAt_nanloc (I : Input) (a : Arr3) (t l : XR) : valueAt I a (t, l, .nan) = .nan := by
  unfold valueAt
  cases lookupBy t I.times a with
  | none => rfl
  | some plane =>
    simp only []
    cases lookupBy l I.leads plane with
    | none => rfl
    | some row => simp only [lookupBy_nan]; rfl

theorem fieldValue_nanloc (inputs : List Input) (name : String) (I : Input) (t l : XR) :
    fieldValue inputs name I (t, l, .nan) = .nan := by
  unfold fieldValue
  simp only []
  cases (supplier inputs name I).field? name with
  | none => rfl
  | some a => exact valueAt_nanloc _ a t l

theorem propValue_nanloc (inputs : List Input) (name : String) (I : Input) (t l : XR) :
    propValue inputs name I (t, l, .nan) = .nan := by
  unfold propValue
  split
  · rfl
  · exact fieldValue_nanloc inputs name I t l

theorem fieldArr_tab (F : InitFacts scored cfg D) (hw : D.inputs.all wfInput = true) (name : String)
    (i : Nat) (hi : i < D.inputs.length) :
    D.fieldArr name i = match checkField D.inputs name with
      | .error e => .error e
      | .ok _ => .ok (tabC D.times D.leads (D.locs.map (·.id))
          (propValue D.inputs name (D.inputs.getD i default))) := by
  unfold DataS.fieldArr
  rw [loadAll_tab F hw name]
  cases checkField D.inputs name with
  | error e => rfl
  | ok u =>
    simp only [bind, Except.bind, pure, Except.pure]
    congr 1
    have hm : (D.inputs.map fun I => tabC D.times D.leads (D.locs.map (·.id)) (fieldValue D.inputs name I))
        = (D.inputs.map (fieldValue D.inputs name)).map (tabC D.times D.leads (D.locs.map (·.id))) := by
      rw [List.map_map]; rfl
    rw [hm, propagate_tab]
    simp only [List.getD_eq_getElem?_getD, List.getElem?_map, List.getElem?_eq_getElem hi, Option.map_some,
      Option.getD_some, List.any_map]
    rfl

end Loaded

/-! ## H. a requested column = the model's per-case value listed over the selected cases -/

/-- `-obsrange` on one value -/
def maskV (cfg : Cfg) (name : String) (v : XR) : XR :=
  match cfg.obsRange with
  | some (lo, hi) => if name == "obs" then (if XR.lt v lo || XR.gt v hi then .nan else v) else v
  | none => v

theorem maskV_nan (cfg : Cfg) (name : String) : maskV cfg name .nan = .nan := by
  unfold maskV
  cases cfg.obsRange with
  | none => rfl
  | some r =>
    obtain ⟨lo, hi⟩ := r
    cases (name == "obs") <;> simp [XR.lt, XR.gt]

theorem map_tab (f : XR → XR) (T L X : List XR) (g : Coord → XR) :
    Arr3.map f (tabC T L X g) = tabC T L X (fun c => f (g c)) := by
  unfold Arr3.map tabC
  simp only [List.map_map, Function.comp_def]

theorem maskObsRange_tab (cfg : Cfg) (name : String) (T L X : List XR) (g : Coord → XR) :
    maskObsRange cfg.obsRange name (tabC T L X g) = tabC T L X (fun c => maskV cfg name (g c)) := by
  unfold maskObsRange maskV
  cases cfg.obsRange with
  | none => rfl
  | some r =>
    obtain ⟨lo, hi⟩ := r
    cases hn : (name == "obs") with
    | true => simp only [if_true]; exact map_tab _ T L X g
    | false => simp only [Bool.false_eq_true, if_false]

theorem zipWith_map_same {α β γ δ : Type} (f : β → γ → δ) (g : α → β) (h : α → γ) (l : List α) :
    List.zipWith f (l.map g) (l.map h) = l.map fun c => f (g c) (h c) := by
  induction l with
  | nil => rfl
  | cons a l ih => simp [ih]

/-- the climatology's (propagated) forecast at a case -/
def climProp (inputs : List Input) (cfg : Cfg) (c : Coord) : XR :=
  match cfg.clim with
  | some C => propValue inputs "fcst" C c
  | none => .nan

/-- the model's value of a requested column at a case -/
def mCol (inputs : List Input) (cfg : Cfg) (fields : List String) (I : Input) (name : String) (c : Coord) : XR :=
  let m := maskV cfg name (propValue inputs name I c)
  if doClim cfg fields && (name == "obs" || name == "fcst") then
    (if cfg.climDivide then m / climProp inputs cfg c else m - climProp inputs cfg c)
  else m

theorem climAdjust_map (cfg : Cfg) (fields : List String) (inputs : List Input) (name : String)
    (cases : List Coord) (g : Coord → XR) :
    climAdjust cfg.climDivide name (cases.map g)
        (if doClim cfg fields then some (cases.map (climProp inputs cfg)) else none)
      = cases.map fun c =>
          if doClim cfg fields && (name == "obs" || name == "fcst") then
            (if cfg.climDivide then g c / climProp inputs cfg c else g c - climProp inputs cfg c)
          else g c := by
  unfold climAdjust
  cases doClim cfg fields with
  | false => simp
  | true =>
    simp only [if_true, Bool.true_and]
    cases (name == "obs" || name == "fcst") with
    | false => simp
    | true =>
      simp only [if_true]
      cases cfg.climDivide with
      | false => simp only [Bool.false_eq_true, if_false]; exact zipWith_map_same _ _ _ _
      | true => simp only [if_true]; exact zipWith_map_same _ _ _ _

theorem checkAll_cons (chk : String → Except String Unit) (n : String) (l : List String) :
    checkAll chk (n :: l) = match chk n with | .error e => .error e | .ok _ => checkAll chk l := rfl

theorem mapM_check (chk : String → Except String Unit) (f : String → Except String Vec) (g : String → Vec)
    (h : ∀ n, f n = match chk n with | .error e => .error e | .ok _ => .ok (g n)) (l : List String) :
    l.mapM f = match checkAll chk l with | .error e => .error e | .ok _ => .ok (l.map g) := by
  induction l with
  | nil => rfl
  | cons n l ih =>
    rw [List.mapM_cons, h n, ih, checkAll_cons]
    cases chk n with
    | error e => rfl
    | ok u =>
      simp only [bind, Except.bind]
      cases checkAll chk l with
      | error e => rfl
      | ok u' => rfl

section Request
variable {scored : List Input} {cfg : Cfg} {D : DataS}

theorem doClim_eq (F : InitFacts scored cfg D) (r : Req) : D.doClim r = doClim cfg r.fields := by
  unfold DataS.doClim doClim
  rw [F.hCfg]

theorem column_tab (F : InitFacts scored cfg D) (hw : D.inputs.all wfInput = true) (r : Req)
    (name : String) (hi : r.input < D.inputs.length) :
    D.column r (if doClim cfg r.fields
        then some ((selCasesM ⟨D.times, D.leads, D.locs.map (·.id)⟩ r.sel).map (climProp D.inputs cfg))
        else none) name
      = match checkField D.inputs name with
        | .error e => .error e
        | .ok _ => .ok ((selCasesM ⟨D.times, D.leads, D.locs.map (·.id)⟩ r.sel).map
            (mCol D.inputs cfg r.fields (D.inputs.getD r.input default) name)) := by
  unfold DataS.column
  rw [fieldArr_tab F hw name r.input hi]
  cases checkField D.inputs name with
  | error e => rfl
  | ok u =>
    simp only [bind, Except.bind, pure, Except.pure]
    rw [F.hCfg, maskObsRange_tab,
      applySel_tab _ _ _ _ _ (fun t l => by simp only [propValue_nanloc, maskV_nan]), climAdjust_map]
    rfl

theorem clim_last (F : InitFacts scored cfg D) (C : Input) (hc : cfg.clim = some C) :
    D.inputs.length - 1 < D.inputs.length ∧ D.inputs.getD (D.inputs.length - 1) default = C := by
  rw [F.hInputs]
  unfold allInputs
  rw [hc]
  simp [List.getD_eq_getElem?_getD]

theorem climP_tab (F : InitFacts scored cfg D) (hw : D.inputs.all wfInput = true) (r : Req)
 :
    D.climP r = if doClim cfg r.fields then
        (match checkField D.inputs "fcst" with
        | .error e => .error e
        | .ok _ => .ok (some ((selCasesM ⟨D.times, D.leads, D.locs.map (·.id)⟩ r.sel).map
            (climProp D.inputs cfg))))
      else .ok none := by
  unfold DataS.climP
  rw [doClim_eq F r]
  cases hd : doClim cfg r.fields with
  | false => rfl
  | true =>
    simp only [if_true]
    have hsome : cfg.clim.isSome = true := by
      unfold doClim at hd
      rw [Bool.and_eq_true] at hd
      exact hd.1
    obtain ⟨C, hC⟩ := Option.isSome_iff_exists.1 hsome
    obtain ⟨hlt, hlast⟩ := clim_last F C hC
    rw [fieldArr_tab F hw "fcst" _ hlt, hlast]
    cases checkField D.inputs "fcst" with
    | error e => rfl
    | ok u =>
      simp only []
      rw [applySel_tab _ _ _ _ _ (propValue_nanloc D.inputs "fcst" C)]
      unfold climProp
      rw [hC]

theorem getScores_tab (F : InitFacts scored cfg D) (hw : D.inputs.all wfInput = true) (r : Req)
 :
    D.getScores r =
      if r.input ≥ scored.length then .error "input_index out of range"
      else match checkAll (checkField D.inputs) (effFields cfg r.fields) with
        | .error e => .error e
        | .ok _ => .ok (finish r.sel r.fields.length (r.fields.map fun name =>
            (selCasesM ⟨D.times, D.leads, D.locs.map (·.id)⟩ r.sel).map
              (mCol D.inputs cfg r.fields (D.inputs.getD r.input default) name))) := by
  unfold DataS.getScores
  rw [F.hN]
  by_cases hge : r.input ≥ scored.length
  · rw [if_pos hge, if_pos hge]
  · rw [if_neg hge, if_neg hge]
    have hi : r.input < D.inputs.length := by
      rw [F.hInputs]; unfold allInputs; rw [List.length_append]; omega
    rw [climP_tab F hw r]
    have hcol := fun name => column_tab F hw r name hi
    unfold effFields
    cases hd : doClim cfg r.fields with
    | false =>
      simp only [hd, Bool.false_eq_true, if_false] at hcol ⊢
      rw [mapM_check (checkField D.inputs) _ _ hcol]
      cases checkAll (checkField D.inputs) r.fields <;> rfl
    | true =>
      simp only [hd, if_true] at hcol ⊢
      rw [checkAll_cons]
      cases checkField D.inputs "fcst" with
      | error e => rfl
      | ok u =>
        simp only []
        rw [mapM_check (checkField D.inputs) _ _ hcol]
        cases checkAll (checkField D.inputs) r.fields <;> rfl

end Request

/-! ## I. per case: the model's validity and values are the specification's -/

theorem nan_sub (x : XR) : XR.nan - x = .nan := by cases x <;> rfl
theorem sub_nan (x : XR) : x - XR.nan = .nan := by cases x <;> rfl
theorem nan_div (x : XR) : XR.nan / x = .nan := by cases x <;> rfl
theorem div_nan (x : XR) : x / XR.nan = .nan := by cases x <;> rfl
theorem isValid_nan : isValid .nan = false := rfl

theorem maskV_of_obsOK (cfg : Cfg) (name : String) (v : XR) (h : obsOK cfg name v = true) :
    maskV cfg name v = v := by
  unfold maskV
  unfold obsOK at h
  cases hr : cfg.obsRange with
  | none => rfl
  | some r =>
    obtain ⟨lo, hi⟩ := r
    rw [hr] at h
    cases hn : (name == "obs") with
    | false => simp
    | true =>
      simp only [hn, if_true, Bool.not_eq_true'] at h
      simp [h]

theorem maskV_of_not_obsOK (cfg : Cfg) (name : String) (v : XR) (h : obsOK cfg name v = false) :
    maskV cfg name v = .nan := by
  unfold maskV
  unfold obsOK at h
  cases hr : cfg.obsRange with
  | none => rw [hr] at h; cases h
  | some r =>
    obtain ⟨lo, hi⟩ := r
    rw [hr] at h
    cases hn : (name == "obs") with
    | false => simp [hn] at h
    | true =>
      simp only [hn, if_true, Bool.not_eq_false'] at h
      simp [h]

section Pointwise
variable (inputs : List Input) (cfg : Cfg) (fields : List String) (I : Input) (c : Coord)

/-- some input (incl. the climatology) has no usable value of the field at the case -/
def anyMissing (name : String) : Bool := inputs.any fun J => !isValid (fieldValue inputs name J c)

theorem propValue_eq (name : String) :
    propValue inputs name I c = if anyMissing inputs c name then .nan else fieldValue inputs name I c := rfl

theorem anyMissing_false_iff (name : String) :
    anyMissing inputs c name = false ↔ (inputs.all fun J => isValid (fieldValue inputs name J c)) = true := by
  unfold anyMissing
  simp [List.any_eq_false, List.all_eq_true]

theorem doClim_clim (h : doClim cfg fields = true) : ∃ C, cfg.clim = some C := by
  unfold doClim at h
  rw [Bool.and_eq_true] at h
  exact Option.isSome_iff_exists.1 h.1

theorem climProp_eq_climValue (_hd : doClim cfg fields = true) (hAf : anyMissing inputs c "fcst" = false) :
    climProp inputs cfg c = climValue inputs cfg c := by
  unfold climProp climValue
  cases cfg.clim with
  | none => rfl
  | some C => simp only [propValue_eq, hAf, Bool.false_eq_true, if_false]

theorem climProp_nan (hAf : anyMissing inputs c "fcst" = true) : climProp inputs cfg c = .nan := by
  unfold climProp
  cases cfg.clim with
  | none => rfl
  | some C => simp only [propValue_eq, hAf, if_true]

/-- when nothing is missing and the observation is in range, the model's value is the documented one -/
theorem mCol_eq_adjusted (name : String) (hA : anyMissing inputs c name = false)
    (hAf : doClim cfg fields = true → anyMissing inputs c "fcst" = false)
    (hobs : obsOK cfg name (fieldValue inputs name I c) = true) :
    mCol inputs cfg fields I name c = adjusted inputs cfg fields I name c := by
  unfold mCol adjusted
  have hp : propValue inputs name I c = fieldValue inputs name I c := by
    rw [propValue_eq, hA]; rfl
  simp only [hp, maskV_of_obsOK cfg name _ hobs]
  cases hd : doClim cfg fields with
  | false => rfl
  | true => rw [climProp_eq_climValue inputs cfg fields c hd (hAf hd)]

/-- a missing value makes the model's column value invalid -/
theorem mCol_invalid_of_missing (name : String) (hA : anyMissing inputs c name = true) :
    isValid (mCol inputs cfg fields I name c) = false := by
  unfold mCol
  have hp : propValue inputs name I c = .nan := by rw [propValue_eq, hA]; rfl
  simp only [hp, maskV_nan]
  split
  · split
    · rw [nan_div]; rfl
    · rw [nan_sub]; rfl
  · rfl

theorem mCol_invalid_of_range (name : String) (hobs : obsOK cfg name (fieldValue inputs name I c) = false) :
    isValid (mCol inputs cfg fields I name c) = false := by
  by_cases hA : anyMissing inputs c name = true
  · exact mCol_invalid_of_missing inputs cfg fields I c name hA
  · have hA' : anyMissing inputs c name = false := by simpa using hA
    unfold mCol
    have hp : propValue inputs name I c = fieldValue inputs name I c := by rw [propValue_eq, hA']; rfl
    simp only [hp, maskV_of_not_obsOK cfg name _ hobs]
    split
    · split
      · rw [nan_div]; rfl
      · rw [nan_sub]; rfl
    · rfl

theorem mCol_invalid_of_clim (name : String) (hd : doClim cfg fields = true)
    (hn : (name == "obs" || name == "fcst") = true) (hAf : anyMissing inputs c "fcst" = true) :
    isValid (mCol inputs cfg fields I name c) = false := by
  unfold mCol
  simp only [hd, hn, Bool.and_self, if_true, climProp_nan inputs cfg c hAf]
  split
  · rw [div_nan]; rfl
  · rw [sub_nan]; rfl

/-- the model's validity mask at a case -/
def mOK : Bool := fields.all fun name => isValid (mCol inputs cfg fields I name c)

theorem mem_eff (name : String) (h : name ∈ fields) : name ∈ effFields cfg fields := by
  unfold effFields
  split
  · exact List.mem_cons_of_mem _ h
  · exact h

theorem caseValid_iff :
    caseValid inputs cfg fields I c = true ↔
      (∀ name ∈ effFields cfg fields, anyMissing inputs c name = false)
      ∧ (∀ name ∈ fields, obsOK cfg name (fieldValue inputs name I c) = true)
      ∧ (∀ name ∈ fields, isValid (adjusted inputs cfg fields I name c) = true) := by
  unfold caseValid
  simp only [Bool.and_eq_true, List.all_eq_true, anyMissing_false_iff]
  tauto

theorem mOK_eq_caseValid : mOK inputs cfg fields I c = caseValid inputs cfg fields I c := by
  rw [Bool.eq_iff_iff, caseValid_iff]
  unfold mOK
  rw [List.all_eq_true]
  constructor
  · intro h
    -- (a) nothing missing for the requested fields
    have ha : ∀ name ∈ fields, anyMissing inputs c name = false := by
      intro name hn
      cases hA : anyMissing inputs c name with
      | false => rfl
      | true =>
        have := mCol_invalid_of_missing inputs cfg fields I c name hA
        rw [h name hn] at this; cases this
    -- (b) nor for the climatology's forecast
    have hb : doClim cfg fields = true → anyMissing inputs c "fcst" = false := by
      intro hd
      cases hAf : anyMissing inputs c "fcst" with
      | false => rfl
      | true =>
        have hd' := hd
        unfold doClim at hd'
        rw [Bool.and_eq_true, Bool.or_eq_true] at hd'
        rcases hd'.2 with ho | hf
        · have hmem : "obs" ∈ fields := by simpa using ho
          have := mCol_invalid_of_clim inputs cfg fields I c "obs" hd (by decide) hAf
          rw [h "obs" hmem] at this; cases this
        · have hmem : "fcst" ∈ fields := by simpa using hf
          have := ha "fcst" hmem
          rw [hAf] at this; cases this
    have hc : ∀ name ∈ fields, obsOK cfg name (fieldValue inputs name I c) = true := by
      intro name hn
      cases ho : obsOK cfg name (fieldValue inputs name I c) with
      | true => rfl
      | false =>
        have := mCol_invalid_of_range inputs cfg fields I c name ho
        rw [h name hn] at this; cases this
    refine ⟨?_, hc, ?_⟩
    · intro name hn
      unfold effFields at hn
      split at hn
      · rename_i hd
        rcases List.mem_cons.1 hn with e | hn
        · rw [e]; exact hb hd
        · exact ha name hn
      · exact ha name hn
    · intro name hn
      rw [← mCol_eq_adjusted inputs cfg fields I c name (ha name hn) hb (hc name hn)]
      exact h name hn
  · rintro ⟨h1, h2, h3⟩ name hn
    have hb : doClim cfg fields = true → anyMissing inputs c "fcst" = false := by
      intro hd
      apply h1
      unfold effFields
      rw [if_pos hd]
      exact List.mem_cons_self
    rw [mCol_eq_adjusted inputs cfg fields I c name (h1 name (mem_eff cfg fields name hn)) hb (h2 name hn)]
    exact h3 name hn

theorem mCol_of_caseValid (h : caseValid inputs cfg fields I c = true) (name : String) (hn : name ∈ fields) :
    mCol inputs cfg fields I name c = adjusted inputs cfg fields I name c := by
  obtain ⟨h1, h2, _⟩ := (caseValid_iff inputs cfg fields I c).1 h
  have hb : doClim cfg fields = true → anyMissing inputs c "fcst" = false := by
    intro hd
    apply h1
    unfold effFields
    rw [if_pos hd]
    exact List.mem_cons_self
  exact mCol_eq_adjusted inputs cfg fields I c name (h1 name (mem_eff cfg fields name hn)) hb (h2 name hn)

end Pointwise

/-! ## J. masking / compressing the columns = keeping the valid cases -/

def isAllSel : Sel → Bool
  | .all => true
  | _ => false

/-- the final assembly, on case lists -/
def assemble (isAll : Bool) (fields : List String) (cases : List Coord) (ok : Coord → Bool)
    (val : String → Coord → XR) : List Vec :=
  let cols := fields.map fun name =>
    if isAll then cases.map (fun c => if ok c then val name c else .nan) else (cases.filter ok).map (val name)
  if (cols.headD []).isEmpty then List.replicate fields.length [.nan] else cols

theorem compress_map (cases : List Coord) (ok : Coord → Bool) (g : Coord → XR) :
    compress (cases.map ok) (cases.map g) = (cases.filter ok).map g := by
  unfold compress
  induction cases with
  | nil => rfl
  | cons c cs ih =>
    simp only [List.map_cons, List.zip_cons_cons, List.filterMap_cons, List.filter_cons]
    cases ok c <;> simp [ih]

theorem validMask_map (f : String) (fs : List String) (cases : List Coord) (m : String → Coord → XR) :
    validMask ((f :: fs).map fun name => cases.map (m name))
      = cases.map fun c => (f :: fs).all fun name => isValid (m name c) := by
  unfold validMask
  rw [map_eq_range_map cases default]
  simp only [List.map_cons, List.headD_cons, List.length_map]
  apply List.map_congr_left
  intro k hk
  have hk' : k < cases.length := by simpa using hk
  have hcell : ∀ name, (List.map (m name) cases).getD k XR.nan = m name (cases.getD k default) := by
    intro name
    simp [List.getD_eq_getElem?_getD, List.getElem?_map, List.getElem?_eq_getElem hk']
  rw [← List.map_cons (f := fun name => cases.map (m name)), List.all_map]
  simp only [Function.comp_def, hcell]

theorem finish_assemble (sel : Sel) (fields : List String) (cases : List Coord) (m : String → Coord → XR) :
    finish sel fields.length (fields.map fun name => cases.map (m name))
      = assemble (isAllSel sel) fields cases (fun c => fields.all fun name => isValid (m name c)) m := by
  cases fields with
  | nil => cases sel <;> rfl
  | cons f fs =>
    unfold finish assemble
    rw [validMask_map]
    cases sel <;>
      simp only [isAllSel, List.map_map, Function.comp_def, compress_map, zipWith_map_same, if_true,
        Bool.false_eq_true, if_false]

theorem assemble_congr (b : Bool) (fields : List String) (cases : List Coord) (ok ok' : Coord → Bool)
    (val val' : String → Coord → XR) (hok : ∀ c, ok c = ok' c)
    (hval : ∀ c, ok c = true → ∀ name ∈ fields, val name c = val' name c) :
    assemble b fields cases ok val = assemble b fields cases ok' val' := by
  have hfun : ok = ok' := funext hok
  subst hfun
  unfold assemble
  have hcols : (fields.map fun name =>
      if b then cases.map (fun c => if ok c then val name c else .nan) else (cases.filter ok).map (val name))
      = (fields.map fun name =>
      if b then cases.map (fun c => if ok c then val' name c else .nan) else (cases.filter ok).map (val' name)) := by
    apply List.map_congr_left
    intro name hn
    cases b with
    | true =>
      simp only [if_true]
      apply List.map_congr_left
      intro c _
      cases hc : ok c with
      | false => rfl
      | true => simp only [if_true]; exact hval c hc name hn
    | false =>
      simp only [Bool.false_eq_true, if_false]
      apply List.map_congr_left
      intro c hc
      exact hval c (List.mem_filter.1 hc).2 name hn
  simp only [hcols]

/-! ## K. the refinement theorem -/

theorem spec_assemble (sel : Sel) (fields : List String) (cases : List Coord) (ok : Coord → Bool)
    (val : String → Coord → XR) :
    (let cols := fields.map fun name =>
        match sel with
        | .all => cases.map fun c => if ok c then val name c else .nan
        | _ => (cases.filter ok).map (val name)
      if (cols.headD []).isEmpty then List.replicate fields.length [XR.nan] else cols)
      = assemble (isAllSel sel) fields cases ok val := by
  cases sel <;> rfl

theorem prod3_nil (T L : List XR) : prod3 T L [] = [] := by
  simp [prod3]

theorem mem_prod3 (T L X : List XR) (c : Coord) (h : c ∈ prod3 T L X) : c.2.2 ∈ X := by
  unfold prod3 at h
  simp only [List.mem_flatMap, List.mem_map] at h
  obtain ⟨t, _, l, _, x, hx, rfl⟩ := h
  exact hx

/-- at the pseudo-location NaN no input has data: the case is invalid -/
theorem caseValid_nanloc (inputs : List Input) (cfg : Cfg) (fields : List String) (I : Input) (c : Coord)
    (hI : I ∈ inputs) (hne : fields ≠ []) (hc : c.2.2 = .nan) :
    caseValid inputs cfg fields I c = false := by
  cases hv : caseValid inputs cfg fields I c with
  | false => rfl
  | true =>
    exfalso
    obtain ⟨h1, _, _⟩ := (caseValid_iff inputs cfg fields I c).1 hv
    cases fields with
    | nil => exact hne rfl
    | cons f fs =>
      have := (anyMissing_false_iff inputs c f).1 (h1 f (mem_eff cfg (f :: fs) f (by simp)))
      rw [List.all_eq_true] at this
      have hval := this I hI
      obtain ⟨t, l, x⟩ := c
      simp only at hc
      subst hc
      rw [fieldValue_nanloc] at hval
      cases hval

/-- a location index outside the axis: the model's pseudo-cases are all invalid, as if there were none -/
theorem assemble_casesM (d : Dims) (sel : Sel) (fields : List String) (ok : Coord → Bool)
    (val : String → Coord → XR)
    (hbad : fields ≠ [] → ∀ c, c.2.2 = XR.nan → ok c = false) :
    assemble (isAllSel sel) fields (selCasesM d sel) ok val
      = assemble (isAllSel sel) fields (selCases d sel) ok val := by
  by_cases hsel : selInRange d sel = true
  · rw [selCasesM_eq d sel hsel]
  · cases sel with
    | loc i =>
      simp only [selInRange, decide_eq_true_eq, Nat.not_lt] at hsel
      have hnone : d.locs[i]? = none := List.getElem?_eq_none hsel
      cases fields with
      | nil => rfl
      | cons f fs =>
        have hf : (selCasesM d (.loc i)).filter ok = [] := by
          rw [List.filter_eq_nil_iff]
          intro c hc
          have hx := mem_prod3 _ _ _ c hc
          simp only [List.getD_eq_getElem?_getD, hnone, Option.getD_none, List.mem_singleton] at hx
          rw [hbad (by simp) c hx]
          simp
        unfold assemble
        simp only [isAllSel, Bool.false_eq_true, if_false, hf, selCases, hnone, Option.toList_none,
          prod3_nil, List.filter_nil]
    | all => exact absurd rfl hsel
    | none => exact absurd rfl hsel
    | time i => exact absurd rfl hsel
    | times idx => exact absurd rfl hsel
    | leads idx => exact absurd rfl hsel

/-- **Refinement.**  On a dataset whose arrays have the declared shapes, every request to the index-based
model of `Data` (indices found by searching the coordinate lists, fancy-index cuts, NaN propagation
over arrays, masks, flattening, compression) returns exactly the coordinate-based specification:
the requested (climatology-adjusted) values at the verified coordinates, in ascending coordinate order,
at which every input and the climatology have usable values, including identical error exits.

Hypotheses: `Data.init` succeeded; every stored array has the shape its input declares (`wfInput`).
Nothing is assumed about the request: selections outside an axis select nothing on both sides.
Repeated coordinate values and NaN coordinates are allowed (both sides use the first occurrence; NaN
never matches). -/
theorem getScores_refines (scored : List Input) (cfg : Cfg) (D : DataS) (h : Data.init scored cfg = .ok D)
    (hw : (allInputs scored cfg).all wfInput = true) (r : Req) :
    D.getScores r = specScores scored cfg r := by
  have F := init_facts scored cfg D h
  have hw' : D.inputs.all wfInput = true := by rw [F.hInputs]; exact hw
  rw [getScores_tab F hw' r]
  unfold specScores
  rw [F.hDims]
  simp only []
  by_cases hge : r.input ≥ scored.length
  · rw [if_pos hge, List.getElem?_eq_none hge]
  · have hlt : r.input < scored.length := Nat.lt_of_not_ge hge
    have hI : D.inputs.getD r.input default = scored[r.input] := by
      rw [F.hInputs]
      unfold allInputs
      simp [List.getD_eq_getElem?_getD, List.getElem?_append_left hlt, List.getElem?_eq_getElem hlt]
    have hmem : scored[r.input] ∈ D.inputs := by
      rw [F.hInputs]; unfold allInputs
      exact List.mem_append_left _ (List.getElem_mem hlt)
    rw [if_neg hge, List.getElem?_eq_getElem hlt, hI, ← F.hInputs]
    simp only []
    cases checkAll (checkField D.inputs) (effFields cfg r.fields) with
    | error e => rfl
    | ok u =>
      simp only []
      congr 1
      rw [finish_assemble]
      refine Eq.trans ?_ (spec_assemble r.sel r.fields
        (selCases ⟨D.times, D.leads, D.locs.map (·.id)⟩ r.sel)
        (caseValid D.inputs cfg r.fields scored[r.input])
        (adjusted D.inputs cfg r.fields scored[r.input])).symm
      refine Eq.trans (assemble_congr _ _ _ _ (caseValid D.inputs cfg r.fields scored[r.input]) _
        (adjusted D.inputs cfg r.fields scored[r.input]) ?_ ?_) (assemble_casesM _ _ _ _ _ ?_)
      · intro c
        exact mOK_eq_caseValid D.inputs cfg r.fields scored[r.input] c
      · intro c hc name hn
        rw [show (r.fields.all fun name => isValid (mCol D.inputs cfg r.fields scored[r.input] name c))
          = mOK D.inputs cfg r.fields scored[r.input] c from rfl, mOK_eq_caseValid] at hc
        exact mCol_of_caseValid D.inputs cfg r.fields scored[r.input] c hc name hn
      · intro hne c hc
        exact caseValid_nanloc D.inputs cfg r.fields scored[r.input] c hmem hne hc

/-! ## L. corollaries -/

/-- **C03.**  The verified times / lead times / location ids ARE the specification's sets: the
ascending duplicate-free values that every input (incl. the climatology) has and the user's options allow. -/
theorem C03_dims_are_intersection (scored : List Input) (cfg : Cfg) (D : DataS)
    (h : Data.init scored cfg = .ok D) :
    specDims scored cfg = some ⟨D.times, D.leads, D.locs.map (·.id)⟩ :=
  (init_facts scored cfg D h).hDims

/-- … and `Data.init` stops with an error exactly when the specification has no verified dimensions
(no common time / lead time / location, or a location option that selects nothing). -/
theorem C03_dims_error (scored : List Input) (cfg : Cfg) (e : String)
    (h : Data.init scored cfg = .error e) : specDims scored cfg = none := by
  unfold Data.init at h
  unfold specDims allInputs
  cases hin : scored ++ cfg.clim.toList with
  | nil => rfl
  | cons first rest =>
    simp only [hin, bind, Except.bind, pure, Except.pure] at h
    simp only [List.head?_cons]
    have hrel := useLocations_spec first cfg
    cases hu : useLocations first cfg with
    | error e' =>
      rw [hu] at hrel
      cases ha : allowedLocs first cfg with
      | none => rfl
      | some a => rw [ha] at hrel; exact hrel.elim
    | ok useLocs =>
      rw [hu] at hrel
      simp only [hu] at h
      cases ha : allowedLocs first cfg with
      | none => rfl
      | some allowed =>
        rw [ha] at hrel
        simp only []
        have e1 : commonValues cfg.times ((first :: rest).map (·.times))
            = commonSet cfg.times ((first :: rest).map (·.times)) :=
          commonValues_commonSet_opt cfg.times first.times (rest.map fun (x : Input) => x.times)
        have e2 : commonValues cfg.leads ((first :: rest).map (·.leads))
            = commonSet cfg.leads ((first :: rest).map (·.leads)) :=
          commonValues_commonSet_opt cfg.leads first.leads (rest.map fun (x : Input) => x.leads)
        have e3 : commonValues (some useLocs) ((first :: rest).map fun I => I.locs.map (·.id))
            = commonSet (some allowed) ((first :: rest).map fun I => I.locs.map (·.id)) :=
          commonValues_some useLocs allowed (first.locs.map fun (x : Loc) => x.id)
            (rest.map fun (I : Input) => I.locs.map fun (x : Loc) => x.id) (fun v => memX_congr hrel)
        rw [← e1, ← e2, ← e3]
        cases hc : checkNonEmpty (commonValues cfg.times (List.map (fun x => x.times) (first :: rest)))
          (commonValues cfg.leads (List.map (fun x => x.leads) (first :: rest)))
          (commonValues (some useLocs) (List.map (fun I => List.map (fun x => x.id) I.locs) (first :: rest))) with
        | ok u => simp only [hc, reduceCtorEq] at h
        | error e' =>
          have hne : ¬ (commonValues cfg.times (List.map (fun x => x.times) (first :: rest)) ≠ []
              ∧ commonValues cfg.leads (List.map (fun x => x.leads) (first :: rest)) ≠ []
              ∧ commonValues (some useLocs)
                  (List.map (fun I => List.map (fun x => x.id) I.locs) (first :: rest)) ≠ []) := by
            intro hall
            rw [(C03_empty_error _ _ _).2 hall] at hc
            cases hc
          rw [if_pos]
          by_contra hcon
          apply hne
          simp only [Bool.or_eq_true, List.isEmpty_iff, not_or] at hcon
          exact ⟨hcon.1.1, hcon.1.2, hcon.2⟩

theorem isValid_iff_fin (v : XR) : isValid v = true ↔ ∃ q, v = .fin q := by
  cases v <;> simp [isValid, XR.isNan, XR.isInf]

/-- whether the climatology-adjusted value is finite does not depend on the (finite) value adjusted -/
theorem valid_adjust_indep (v v' cv : XR) (hv : isValid v = true) (hv' : isValid v' = true) :
    isValid (v / cv) = isValid (v' / cv) ∧ isValid (v - cv) = isValid (v' - cv) := by
  obtain ⟨a, rfl⟩ := (isValid_iff_fin v).1 hv
  obtain ⟨a', rfl⟩ := (isValid_iff_fin v').1 hv'
  cases cv with
  | nan => simp
  | pinf => exact ⟨rfl, rfl⟩
  | ninf => exact ⟨rfl, rfl⟩
  | fin b =>
    refine ⟨?_, by simp [isValid, XR.isNan, XR.isInf]⟩
    rw [XR.fin_div, XR.fin_div]
    by_cases hb : b = 0
    · simp only [hb, if_true, XR.infOfSign]
      split <;> split <;> (try split) <;> (try split) <;> rfl
    · simp [hb, isValid, XR.isNan, XR.isInf]

/-- the scored inputs' observations agree on lying inside `-obsrange` (true without `-obsrange`, and
when inputs that store observations store equal values, assumption ObsAgree of C01) -/
def ObsRangeAgree (scored : List Input) (cfg : Cfg) (I J : Input) : Prop :=
  ∀ c, obsOK cfg "obs" (fieldValue (allInputs scored cfg) "obs" I c)
     = obsOK cfg "obs" (fieldValue (allInputs scored cfg) "obs" J c)

theorem obsRangeAgree_of_none (scored : List Input) (cfg : Cfg) (I J : Input) (h : cfg.obsRange = none) :
    ObsRangeAgree scored cfg I J := by
  intro c; unfold obsOK; rw [h]

theorem obsOK_other (cfg : Cfg) (name : String) (v w : XR) (hn : (name == "obs") = false) :
    obsOK cfg name v = obsOK cfg name w := by
  unfold obsOK
  cases cfg.obsRange with
  | none => rfl
  | some r => obtain ⟨lo, hi⟩ := r; simp [hn]

theorem caseValid_indep (inputs : List Input) (cfg : Cfg) (fields : List String) (I J : Input) (c : Coord)
    (hI : I ∈ inputs) (hJ : J ∈ inputs)
    (hobs : obsOK cfg "obs" (fieldValue inputs "obs" I c) = obsOK cfg "obs" (fieldValue inputs "obs" J c)) :
    caseValid inputs cfg fields I c = caseValid inputs cfg fields J c := by
  -- by symmetry it suffices to show one implication for arbitrary I, J
  have key : ∀ I J, I ∈ inputs → J ∈ inputs →
      obsOK cfg "obs" (fieldValue inputs "obs" I c) = obsOK cfg "obs" (fieldValue inputs "obs" J c) →
      caseValid inputs cfg fields I c = true → caseValid inputs cfg fields J c = true := by
    intro I J hI hJ hobs h
    obtain ⟨h1, h2, h3⟩ := (caseValid_iff inputs cfg fields I c).1 h
    refine (caseValid_iff inputs cfg fields J c).2 ⟨h1, ?_, ?_⟩
    · intro name hn
      cases hno : (name == "obs") with
      | true => rw [eq_of_beq hno, ← hobs, ← eq_of_beq hno]; exact h2 name hn
      | false => rw [obsOK_other cfg name _ (fieldValue inputs name I c) hno]; exact h2 name hn
    · intro name hn
      have hall := (anyMissing_false_iff inputs c name).1 (h1 name (mem_eff cfg fields name hn))
      rw [List.all_eq_true] at hall
      have hvI := hall I hI
      have hvJ := hall J hJ
      have := h3 name hn
      unfold adjusted at this ⊢
      obtain ⟨e1, e2⟩ := valid_adjust_indep _ _ (climValue inputs cfg c) hvJ hvI
      split
      · rename_i hc
        rw [if_pos hc] at this
        split
        · rename_i hdv; rw [if_pos hdv] at this; rw [e1]; exact this
        · rename_i hdv; rw [if_neg hdv] at this; rw [e2]; exact this
      · exact hvJ
  rw [Bool.eq_iff_iff]
  exact ⟨key I J hI hJ hobs, key J I hJ hI hobs.symm⟩

theorem specCases_eq (scored : List Input) (cfg : Cfg) (r : Req) (d : Dims) (I : Input)
    (hd : specDims scored cfg = some d) (hI : scored[r.input]? = some I) :
    specCases scored cfg r = (selCases d r.sel).filter (caseValid (allInputs scored cfg) cfg r.fields I) := by
  unfold specCases
  rw [hd, hI]

/-- **C01.**  For two scored inputs and the same fields and selection, the contributing coordinates
are the same. -/
theorem C01_same_case_set (scored : List Input) (cfg : Cfg) (fields : List String) (sel : Sel) (i j : Nat)
    (hi : i < scored.length) (hj : j < scored.length)
    (hobs : ObsRangeAgree scored cfg scored[i] scored[j]) :
    specCases scored cfg ⟨fields, i, sel⟩ = specCases scored cfg ⟨fields, j, sel⟩ := by
  unfold specCases
  cases specDims scored cfg with
  | none => rfl
  | some d =>
    simp only [List.getElem?_eq_getElem hi, List.getElem?_eq_getElem hj]
    apply List.filter_congr
    intro c _
    apply caseValid_indep
    · unfold allInputs; exact List.mem_append_left _ (List.getElem_mem hi)
    · unfold allInputs; exact List.mem_append_left _ (List.getElem_mem hj)
    · exact hobs c

/-- … and these are the cases behind the model's answer: for a selection other than the whole array the
answer to a request lists the requested (adjusted) values over `specCases` (or is the `[NaN]` placeholder
when there is none). -/
theorem getScores_over_specCases (scored : List Input) (cfg : Cfg) (D : DataS)
    (h : Data.init scored cfg = .ok D) (hw : (allInputs scored cfg).all wfInput = true) (r : Req)
    (hall : isAllSel r.sel = false) (out : List Vec) (hout : D.getScores r = .ok out) :
    ∃ I, scored[r.input]? = some I ∧
      out = (let cols := r.fields.map fun name =>
               (specCases scored cfg r).map (adjusted (allInputs scored cfg) cfg r.fields I name)
             if (cols.headD []).isEmpty then List.replicate r.fields.length [.nan] else cols) := by
  rw [getScores_refines scored cfg D h hw r] at hout
  have hd := C03_dims_are_intersection scored cfg D h
  unfold specScores at hout
  rw [hd] at hout
  simp only [] at hout
  cases hI : scored[r.input]? with
  | none => rw [hI] at hout; cases hout
  | some I =>
    refine ⟨I, rfl, ?_⟩
    rw [hI] at hout
    simp only [] at hout
    cases hc : checkAll (checkField (allInputs scored cfg)) (effFields cfg r.fields) with
    | error e => rw [hc] at hout; cases hout
    | ok u =>
      rw [hc] at hout
      simp only [Except.ok.injEq] at hout
      rw [← hout, specCases_eq scored cfg r _ I hd hI]
      obtain ⟨fields, input, sel⟩ := r
      cases sel <;> first | rfl | cases hall

/-! ## M. non-vacuity: a concrete dataset -/

namespace Example

def exA : Input :=
  { times := [0, 86400], leads := [0, 6],
    locs := [⟨1, 50, 10, 100⟩, ⟨2, 60, 20, 200⟩],
    fields := [("obs", [[[1, 2], [3, 4]], [[5, 6], [7, 8]]]),
               ("fcst", [[[2, 3], [4, 5]], [[6, 7], [8, 9]]])] }

/-- the same coordinates in a different order (times, lead times and locations all reversed), one more
location, one missing forecast (time 0, lead time 6, location 1) -/
def exB : Input :=
  { times := [86400, 0], leads := [6, 0],
    locs := [⟨3, 70, 30, 300⟩, ⟨2, 60, 20, 200⟩, ⟨1, 50, 10, 100⟩],
    fields := [("obs", [[[0, 8, 7], [0, 6, 5]], [[0, 4, 3], [0, 2, 1]]]),
               ("fcst", [[[0, 18, 17], [0, 16, 15]], [[0, 14, .nan], [0, 12, 11]]])] }

/-- a user subset: latitude range (excludes location 3), a lead-time list with a value no input has,
an excluded id -/
def exCfg : Cfg := { latRange := some (45, 65), locationsX := some [7], leads := some [6, 0, 12] }

def exReq : Req := { fields := ["obs", "fcst"], input := 1, sel := .none }

instance decEqAnswer : DecidableEq (Except String (List Vec)) := fun a b =>
  match a, b with
  | .ok x, .ok y => if h : x = y then isTrue (congrArg _ h) else isFalse (fun e => h (Except.ok.inj e))
  | .error x, .error y => if h : x = y then isTrue (congrArg _ h) else isFalse (fun e => h (Except.error.inj e))
  | .ok _, .error _ => isFalse (fun e => by cases e)
  | .error _, .ok _ => isFalse (fun e => by cases e)

/-- the hypotheses of the theorem hold: `Data.init` succeeds, the arrays have the declared shapes -/
example : (Data.init [exA, exB] exCfg).toOption.isSome = true
    ∧ (allInputs [exA, exB] exCfg).all wfInput = true := by
  constructor <;> decide +kernel

/-- the specification's verified dimensions and its answer: 7 of the 8 cases (the missing one is dropped
for BOTH inputs), input 1's values listed in ascending coordinate order although it stores them reversed -/
example : specDims [exA, exB] exCfg = some ⟨[0, 86400], [0, 6], [1, 2]⟩
    ∧ specScores [exA, exB] exCfg exReq = .ok [[1, 2, 4, 5, 6, 7, 8], [11, 12, 14, 15, 16, 17, 18]]
    ∧ specScores [exA, exB] exCfg { exReq with input := 0 }
        = .ok [[1, 2, 4, 5, 6, 7, 8], [2, 3, 5, 6, 7, 8, 9]] := by
  refine ⟨?_, ?_, ?_⟩ <;> decide +kernel

/-- … and the index-based model computes the same (through the theorem) -/
example (D : DataS) (h : Data.init [exA, exB] exCfg = .ok D) :
    D.getScores exReq = .ok [[1, 2, 4, 5, 6, 7, 8], [11, 12, 14, 15, 16, 17, 18]] := by
  rw [getScores_refines [exA, exB] exCfg D h (by decide +kernel) exReq]
  decide +kernel

/-- … and directly, both sides evaluated -/
example : (match Data.init [exA, exB] exCfg with
    | .ok D => D.getScores exReq
    | .error e => .error e) = specScores [exA, exB] exCfg exReq := by
  decide +kernel

/-- a location selection, inside and outside the axis -/
example (D : DataS) (h : Data.init [exA, exB] exCfg = .ok D) :
    D.getScores ⟨["fcst"], 1, .loc 1⟩ = .ok [[12, 14, 16, 18]]
    ∧ D.getScores ⟨["fcst"], 1, .loc 5⟩ = .ok [[.nan]] := by
  rw [getScores_refines [exA, exB] exCfg D h (by decide +kernel),
    getScores_refines [exA, exB] exCfg D h (by decide +kernel)]
  constructor <;> decide +kernel

end Example

/-! ## N. the specification depends on an input only through its coordinate function -/

/-- two inputs carry the same data: the same coordinate values, the same location records, the same
fields, and the same value at every coordinate — in whatever order they list them -/
structure InputEquiv (I I' : Input) : Prop where
  hT : ∀ v, v ∈ I.times ↔ v ∈ I'.times
  hL : ∀ v, v ∈ I.leads ↔ v ∈ I'.leads
  hX : ∀ l : Loc, l ∈ I.locs ↔ l ∈ I'.locs
  hHas : ∀ name, hasField name I = hasField name I'
  hVal : ∀ name c, ownValue I name c = ownValue I' name c

theorem InputEquiv.refl (I : Input) : InputEquiv I I :=
  ⟨fun _ => Iff.rfl, fun _ => Iff.rfl, fun _ => Iff.rfl, fun _ => rfl, fun _ _ => rfl⟩

theorem InputEquiv.symm {I I' : Input} (h : InputEquiv I I') : InputEquiv I' I :=
  ⟨fun v => (h.hT v).symm, fun v => (h.hL v).symm, fun l => (h.hX l).symm, fun n => (h.hHas n).symm,
   fun n c => (h.hVal n c).symm⟩

def OptEquiv : Option Input → Option Input → Prop
  | some a, some b => InputEquiv a b
  | none, none => True
  | _, _ => False

/-- two datasets with equivalent inputs: the same first input (whose metadata are used), the same inputs
as a set, the same supplier of borrowed observations, the same climatology -/
structure DatasetEquiv (scored : List Input) (cfg : Cfg) (scored' : List Input) (C' : Option Input) : Prop where
  hclim : OptEquiv cfg.clim C'
  hhead : OptEquiv (allInputs scored cfg).head? (allInputs scored' { cfg with clim := C' }).head?
  hfwd : ∀ J ∈ allInputs scored cfg, ∃ J' ∈ allInputs scored' { cfg with clim := C' }, InputEquiv J J'
  hbwd : ∀ J' ∈ allInputs scored' { cfg with clim := C' }, ∃ J ∈ allInputs scored cfg, InputEquiv J J'
  hobs : OptEquiv ((allInputs scored cfg).find? (hasField "obs"))
    ((allInputs scored' { cfg with clim := C' }).find? (hasField "obs"))

theorem all_equiv {α : Type} (R : α → α → Prop) (l l' : List α) (p p' : α → Bool)
    (hf : ∀ a ∈ l, ∃ b ∈ l', R a b) (hb : ∀ b ∈ l', ∃ a ∈ l, R a b) (hp : ∀ a b, R a b → p a = p' b) :
    l.all p = l'.all p' := by
  rw [Bool.eq_iff_iff, List.all_eq_true, List.all_eq_true]
  constructor
  · intro h b hbm
    obtain ⟨a, ha, hr⟩ := hb b hbm
    rw [← hp a b hr]; exact h a ha
  · intro h a ha
    obtain ⟨b, hbm, hr⟩ := hf a ha
    rw [hp a b hr]; exact h b hbm

theorem any_equiv {α : Type} (R : α → α → Prop) (l l' : List α) (p p' : α → Bool)
    (hf : ∀ a ∈ l, ∃ b ∈ l', R a b) (hb : ∀ b ∈ l', ∃ a ∈ l, R a b) (hp : ∀ a b, R a b → p a = p' b) :
    l.any p = l'.any p' := by
  rw [Bool.eq_iff_iff, List.any_eq_true, List.any_eq_true]
  constructor
  · rintro ⟨a, ha, h⟩
    obtain ⟨b, hbm, hr⟩ := hf a ha
    exact ⟨b, hbm, by rw [← hp a b hr]; exact h⟩
  · rintro ⟨b, hbm, h⟩
    obtain ⟨a, ha, hr⟩ := hb b hbm
    exact ⟨a, ha, by rw [hp a b hr]; exact h⟩

section Invariance
variable {scored scored' : List Input} {cfg : Cfg} {C' : Option Input}

theorem supplier_equiv (E : DatasetEquiv scored cfg scored' C') (name : String) (J J' : Input)
    (h : InputEquiv J J') :
    InputEquiv (supplier (allInputs scored cfg) name J)
      (supplier (allInputs scored' { cfg with clim := C' }) name J') := by
  unfold supplier
  rw [h.hHas "obs"]
  split
  · have ho := E.hobs
    cases h1 : (allInputs scored cfg).find? (hasField "obs") with
    | none =>
      cases h2 : (allInputs scored' { cfg with clim := C' }).find? (hasField "obs") with
      | none => exact h
      | some b => rw [h1, h2] at ho; exact ho.elim
    | some a =>
      cases h2 : (allInputs scored' { cfg with clim := C' }).find? (hasField "obs") with
      | none => rw [h1, h2] at ho; exact ho.elim
      | some b => rw [h1, h2] at ho; exact ho
  · exact h

theorem fieldValue_equiv (E : DatasetEquiv scored cfg scored' C') (name : String) (J J' : Input)
    (h : InputEquiv J J') (c : Coord) :
    fieldValue (allInputs scored cfg) name J c
      = fieldValue (allInputs scored' { cfg with clim := C' }) name J' c := by
  rw [fieldValue_eq, fieldValue_eq]
  exact (supplier_equiv E name J J' h).hVal name c

theorem checkField_equiv (E : DatasetEquiv scored cfg scored' C') (name : String) :
    checkField (allInputs scored cfg) name = checkField (allInputs scored' { cfg with clim := C' }) name := by
  unfold checkField
  rw [any_equiv InputEquiv _ _ (hasField "obs") (hasField "obs") E.hfwd E.hbwd (fun a b h => h.hHas "obs"),
    all_equiv InputEquiv _ _ (hasField name) (hasField name) E.hfwd E.hbwd (fun a b h => h.hHas name)]

theorem checkAll_equiv (E : DatasetEquiv scored cfg scored' C') (l : List String) :
    checkAll (checkField (allInputs scored cfg)) l
      = checkAll (checkField (allInputs scored' { cfg with clim := C' })) l := by
  have : checkField (allInputs scored cfg) = checkField (allInputs scored' { cfg with clim := C' }) :=
    funext (checkField_equiv E)
  rw [this]

theorem doClim_equiv (E : DatasetEquiv scored cfg scored' C') (fields : List String) :
    doClim { cfg with clim := C' } fields = doClim cfg fields := by
  unfold doClim
  have : C'.isSome = cfg.clim.isSome := by
    have h := E.hclim
    cases h1 : cfg.clim <;> cases h2 : C' <;> rw [h1, h2] at h <;> first | rfl | exact h.elim
  simp only [this]

theorem effFields_equiv (E : DatasetEquiv scored cfg scored' C') (fields : List String) :
    effFields { cfg with clim := C' } fields = effFields cfg fields := by
  unfold effFields
  rw [doClim_equiv E]

theorem climValue_equiv (E : DatasetEquiv scored cfg scored' C') (c : Coord) :
    climValue (allInputs scored' { cfg with clim := C' }) { cfg with clim := C' } c
      = climValue (allInputs scored cfg) cfg c := by
  unfold climValue
  have h := E.hclim
  cases h1 : cfg.clim with
  | none =>
    cases h2 : C' with
    | none => rfl
    | some b => rw [h1, h2] at h; exact h.elim
  | some a =>
    cases h2 : C' with
    | none => rw [h1, h2] at h; exact h.elim
    | some b =>
      rw [h1, h2] at h
      simp only []
      have := fieldValue_equiv E "fcst" a b h c
      rw [h2] at this
      exact this.symm

theorem adjusted_equiv (E : DatasetEquiv scored cfg scored' C') (fields : List String) (I I' : Input)
    (h : InputEquiv I I') (name : String) (c : Coord) :
    adjusted (allInputs scored' { cfg with clim := C' }) { cfg with clim := C' } fields I' name c
      = adjusted (allInputs scored cfg) cfg fields I name c := by
  unfold adjusted
  rw [doClim_equiv E, climValue_equiv E, ← fieldValue_equiv E name I I' h c]

theorem caseValid_equiv (E : DatasetEquiv scored cfg scored' C') (fields : List String) (I I' : Input)
    (h : InputEquiv I I') (c : Coord) :
    caseValid (allInputs scored' { cfg with clim := C' }) { cfg with clim := C' } fields I' c
      = caseValid (allInputs scored cfg) cfg fields I c := by
  have h1 : ∀ name, ((allInputs scored' { cfg with clim := C' }).all fun J =>
        isValid (fieldValue (allInputs scored' { cfg with clim := C' }) name J c))
      = ((allInputs scored cfg).all fun J => isValid (fieldValue (allInputs scored cfg) name J c)) := by
    intro name
    exact (all_equiv InputEquiv _ _ _ _ E.hfwd E.hbwd
      (fun a b hab => by rw [fieldValue_equiv E name a b hab c])).symm
  have h2 : ∀ name, obsOK { cfg with clim := C' } name
        (fieldValue (allInputs scored' { cfg with clim := C' }) name I' c)
      = obsOK cfg name (fieldValue (allInputs scored cfg) name I c) := by
    intro name
    rw [← fieldValue_equiv E name I I' h c]
    rfl
  have h3 : ∀ name, adjusted (allInputs scored' { cfg with clim := C' }) { cfg with clim := C' } fields I' name c
      = adjusted (allInputs scored cfg) cfg fields I name c := fun name => adjusted_equiv E fields I I' h name c
  unfold caseValid
  rw [effFields_equiv E]
  simp only [h1, h2, h3]

end Invariance

/-- the same set (or the same error exit) -/
def SetRel : Option (List XR) → Option (List XR) → Prop
  | some a, some b => ∀ v, v ∈ a ↔ v ∈ b
  | none, none => True
  | _, _ => False

theorem SetRel.bind {s s' : Option (List XR)} {g g' : List XR → Option (List XR)}
    (h : SetRel s s') (hg : ∀ a b, (∀ v, v ∈ a ↔ v ∈ b) → SetRel (g a) (g' b)) :
    SetRel (s.bind g) (s'.bind g') := by
  cases s with
  | none => cases s' with
    | none => trivial
    | some b => exact h.elim
  | some a => cases s' with
    | none => exact h.elim
    | some b => exact hg a b h

theorem setRel_guard (a b : List XR) (h : ∀ v, v ∈ a ↔ v ∈ b) (g : Bool) :
    SetRel (if g && a.isEmpty then none else some a) (if g && b.isEmpty then none else some b) := by
  rw [isEmpty_congr h]
  split
  · trivial
  · exact h

theorem allowedLocs_clim (first : Input) (cfg : Cfg) (C' : Option Input) :
    allowedLocs first { cfg with clim := C' } = allowedLocs first cfg := rfl

section LocEquiv
variable (first first' : Input) (cfg : Cfg) (hX : ∀ l : Loc, l ∈ first.locs ↔ l ∈ first'.locs)
include hX

theorem idsWhere_equiv (p : Loc → Bool) (v : XR) : v ∈ idsWhere first p ↔ v ∈ idsWhere first' p := by
  unfold idsWhere
  simp only [List.mem_map, List.mem_filter, hX]

theorem ids_equiv (v : XR) : v ∈ first.locs.map (·.id) ↔ v ∈ first'.locs.map (·.id) := by
  simp only [List.mem_map, hX]

theorem allowedByRange_equiv : SetRel (allowedByRange first cfg) (allowedByRange first' cfg) := by
  unfold allowedByRange
  simp only []
  apply setRel_guard
  intro v
  cases cfg.locations with
  | none =>
    simp only []
    cases (cfg.latRange.isSome || cfg.lonRange.isSome) with
    | false => exact ids_equiv first first' hX v
    | true => exact idsWhere_equiv first first' hX _ v
  | some ls =>
    simp only []
    cases (cfg.latRange.isSome || cfg.lonRange.isSome) with
    | false => exact Iff.rfl
    | true =>
      simp only [if_true]
      exact mem_filter_congr _ (idsWhere_equiv first first' hX _) v

theorem allowedByElev_equiv (a b : List XR) (h : ∀ v, v ∈ a ↔ v ∈ b) :
    SetRel (allowedByElev first cfg a) (allowedByElev first' cfg b) := by
  unfold allowedByElev
  cases cfg.elevRange with
  | none => exact h
  | some r =>
    simp only []
    have hm : ∀ v, v ∈ inter a (idsWhere first fun l => inRange r l.elev)
        ↔ v ∈ inter b (idsWhere first' fun l => inRange r l.elev) := by
      intro v
      unfold inter
      rw [List.mem_filter, List.mem_filter, h v,
        memX_congr (idsWhere_equiv first first' hX (fun l => inRange r l.elev))]
    have := setRel_guard _ _ hm true
    simpa using this

end LocEquiv

theorem allowedByExclusion_equiv (cfg : Cfg) (a b : List XR) (h : ∀ v, v ∈ a ↔ v ∈ b) :
    SetRel (allowedByExclusion cfg a) (allowedByExclusion cfg b) := by
  unfold allowedByExclusion
  cases cfg.locationsX with
  | none => exact h
  | some xs => exact mem_filter_congr _ h

theorem allowedLocs_equiv (first first' : Input) (cfg : Cfg)
    (hX : ∀ l : Loc, l ∈ first.locs ↔ l ∈ first'.locs) :
    SetRel (allowedLocs first cfg) (allowedLocs first' cfg) := by
  unfold allowedLocs
  exact (allowedByRange_equiv first first' cfg hX).bind fun a b h =>
    (allowedByElev_equiv first first' cfg hX a b h).bind (allowedByExclusion_equiv cfg)

/-- is the value in the user's list (if one was given)? -/
def userOK (user : Option (List XR)) (v : XR) : Bool :=
  match user with
  | some u => memX v u
  | none => true

theorem memX_commonSet' (user : Option (List XR)) (c : List XR) (cols : List (List XR)) (v : XR) :
    memX v (commonSet user (c :: cols))
      = (memX v c && ((c :: cols).all (fun k => memX v k) && userOK user v) && !v.isNan) :=
  memX_commonSet user c cols v

theorem commonSet_sorted (user : Option (List XR)) (cols : List (List XR)) :
    StrictAsc (commonSet user cols) ∧ NoNan (commonSet user cols) := by
  unfold commonSet
  exact ⟨(C03_sortU _).1, (C03_sortU _).2.1⟩

theorem commonSet_equiv (user user' : Option (List XR)) (c c' : List XR) (cols cols' : List (List XR))
    (hu : ∀ v, userOK user v = userOK user' v)
    (hc : ∀ v, memX v c = memX v c')
    (hall : ∀ v, (c :: cols).all (fun k => memX v k) = (c' :: cols').all (fun k => memX v k)) :
    commonSet user (c :: cols) = commonSet user' (c' :: cols') := by
  obtain ⟨s1, n1⟩ := commonSet_sorted user (c :: cols)
  obtain ⟨s2, n2⟩ := commonSet_sorted user' (c' :: cols')
  apply strictAsc_ext' _ _ s1 s2 n1 n2
  intro v
  rw [memX_commonSet', memX_commonSet', hu v, hc v, hall v]

section Invariance2
variable {scored scored' : List Input} {cfg : Cfg} {C' : Option Input}

theorem specDims_equiv (E : DatasetEquiv scored cfg scored' C') :
    specDims scored' { cfg with clim := C' } = specDims scored cfg := by
  have hh := E.hhead
  have hf := E.hfwd
  have hb := E.hbwd
  unfold specDims
  cases hin : allInputs scored cfg with
  | nil =>
    cases hin' : allInputs scored' { cfg with clim := C' } with
    | nil => rfl
    | cons f' r' => rw [hin, hin'] at hh; exact hh.elim
  | cons first rest =>
    cases hin' : allInputs scored' { cfg with clim := C' } with
    | nil => rw [hin, hin'] at hh; exact hh.elim
    | cons first' rest' =>
      rw [hin, hin'] at hh hf hb
      have hh : InputEquiv first first' := hh
      simp only [List.head?_cons]
      rw [allowedLocs_clim]
      have hrel := allowedLocs_equiv first first' cfg hh.hX
      have hallT : ∀ v, (first'.times :: rest'.map (·.times)).all (fun k => memX v k)
          = (first.times :: rest.map (·.times)).all (fun k => memX v k) := by
        intro v
        rw [← List.map_cons (f := fun (x : Input) => x.times), ← List.map_cons (f := fun (x : Input) => x.times),
          List.all_map, List.all_map]
        exact (all_equiv InputEquiv _ _ _ _ hf hb (fun a b hab => memX_congr hab.hT)).symm
      have hallL : ∀ v, (first'.leads :: rest'.map (·.leads)).all (fun k => memX v k)
          = (first.leads :: rest.map (·.leads)).all (fun k => memX v k) := by
        intro v
        rw [← List.map_cons (f := fun (x : Input) => x.leads), ← List.map_cons (f := fun (x : Input) => x.leads),
          List.all_map, List.all_map]
        exact (all_equiv InputEquiv _ _ _ _ hf hb (fun a b hab => memX_congr hab.hL)).symm
      have hallX : ∀ v, (first'.locs.map (·.id) :: rest'.map (fun I => I.locs.map (·.id))).all (fun k => memX v k)
          = (first.locs.map (·.id) :: rest.map (fun I => I.locs.map (·.id))).all (fun k => memX v k) := by
        intro v
        rw [← List.map_cons (f := fun (I : Input) => I.locs.map (·.id)),
          ← List.map_cons (f := fun (I : Input) => I.locs.map (·.id)), List.all_map, List.all_map]
        exact (all_equiv InputEquiv _ _ _ _ hf hb
          (fun a b hab => memX_congr (ids_equiv a b hab.hX))).symm
      have eT : commonSet cfg.times ((first' :: rest').map (·.times))
          = commonSet cfg.times ((first :: rest).map (·.times)) :=
        commonSet_equiv cfg.times cfg.times first'.times first.times _ _ (fun _ => rfl)
          (fun v => (memX_congr hh.hT).symm) hallT
      have eL : commonSet cfg.leads ((first' :: rest').map (·.leads))
          = commonSet cfg.leads ((first :: rest).map (·.leads)) :=
        commonSet_equiv cfg.leads cfg.leads first'.leads first.leads _ _ (fun _ => rfl)
          (fun v => (memX_congr hh.hL).symm) hallL
      cases ha : allowedLocs first cfg with
      | none =>
        cases ha' : allowedLocs first' cfg with
        | none => rfl
        | some b => rw [ha, ha'] at hrel; exact hrel.elim
      | some a =>
        cases ha' : allowedLocs first' cfg with
        | none => rw [ha, ha'] at hrel; exact hrel.elim
        | some b =>
          rw [ha, ha'] at hrel
          have eX : commonSet (some b) ((first' :: rest').map fun I => I.locs.map (·.id))
              = commonSet (some a) ((first :: rest).map fun I => I.locs.map (·.id)) :=
            commonSet_equiv (some b) (some a) (first'.locs.map fun (x : Loc) => x.id)
              (first.locs.map fun (x : Loc) => x.id)
              (rest'.map fun (I : Input) => I.locs.map fun (x : Loc) => x.id)
              (rest.map fun (I : Input) => I.locs.map fun (x : Loc) => x.id)
              (fun v => (memX_congr hrel : memX v a = memX v b).symm)
              (fun v => (memX_congr (ids_equiv first first' hh.hX)).symm) hallX
          simp only []
          rw [eT, eL, eX]
          rfl

end Invariance2

section Invariance3
variable {scored scored' : List Input} {cfg : Cfg} {C' : Option Input}

/-- the specification's answer depends on the dataset only up to `DatasetEquiv` -/
theorem specScores_invariant (E : DatasetEquiv scored cfg scored' C') (r r' : Req)
    (hf : r'.fields = r.fields) (hs : r'.sel = r.sel)
    (hi : OptEquiv scored[r.input]? scored'[r'.input]?) :
    specScores scored' { cfg with clim := C' } r' = specScores scored cfg r := by
  unfold specScores
  rw [specDims_equiv E, hf, hs]
  cases specDims scored cfg with
  | none => rfl
  | some d =>
    simp only []
    cases h1 : scored[r.input]? with
    | none =>
      cases h2 : scored'[r'.input]? with
      | none => rfl
      | some b => rw [h1, h2] at hi; exact hi.elim
    | some I =>
      cases h2 : scored'[r'.input]? with
      | none => rw [h1, h2] at hi; exact hi.elim
      | some I' =>
        rw [h1, h2] at hi
        have hi : InputEquiv I I' := hi
        simp only []
        rw [effFields_equiv E, ← checkAll_equiv E]
        cases checkAll (checkField (allInputs scored cfg)) (effFields cfg r.fields) with
        | error e => rfl
        | ok u =>
          simp only []
          have hcv : caseValid (allInputs scored' { cfg with clim := C' }) { cfg with clim := C' } r.fields I'
              = caseValid (allInputs scored cfg) cfg r.fields I :=
            funext (caseValid_equiv E r.fields I I' hi)
          have hadj : adjusted (allInputs scored' { cfg with clim := C' }) { cfg with clim := C' } r.fields I'
              = adjusted (allInputs scored cfg) cfg r.fields I :=
            funext fun name => funext (adjusted_equiv E r.fields I I' hi name)
          rw [hcv, hadj]

/-- **C02.**  Reordering does not change any answer: if two datasets have equivalent inputs (each input
lists the same coordinates with the same data in any order; the scored inputs may come in another order
as long as the first input and the supplier of borrowed observations stay the same), then `Data.init`
succeeds on the second as well, verifies the same dimensions, and every request gets the same answer. -/
theorem C02_order_irrelevant (scored scored' : List Input) (cfg : Cfg) (C' : Option Input) (D : DataS)
    (h : Data.init scored cfg = .ok D)
    (hw : (allInputs scored cfg).all wfInput = true)
    (hw' : (allInputs scored' { cfg with clim := C' }).all wfInput = true)
    (E : DatasetEquiv scored cfg scored' C') :
    ∃ D', Data.init scored' { cfg with clim := C' } = .ok D'
      ∧ D'.times = D.times ∧ D'.leads = D.leads ∧ D'.locs.map (·.id) = D.locs.map (·.id)
      ∧ ∀ r r' : Req, r'.fields = r.fields → r'.sel = r.sel →
          OptEquiv scored[r.input]? scored'[r'.input]? →
          D'.getScores r' = D.getScores r := by
  have hd := C03_dims_are_intersection scored cfg D h
  cases h' : Data.init scored' { cfg with clim := C' } with
  | error e =>
    have := C03_dims_error _ _ e h'
    rw [specDims_equiv E, hd] at this
    cases this
  | ok D' =>
    have hd' := C03_dims_are_intersection _ _ D' h'
    rw [specDims_equiv E, hd] at hd'
    injection hd' with hd'
    injection hd' with e1 e2 e3
    refine ⟨D', rfl, e1.symm, e2.symm, e3.symm, ?_⟩
    intro r r' hf hs hi
    rw [getScores_refines scored cfg D h hw r, getScores_refines scored' _ D' h' hw' r']
    exact specScores_invariant E r r' hf hs hi

end Invariance3

/-! ## O. reordering an input's dimension entries together with its data -/

/-- list the dimension entries of `I` in the order given by three index lists, moving the data along
(`cut` is exactly that re-indexing of an array) -/
def reindex (I : Input) (pt pl px : List Nat) : Input :=
  { times := pt.map fun i => I.times.getD i .nan
    leads := pl.map fun j => I.leads.getD j .nan
    locs := px.map fun k => I.locs.getD k default
    fields := I.fields.map fun f => (f.1, cut f.2 pt pl px) }

/-- no coordinate value is repeated inside the input -/
def NoDupCoords (I : Input) : Prop := I.times.Nodup ∧ I.leads.Nodup ∧ (I.locs.map (·.id)).Nodup

instance (I : Input) : Decidable (NoDupCoords I) := by unfold NoDupCoords; infer_instance

theorem lookupBy_map {α β : Type} (v : XR) (keys : List XR) (rows : List α) (F : α → β) :
    lookupBy v keys (rows.map F) = (lookupBy v keys rows).map F := by
  unfold lookupBy
  induction keys generalizing rows with
  | nil => simp
  | cons k ks ih =>
    cases rows with
    | nil => simp
    | cons r rs =>
      simp only [List.map_cons, List.zip_cons_cons, List.find?_cons]
      cases XR.eqb v k with
      | true => rfl
      | false => exact ih rs

theorem lookupBy_mem {α : Type} (v : XR) (keys : List XR) (rows : List α) (r : α)
    (h : lookupBy v keys rows = some r) : r ∈ rows := by
  unfold lookupBy at h
  cases hf : (keys.zip rows).find? (fun p => XR.eqb v p.1) with
  | none => rw [hf] at h; cases h
  | some p =>
    rw [hf] at h
    simp only [Option.map_some, Option.some.injEq] at h
    have hm := List.mem_of_find?_eq_some hf
    rw [← h]
    exact (List.of_mem_zip hm).2

theorem perm_range_lt {p : List Nat} {n : Nat} (hp : p.Perm (List.range n)) {i : Nat} (hi : i ∈ p) : i < n := by
  have := hp.mem_iff.1 hi
  simpa using this

/-- looking a coordinate up after the entries (and rows) were permuted finds the same row -/
theorem lookupBy_reindex {α β : Type} (keys : List XR) (rows : List α) (p : List Nat) (F : α → β) (d : α)
    (hlen : rows.length = keys.length) (hp : p.Perm (List.range keys.length)) (hnd : keys.Nodup) (v : XR) :
    lookupBy v (p.map fun i => keys.getD i .nan) (p.map fun i => F (rows.getD i d))
      = (lookupBy v keys rows).map F := by
  rw [← lookupBy_map]
  have hz : ∀ (q : List Nat), (q.map fun i => keys.getD i .nan).zip (q.map fun i => F (rows.getD i d))
      = q.map fun i => (keys.getD i .nan, F (rows.getD i d)) := by
    intro q
    induction q with
    | nil => rfl
    | cons a q ih => simp only [List.map_cons, List.zip_cons_cons, ih]
  have h0 : keys.zip (rows.map F)
      = (List.range keys.length).map fun i => (keys.getD i .nan, F (rows.getD i d)) := by
    rw [← hz]
    congr 1
    · exact (range_map_getD keys .nan).symm
    · rw [← hlen, ← map_eq_range_map rows d F]
  show C02.lookup v ((p.map fun i => keys.getD i .nan).zip (p.map fun i => F (rows.getD i d)))
    = C02.lookup v (keys.zip (rows.map F))
  rw [hz, h0]
  apply C02.C02_perm_lookup v _ _ (hp.map _)
  intro a ha b hb ea eb
  rw [List.mem_map] at ha hb
  obtain ⟨i, hi, rfl⟩ := ha
  obtain ⟨j, hj, rfl⟩ := hb
  have hi' := perm_range_lt hp hi
  have hj' := perm_range_lt hp hj
  have e1 := eqb_eq ea
  have e2 := eqb_eq eb
  simp only [List.getD_eq_getElem?_getD, List.getElem?_eq_getElem hi', List.getElem?_eq_getElem hj',
    Option.getD_some] at e1 e2
  have : i = j := (List.Nodup.getElem_inj_iff hnd).1 (e1.symm.trans e2)
  subst this
  rfl

theorem lookup_map_snd {α β : Type} (l : List (String × α)) (G : α → β) (name : String) :
    (l.map fun f => (f.1, G f.2)).lookup name = (l.lookup name).map G := by
  induction l with
  | nil => rfl
  | cons f l ih =>
    simp only [List.map_cons, List.lookup]
    cases name == f.1 with
    | true => rfl
    | false => exact ih

section Reindex
variable (I : Input) (pt pl px : List Nat)

theorem reindex_field (name : String) :
    (reindex I pt pl px).field? name = (I.field? name).map fun a => cut a pt pl px := by
  show (List.map (fun f => (f.1, cut f.2 pt pl px)) I.fields).lookup name = _
  exact lookup_map_snd I.fields (fun a => cut a pt pl px) name

theorem shapeOK_reindex (a : Arr3) : shapeOK (reindex I pt pl px) (cut a pt pl px) = true := by
  rw [shapeOK_iff]
  unfold reindex cut
  simp only [List.length_map, List.mem_map]
  refine ⟨trivial, ?_⟩
  rintro p ⟨t, _, rfl⟩
  simp only [List.length_map, List.mem_map]
  refine ⟨trivial, ?_⟩
  rintro r ⟨l, _, rfl⟩
  simp

theorem wfInput_reindex : wfInput (reindex I pt pl px) = true := by
  unfold wfInput
  rw [List.all_eq_true]
  intro f hf
  have : f ∈ I.fields.map fun f => (f.1, cut f.2 pt pl px) := hf
  rw [List.mem_map] at this
  obtain ⟨g, _, rfl⟩ := this
  exact shapeOK_reindex I pt pl px g.2

variable (hpt : pt.Perm (List.range I.times.length)) (hpl : pl.Perm (List.range I.leads.length))
  (hpx : px.Perm (List.range I.locs.length)) (hnd : NoDupCoords I)
include hpt hpl hpx hnd

theorem valueAt_reindex (a : Arr3) (ha : shapeOK I a = true) (c : Coord) :
    valueAt (reindex I pt pl px) (cut a pt pl px) c = valueAt I a c := by
  obtain ⟨h1, h2⟩ := (shapeOK_iff I a).1 ha
  obtain ⟨nt, nl, nx⟩ := hnd
  -- the re-indexed array, level by level
  let F2 : List XR → List XR := fun row => px.map fun k => id (row.getD k .nan)
  let F1 : List (List XR) → List (List XR) := fun plane => pl.map fun j => F2 (plane.getD j [])
  have hcut : cut a pt pl px = pt.map fun i => F1 (a.getD i []) := rfl
  have hids : (reindex I pt pl px).locs.map (fun (x : Loc) => x.id) = px.map fun k => (I.locs.map fun (x : Loc) => x.id).getD k .nan := by
    unfold reindex
    simp only [List.map_map]
    apply List.map_congr_left
    intro k hk
    have hk' := perm_range_lt hpx hk
    simp [List.getD_eq_getElem?_getD, List.getElem?_eq_getElem hk']
  unfold valueAt
  rw [hids, hcut]
  show (match lookupBy c.1 (pt.map fun i => I.times.getD i .nan) (pt.map fun i => F1 (a.getD i [])) with
    | none => XR.nan
    | some plane =>
      match lookupBy c.2.1 (pl.map fun j => I.leads.getD j .nan) plane with
      | none => XR.nan
      | some row => (lookupBy c.2.2 (px.map fun k => (I.locs.map fun (x : Loc) => x.id).getD k .nan) row).getD .nan) = _
  rw [lookupBy_reindex I.times a pt F1 [] h1 hpt nt c.1]
  cases hp : lookupBy c.1 I.times a with
  | none => rfl
  | some plane =>
    obtain ⟨h3, h4⟩ := h2 plane (lookupBy_mem _ _ _ _ hp)
    simp only [Option.map_some]
    show (match lookupBy c.2.1 (pl.map fun j => I.leads.getD j .nan) (pl.map fun j => F2 (plane.getD j [])) with
      | none => XR.nan
      | some row => (lookupBy c.2.2 (px.map fun k => (I.locs.map fun (x : Loc) => x.id).getD k .nan) row).getD .nan) = _
    rw [lookupBy_reindex I.leads plane pl F2 [] h3 hpl nl c.2.1]
    cases hr : lookupBy c.2.1 I.leads plane with
    | none => rfl
    | some row =>
      have h5 := h4 row (lookupBy_mem _ _ _ _ hr)
      simp only [Option.map_some]
      show (lookupBy c.2.2 (px.map fun k => (I.locs.map fun (x : Loc) => x.id).getD k .nan)
        (px.map fun k => id (row.getD k .nan))).getD .nan = _
      rw [lookupBy_reindex (I.locs.map fun (x : Loc) => x.id) row px id .nan (by rw [h5, List.length_map])
        (by rw [List.length_map]; exact hpx) nx c.2.2]
      simp

/-- a re-indexed input carries the same data -/
theorem reindex_equiv (hw : wfInput I = true) : InputEquiv I (reindex I pt pl px) := by
  refine ⟨?_, ?_, ?_, ?_, ?_⟩
  · intro v
    have : (reindex I pt pl px).times.Perm I.times := by
      have := hpt.map fun i => I.times.getD i .nan
      rw [range_map_getD] at this
      exact this
    exact (this.mem_iff).symm
  · intro v
    have : (reindex I pt pl px).leads.Perm I.leads := by
      have := hpl.map fun i => I.leads.getD i .nan
      rw [range_map_getD] at this
      exact this
    exact (this.mem_iff).symm
  · intro l
    have : (reindex I pt pl px).locs.Perm I.locs := by
      have := hpx.map fun i => I.locs.getD i default
      rw [range_map_getD] at this
      exact this
    exact (this.mem_iff).symm
  · intro name
    unfold hasField
    rw [reindex_field]
    cases I.field? name <;> rfl
  · intro name c
    unfold ownValue
    rw [reindex_field]
    cases hf : I.field? name with
    | none => rfl
    | some a =>
      simp only [Option.map_some]
      exact (valueAt_reindex I pt pl px hpt hpl hpx hnd a (wf_field I name a hw hf) c).symm

end Reindex

/-! ## P. C02 for concrete reorderings -/

/-- `I'` lists the dimension entries of `I` in another order, with the data moved along -/
def Reordered (I I' : Input) : Prop :=
  ∃ pt pl px : List Nat, pt.Perm (List.range I.times.length) ∧ pl.Perm (List.range I.leads.length)
    ∧ px.Perm (List.range I.locs.length) ∧ I' = reindex I pt pl px

theorem Reordered.equiv {I I' : Input} (h : Reordered I I') (hnd : NoDupCoords I) (hw : wfInput I = true) :
    InputEquiv I I' ∧ wfInput I' = true := by
  obtain ⟨pt, pl, px, h1, h2, h3, rfl⟩ := h
  exact ⟨reindex_equiv I pt pl px h1 h2 h3 hnd hw, wfInput_reindex I pt pl px⟩

def OptReordered : Option Input → Option Input → Prop
  | some a, some b => Reordered a b
  | none, none => True
  | _, _ => False

theorem forall2_append {α : Type} {R : α → α → Prop} {a a' b b' : List α}
    (h1 : List.Forall₂ R a a') (h2 : List.Forall₂ R b b') : List.Forall₂ R (a ++ b) (a' ++ b') := by
  induction h1 with
  | nil => exact h2
  | cons h _ ih => exact List.Forall₂.cons h ih

theorem forall2_fwd {α : Type} {R : α → α → Prop} {l l' : List α} (h : List.Forall₂ R l l') :
    ∀ a ∈ l, ∃ b ∈ l', R a b := by
  induction h with
  | nil => intro a ha; cases ha
  | cons h _ ih =>
    intro a ha
    rcases List.mem_cons.1 ha with rfl | ha
    · exact ⟨_, List.mem_cons_self, h⟩
    · obtain ⟨b, hb, hr⟩ := ih a ha
      exact ⟨b, List.mem_cons_of_mem _ hb, hr⟩

theorem forall2_bwd {α : Type} {R : α → α → Prop} {l l' : List α} (h : List.Forall₂ R l l') :
    ∀ b ∈ l', ∃ a ∈ l, R a b := by
  induction h with
  | nil => intro a ha; cases ha
  | cons h _ ih =>
    intro b hb
    rcases List.mem_cons.1 hb with rfl | hb
    · exact ⟨_, List.mem_cons_self, h⟩
    · obtain ⟨a, ha, hr⟩ := ih b hb
      exact ⟨a, List.mem_cons_of_mem _ ha, hr⟩

theorem forall2_head {l l' : List Input} (h : List.Forall₂ InputEquiv l l') : OptEquiv l.head? l'.head? := by
  cases h with
  | nil => trivial
  | cons h _ => exact h

theorem forall2_find {l l' : List Input} (h : List.Forall₂ InputEquiv l l') (p : Input → Bool)
    (hp : ∀ a b, InputEquiv a b → p a = p b) : OptEquiv (l.find? p) (l'.find? p) := by
  induction h with
  | nil => trivial
  | cons h _ ih =>
    rename_i a b _ _ _
    simp only [List.find?_cons]
    rw [← hp a b h]
    cases p a with
    | true => exact h
    | false => exact ih

theorem forall2_getElem? {l l' : List Input} (h : List.Forall₂ InputEquiv l l') (i : Nat) :
    OptEquiv l[i]? l'[i]? := by
  induction h generalizing i with
  | nil => trivial
  | cons h _ ih =>
    cases i with
    | zero => exact h
    | succ i => simpa using ih i

theorem optEquiv_toList {a b : Option Input} (h : OptEquiv a b) : List.Forall₂ InputEquiv a.toList b.toList := by
  cases a <;> cases b
  · exact List.Forall₂.nil
  · exact h.elim
  · exact h.elim
  · exact List.Forall₂.cons h List.Forall₂.nil

/-- the same inputs in the same order, each possibly reordered inside -/
theorem datasetEquiv_same_order {scored scored' : List Input} {cfg : Cfg} {C' : Option Input}
    (hS : List.Forall₂ InputEquiv scored scored') (hC : OptEquiv cfg.clim C') :
    DatasetEquiv scored cfg scored' C' := by
  have hall : List.Forall₂ InputEquiv (allInputs scored cfg) (allInputs scored' { cfg with clim := C' }) :=
    forall2_append hS (optEquiv_toList hC)
  exact ⟨hC, forall2_head hall, forall2_fwd hall, forall2_bwd hall,
    forall2_find hall _ (fun a b h => h.hHas "obs")⟩

/-- the scored inputs other than the first in another order (the first stores the observations that
inputs without observations borrow) -/
theorem datasetEquiv_perm_tail {first first' : Input} {rest mid rest' : List Input} {cfg : Cfg}
    {C' : Option Input} (hf : InputEquiv first first') (hm : List.Forall₂ InputEquiv rest mid)
    (hp : mid.Perm rest') (hobs : hasField "obs" first = true) (hC : OptEquiv cfg.clim C') :
    DatasetEquiv (first :: rest) cfg (first' :: rest') C' := by
  have hobs' : hasField "obs" first' = true := by rw [← hf.hHas]; exact hobs
  refine ⟨hC, hf, ?_, ?_, ?_⟩
  · intro J hJ
    unfold allInputs at hJ ⊢
    rw [List.cons_append, List.mem_cons, List.mem_append] at hJ
    rcases hJ with rfl | hJ | hJ
    · exact ⟨first', by simp, hf⟩
    · obtain ⟨m, hmm, hr⟩ := forall2_fwd hm J hJ
      exact ⟨m, by simp [hp.mem_iff.1 hmm], hr⟩
    · obtain ⟨c, hc, hr⟩ := forall2_fwd (optEquiv_toList hC) J hJ
      exact ⟨c, by simp only [List.cons_append, List.mem_cons, List.mem_append]; exact Or.inr (Or.inr hc), hr⟩
  · intro J hJ
    unfold allInputs at hJ ⊢
    rw [List.cons_append, List.mem_cons, List.mem_append] at hJ
    rcases hJ with rfl | hJ | hJ
    · exact ⟨first, by simp, hf⟩
    · obtain ⟨m, hmm, hr⟩ := forall2_bwd hm J (hp.mem_iff.2 hJ)
      exact ⟨m, by simp [hmm], hr⟩
    · obtain ⟨c, hc, hr⟩ := forall2_bwd (optEquiv_toList hC) J hJ
      exact ⟨c, by simp only [List.cons_append, List.mem_cons, List.mem_append]; exact Or.inr (Or.inr hc), hr⟩
  · unfold allInputs
    simp only [List.cons_append, List.find?_cons, hobs, hobs']
    exact hf

theorem forall2_reordered {l l' : List Input} (h : List.Forall₂ Reordered l l')
    (hnd : ∀ I ∈ l, NoDupCoords I) (hw : l.all wfInput = true) :
    List.Forall₂ InputEquiv l l' ∧ l'.all wfInput = true := by
  induction h with
  | nil => exact ⟨List.Forall₂.nil, rfl⟩
  | cons h _ ih =>
    rename_i a b l l' _
    rw [List.all_cons, Bool.and_eq_true] at hw
    obtain ⟨e, w⟩ := h.equiv (hnd a (by simp)) hw.1
    obtain ⟨e', w'⟩ := ih (fun I hI => hnd I (List.mem_cons_of_mem _ hI)) hw.2
    exact ⟨List.Forall₂.cons e e', by rw [List.all_cons, w, w']; rfl⟩

/-- **C02, concretely.**  Give every input (and the climatology) its dimension entries in any other order,
with the data moved along: when no input repeats a coordinate value, `Data` verifies the same dimensions
and every request returns the same answer. -/
theorem C02_reordered_inputs (scored scored' : List Input) (cfg : Cfg) (C' : Option Input) (D : DataS)
    (h : Data.init scored cfg = .ok D)
    (hw : (allInputs scored cfg).all wfInput = true)
    (hnd : ∀ I ∈ allInputs scored cfg, NoDupCoords I)
    (hS : List.Forall₂ Reordered scored scored') (hC : OptReordered cfg.clim C') :
    ∃ D', Data.init scored' { cfg with clim := C' } = .ok D'
      ∧ D'.times = D.times ∧ D'.leads = D.leads ∧ D'.locs.map (·.id) = D.locs.map (·.id)
      ∧ ∀ r : Req, D'.getScores r = D.getScores r := by
  have hCl : List.Forall₂ Reordered cfg.clim.toList C'.toList := by
    cases h1 : cfg.clim <;> cases h2 : C' <;> rw [h1, h2] at hC
    · exact List.Forall₂.nil
    · exact hC.elim
    · exact hC.elim
    · exact List.Forall₂.cons hC List.Forall₂.nil
  have hall : List.Forall₂ Reordered (allInputs scored cfg) (allInputs scored' { cfg with clim := C' }) :=
    forall2_append hS hCl
  obtain ⟨_, hw'⟩ := forall2_reordered hall hnd hw
  have hwS : scored.all wfInput = true := by
    unfold allInputs at hw; rw [List.all_append, Bool.and_eq_true] at hw; exact hw.1
  obtain ⟨eS, _⟩ := forall2_reordered hS
    (fun I hI => hnd I (by unfold allInputs; exact List.mem_append_left _ hI)) hwS
  have eC : OptEquiv cfg.clim C' := by
    cases h1 : cfg.clim with
    | none => cases h2 : C' with
      | none => trivial
      | some b => rw [h1, h2] at hC; exact hC.elim
    | some a => cases h2 : C' with
      | none => rw [h1, h2] at hC; exact hC.elim
      | some b =>
        rw [h1, h2] at hC
        have ha : a ∈ allInputs scored cfg := by unfold allInputs; rw [h1]; simp
        exact (hC.equiv (hnd a ha) ((List.all_eq_true.1 hw) a ha)).1
  obtain ⟨D', h', e1, e2, e3, hreq⟩ :=
    C02_order_irrelevant scored scored' cfg C' D h hw hw' (datasetEquiv_same_order eS eC)
  exact ⟨D', h', e1, e2, e3, fun r => hreq r r rfl rfl (forall2_getElem? eS r.input)⟩

theorem forall2_refl (l : List Input) : List.Forall₂ InputEquiv l l := by
  induction l with
  | nil => exact List.Forall₂.nil
  | cons a l ih => exact List.Forall₂.cons (InputEquiv.refl a) ih

theorem optEquiv_refl (a : Option Input) : OptEquiv a a := by
  cases a with
  | none => trivial
  | some a => exact InputEquiv.refl a

/-- **C02, file order.**  Giving the scored inputs other than the first in another order changes no
answer (the first input supplies the location metadata and, here, the borrowed observations). -/
theorem C02_permuted_inputs (first : Input) (rest rest' : List Input) (cfg : Cfg) (D : DataS)
    (h : Data.init (first :: rest) cfg = .ok D)
    (hw : (allInputs (first :: rest) cfg).all wfInput = true)
    (hp : rest.Perm rest') (hobs : hasField "obs" first = true) :
    ∃ D', Data.init (first :: rest') cfg = .ok D'
      ∧ D'.times = D.times ∧ D'.leads = D.leads ∧ D'.locs.map (·.id) = D.locs.map (·.id)
      ∧ ∀ r r' : Req, r'.fields = r.fields → r'.sel = r.sel →
          (first :: rest')[r'.input]? = (first :: rest)[r.input]? →
          D'.getScores r' = D.getScores r := by
  have E : DatasetEquiv (first :: rest) cfg (first :: rest') cfg.clim :=
    datasetEquiv_perm_tail (InputEquiv.refl first) (forall2_refl rest) hp hobs (optEquiv_refl _)
  have hw' : (allInputs (first :: rest') { cfg with clim := cfg.clim }).all wfInput = true := by
    have hperm : (allInputs (first :: rest) cfg).Perm (allInputs (first :: rest') { cfg with clim := cfg.clim }) := by
      unfold allInputs
      exact ((hp.cons first).append_right _)
    rw [List.all_eq_true] at hw ⊢
    intro x hx
    exact hw x (hperm.mem_iff.2 hx)
  obtain ⟨D', h', e1, e2, e3, hreq⟩ :=
    C02_order_irrelevant (first :: rest) (first :: rest') cfg cfg.clim D h hw hw' E
  refine ⟨D', h', e1, e2, e3, ?_⟩
  intro r r' hf hs hi
  apply hreq r r' hf hs
  rw [hi]
  exact optEquiv_refl _

namespace Example

/-- input A with every dimension listed backwards -/
def exA' : Input := reindex exA [1, 0] [1, 0] [1, 0]

example : Reordered exA exA' := ⟨[1, 0], [1, 0], [1, 0], by decide, by decide, by decide, rfl⟩

example : NoDupCoords exA ∧ NoDupCoords exB := by constructor <;> decide +kernel

/-- the reordered dataset gets the same answer (here evaluated; in general by `C02_reordered_inputs`) -/
example : exA'.times = [86400, 0] ∧ specScores [exA', exB] exCfg exReq = specScores [exA, exB] exCfg exReq := by
  constructor <;> decide +kernel

end Example

end VerifModel.DataRefine
