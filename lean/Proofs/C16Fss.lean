import VerifModel.Model.DiagramFss
import VerifModel.Spec.DiagramFss
import Proofs.C16
import Mathlib.Tactic.Ring
import Mathlib.Tactic.Linarith
import Mathlib.Tactic.FieldSimp
import Mathlib.Tactic.Positivity
/-
  C16, the distance diagrams — Fss, AutoCorr, AutoCov draw the quantities their definitions prescribe.
  Model = VerifModel/Model/DiagramFss.lean, Spec = VerifModel/Spec/DiagramFss.lean.
-/
namespace VerifModel.C16
open VerifModel XR
open VerifModel.Diagram VerifModel.DiagramFss
open VerifModel.Spec
open VerifModel.Spec.Diagram (StrictInc lastOf)
set_option linter.unusedSimpArgs false
set_option linter.unusedVariables false

/-! ## Fss -/

/-- The last step of Fss: what the code draws is the Brier skill score of the fractions against o(1-o) (the class text),
for every base rate o in [0, 1]. -/
theorem C16_fss_skill_eq_bss (bs o : Rat) (h0 : 0 ≤ o) (h1 : o ≤ 1) : skill bs o = Fss.bss bs o := by
  unfold skill Fss.bss
  have hu : 0 ≤ o * (1 - o) := mul_nonneg h0 (by linarith)
  by_cases hz : o * (1 - o) = 0
  · simp [hz]
  · have hp : 0 < o * (1 - o) := lt_of_le_of_ne hu (Ne.symm hz)
    simp only [hp, hz, if_true, if_false]
    congr 1
    rw [sub_div, div_self hz]

example : skill (1/8) (1/2) = some (1/2) ∧ Fss.bss (1/8) (1/2) = some (1/2) := by decide +kernel

/-- the drawn score never exceeds 1 … -/
theorem C16_fss_le_one (bs o y : Rat) (hb : 0 ≤ bs) (h : skill bs o = some y) : y ≤ 1 := by
  unfold skill at h
  split_ifs at h with hp
  have := Option.some.inj h
  rw [← this, div_le_one hp]
  linarith

private theorem sumQ_zero (l : List Rat) (h : ∀ x ∈ l, x = 0) : sumQ l = 0 := by
  induction l with
  | nil => rfl
  | cons a t ih =>
    have ha := h a (by simp)
    have := ih (fun x hx => h x (by simp [hx]))
    simp only [sumQ, List.foldr_cons] at this ⊢
    rw [ha, this]; ring

/-- … and a perfect forecast (forecast fraction = observed fraction in every neighbourhood and case) scores exactly 1
wherever the score is defined. -/
theorem C16_fss_perfect (ps : List (Rat × Rat)) (hperf : ∀ p ∈ ps, p.2 = p.1) (y : Rat)
    (h : skill (mse ps) (meanObs ps) = some y) : y = 1 := by
  have hm : mse ps = 0 := by
    unfold mse meanQ
    rw [sumQ_zero]; · simp
    intro x hx
    simp only [List.mem_map] at hx
    obtain ⟨p, hp, rfl⟩ := hx
    rw [hperf p hp]; ring
  rw [hm] at h
  unfold skill at h
  split_ifs at h with hp
  have := Option.some.inj h
  rw [← this, sub_zero, div_self (ne_of_gt hp)]

example : skill (mse [(1/2, 1/2), (0, 0)]) (meanObs [(1/2, 1/2), (0, 0)]) = some 1 := by decide +kernel

private theorem sum_sq_le (ps : List (Rat × Rat)) (h : ∀ p ∈ ps, 0 ≤ p.1 ∧ 0 ≤ p.2) :
    0 ≤ Fss.sum (ps.map fun p => (p.2 - p.1) * (p.2 - p.1)) ∧
    Fss.sum (ps.map fun p => (p.2 - p.1) * (p.2 - p.1)) ≤
      Fss.sum (ps.map fun p => p.2 * p.2) + Fss.sum (ps.map fun p => p.1 * p.1) := by
  induction ps with
  | nil => simp [Fss.sum]
  | cons a t ih =>
    have ha := h a (by simp)
    have := ih (fun x hx => h x (by simp [hx]))
    simp only [Fss.sum, List.map_cons, List.foldr_cons] at this ⊢
    have h1 : 0 ≤ (a.2 - a.1) * (a.2 - a.1) := mul_self_nonneg _
    have h2 : 0 ≤ a.1 * a.2 := mul_nonneg ha.1 ha.2
    constructor
    · linarith [this.1]
    · nlinarith [this.2]

/-- The published score (Roberts & Lean 2008) lies in [0, 1] for fractions ≥ 0. -/
theorem C16_fss_roberts_lean_bounds (ps : List (Rat × Rat)) (h : ∀ p ∈ ps, 0 ≤ p.1 ∧ 0 ≤ p.2) (y : Rat)
    (hy : Fss.fssRL ps = some y) : 0 ≤ y ∧ y ≤ 1 := by
  unfold Fss.fssRL at hy
  simp only at hy
  split_ifs at hy with hz
  have hy := Option.some.inj hy
  obtain ⟨h0, hle⟩ := sum_sq_le ps h
  have hpos : 0 < Fss.sum (ps.map fun p => p.2 * p.2) + Fss.sum (ps.map fun p => p.1 * p.1) :=
    lt_of_le_of_ne (le_trans h0 hle) (Ne.symm hz)
  rw [← hy]
  constructor
  · rw [sub_nonneg, div_le_one hpos]; exact hle
  · have := div_nonneg h0 (le_of_lt hpos); linarith

example : Fss.fssRL [(1/2, 1/4), (1, 1)] = some (36/37) := by decide +kernel

/- FULL STATEMENT (not true of the code, see MERGE_NOTES / finding): for every list of fraction pairs
     skill (mse ps) (meanObs ps) = Fss.fssRL ps    and    0 ≤ drawn score.
   The class computes a Brier skill score against o(1-o) (C16_fss_skill_eq_bss), not the Roberts-Lean ratio.  Proved
   instead: the two agree on a perfect forecast (both 1: C16_fss_perfect, C16_fss_roberts_lean_perfect), and the machine
   checked witness below on which they differ and the drawn value is negative. -/
theorem C16_fss_roberts_lean_partial :
    skill (mse [(1/2, 0), (1/2, 1)]) (meanObs [(1/2, 0), (1/2, 1)]) = some 0 ∧
    Fss.fssRL [(1/2, 0), (1/2, 1)] = some (2/3) ∧
    skill (mse [(1/4, 1), (3/4, 0)]) (meanObs [(1/4, 1), (3/4, 0)]) = some (-5/4) ∧
    Fss.fssRL [(1/4, 1), (3/4, 0)] = some (4/13) := by decide +kernel

theorem C16_fss_roberts_lean_perfect (ps : List (Rat × Rat)) (hperf : ∀ p ∈ ps, p.2 = p.1) (y : Rat)
    (h : Fss.fssRL ps = some y) : y = 1 := by
  unfold Fss.fssRL at h
  simp only at h
  split_ifs at h with hz
  have h := Option.some.inj h
  have hm : Fss.sum (ps.map fun p => (p.2 - p.1) * (p.2 - p.1)) = 0 := by
    have : ∀ l : List Rat, (∀ x ∈ l, x = 0) → Fss.sum l = 0 := sumQ_zero
    apply this
    intro x hx
    simp only [List.mem_map] at hx
    obtain ⟨p, hp, rfl⟩ := hx
    rw [hperf p hp]; ring
  rw [← h, hm]; simp

/-! ## Auto -/

/-- Every pair of the cloud whose distance lies in [first edge, last edge] is in exactly one distance bin of the
quantile lines (the bins `quantileLine` uses: verif.util.bin, last bin closed) … -/
theorem C16_auto_bins_partition (a b : Rat) (rest : List Rat) (h : StrictInc (a :: b :: rest))
    (x y : Vec) (c : XR × XR) (hc : c ∈ x.zip y) (d : Rat) (hd : c.1 = fin d) (hlo : a ≤ d) (hhi : d ≤ lastOf b rest) :
    ((binsLast ((a :: b :: rest).map fin) (·.1) (x.zip y)).filter fun bn => decide (c ∈ bn)).length = 1 :=
  C16_bins_partition_last (·.1) a b rest h (x.zip y) c hc d hd hlo hhi

/-- … and the pairs the lines drop are exactly those with a distance outside [first edge, last edge]. -/
theorem C16_auto_bins_outside (a b : Rat) (rest : List Rat) (h : StrictInc (a :: b :: rest))
    (x y : Vec) (c : XR × XR) (hc : c ∈ x.zip y) (d : Rat) (hd : c.1 = fin d) (hout : d < a ∨ lastOf b rest < d) :
    ((binsLast ((a :: b :: rest).map fin) (·.1) (x.zip y)).filter fun bn => decide (c ∈ bn)).length = 0 :=
  C16_bins_last_outside (·.1) a b rest h (x.zip y) c hc d hd hout

example : StrictInc ((0 : Rat) :: 1 :: [3]) := by
  refine ⟨by decide +kernel, by decide +kernel, trivial⟩

private theorem common_swap (a b : List (Option Rat)) : common b a = (common a b).map Prod.swap := by
  induction a generalizing b with
  | nil => cases b <;> simp [common]
  | cons x xs ih =>
    cases b with
    | nil => simp [common]
    | cons z zs =>
      have := ih zs
      unfold common at this ⊢
      simp only [List.zip_cons_cons, List.filterMap_cons]
      cases x <;> cases z <;> simp [this]

private theorem covQ_swap (P : List (Rat × Rat)) : covQ (P.map Prod.swap) = covQ P := by
  unfold covQ
  simp only [List.map_map, List.length_map, Function.comp_def, Prod.fst_swap, Prod.snd_swap]
  congr 2
  apply List.map_congr_left
  intro p _; ring

/-- the auto-covariance of a pair does not depend on the order of the two points -/
theorem C16_autocov_symm (a b : List (Option Rat)) : pairCov a b = pairCov b a := by
  unfold pairCov
  rw [common_swap a b]
  simp only [List.length_map, covQ_swap]

example : pairCov [some 1, none, some 2, some 4] [some 0, some 5, some 2, some 1] = fin (1/2) := by decide +kernel

/-! ## Fss, whole functions -/

private theorem sumQ_cons (a : Rat) (t : List Rat) : sumQ (a :: t) = a + sumQ t := rfl

private theorem sumQ_range (l : List Rat) (h : ∀ x ∈ l, 0 ≤ x ∧ x ≤ 1) : 0 ≤ sumQ l ∧ sumQ l ≤ (l.length : Rat) := by
  induction l with
  | nil => simp [sumQ]
  | cons a t ih =>
    have ha := h a (by simp)
    have := ih (fun x hx => h x (by simp [hx]))
    rw [sumQ_cons]
    simp only [List.length_cons, Nat.cast_add, Nat.cast_one]
    constructor <;> linarith [this.1, this.2, ha.1, ha.2]

private theorem meanQ_range (l : List Rat) (hne : l ≠ []) (h : ∀ x ∈ l, 0 ≤ x ∧ x ≤ 1) :
    0 ≤ meanQ l ∧ meanQ l ≤ 1 := by
  have hr := sumQ_range l h
  have hpos : (0 : Rat) < (l.length : Rat) := by
    have : 0 < l.length := List.length_pos_iff.mpr hne
    exact_mod_cast this
  unfold meanQ
  exact ⟨div_nonneg hr.1 (le_of_lt hpos), (div_le_one hpos).mpr hr.2⟩

private theorem b2q_range (b : Bool) : 0 ≤ b2q b ∧ b2q b ≤ 1 := by
  cases b <;> simp [b2q]

/-- the fractions are fractions: both lie in [0, 1] -/
theorem C16_fss_fracs_range (m : List (Bool × Bool)) (p : Rat × Rat) (h : fracs m = some p) :
    (0 ≤ p.1 ∧ p.1 ≤ 1) ∧ (0 ≤ p.2 ∧ p.2 ≤ 1) := by
  unfold fracs at h
  split_ifs at h with he
  have hp := Option.some.inj h
  have hne : m ≠ [] := by intro h0; simp [h0] at he
  rw [← hp]
  constructor
  · apply meanQ_range
    · simpa using hne
    · intro x hx
      simp only [List.mem_map] at hx
      obtain ⟨c, _, rfl⟩ := hx
      exact b2q_range _
  · apply meanQ_range
    · simpa using hne
    · intro x hx
      simp only [List.mem_map] at hx
      obtain ⟨c, _, rfl⟩ := hx
      exact b2q_range _

private theorem nbFracs_range (rows : List (List Cell)) (I : List Nat) (p : Rat × Rat) (hp : p ∈ nbFracs rows I) :
    0 ≤ p.1 ∧ p.1 ≤ 1 := by
  unfold nbFracs at hp
  simp only [List.mem_filterMap] at hp
  obtain ⟨r, _, hr⟩ := hp
  exact (C16_fss_fracs_range _ p hr).1

private theorem meanObs_range (ps : List (Rat × Rat)) (hne : ps ≠ []) (h : ∀ p ∈ ps, 0 ≤ p.1 ∧ p.1 ≤ 1) :
    0 ≤ meanObs ps ∧ meanObs ps ≤ 1 := by
  unfold meanObs
  apply meanQ_range
  · simpa using hne
  · intro x hx
    simp only [List.mem_map] at hx
    obtain ⟨p, hp, rfl⟩ := hx
    exact h p hp

/-- Spatial branch, for ALL inputs: the drawn value at a scale is the Brier skill score (class text) of
BS = mean over the counting neighbourhoods of their mean squared fraction difference against the base rate
o = mean of their mean observed fractions; NaN exactly when no neighbourhood counts or o(1-o) = 0. -/
theorem C16_fss_spatial_eq_bss (minNum : Nat) (dist : List (List Rat)) (rows : List (List Cell)) (scale : Rat) :
    spatialScore minNum dist rows scale =
      if (spatialParts minNum dist rows scale).isEmpty then none
      else Fss.bss (meanQ ((spatialParts minNum dist rows scale).map (·.1)))
                   (meanQ ((spatialParts minNum dist rows scale).map (·.2))) := by
  unfold spatialScore
  simp only
  split_ifs with he
  · rfl
  · have hne : (spatialParts minNum dist rows scale).map (·.2) ≠ [] := by
      intro h0; apply he; simpa using h0
    have hr := meanQ_range _ hne (by
      intro x hx
      simp only [List.mem_map] at hx
      obtain ⟨q, hq, rfl⟩ := hx
      unfold spatialParts at hq
      simp only [List.mem_filterMap] at hq
      obtain ⟨drow, _, hd⟩ := hq
      split_ifs at hd with h1 h2
      have := Option.some.inj hd
      rw [← this]
      apply meanObs_range
      · intro h0; apply h2; simp [h0]
      · intro p hp; exact nbFracs_range rows _ p hp)
    exact C16_fss_skill_eq_bss _ _ hr.1 hr.2

/-- Temporal branch, for ALL inputs: scale 0 and a scale without fractions draw NaN, otherwise the Brier skill score of
the pooled fractions of all windows of that length. -/
theorem C16_fss_temporal_eq_bss (leads : List Rat) (rows : List (List Cell)) (scale : Rat) :
    temporalScore leads rows scale =
      if scale = 0 then none
      else if (temporalFracs leads rows scale).isEmpty then none
      else Fss.bss (mse (temporalFracs leads rows scale)) (meanObs (temporalFracs leads rows scale)) := by
  unfold temporalScore
  simp only
  split_ifs with h0 he
  · rfl
  · rfl
  · have hne : temporalFracs leads rows scale ≠ [] := by intro h; apply he; simp [h]
    have hr := meanObs_range _ hne (by
      intro p hp
      unfold temporalFracs at hp
      simp only [List.mem_flatMap] at hp
      obtain ⟨w, _, hw⟩ := hp
      exact nbFracs_range rows _ p hw)
    exact C16_fss_skill_eq_bss _ _ hr.1 hr.2

/-! ## Auto: covariance = definition, Cauchy–Schwarz -/

private theorem sumQ_cons' (a : Rat) (t : List Rat) : sumQ (a :: t) = a + sumQ t := rfl

private theorem sum_centred (P : List (Rat × Rat)) (a b : Rat) :
    sumQ (P.map fun p => (p.1 - a) * (p.2 - b)) =
      sumQ (P.map fun p => p.1 * p.2) - a * sumQ (P.map (·.2)) - b * sumQ (P.map (·.1)) + (P.length : Rat) * a * b := by
  induction P with
  | nil => simp [sumQ]
  | cons p t ih =>
    simp only [List.map_cons, sumQ_cons', ih, List.length_cons, Nat.cast_add, Nat.cast_one]
    ring

private theorem fss_sum_eq (l : List Rat) : Fss.sum l = sumQ l := rfl

/-- the covariance the code computes (np.cov: centred products over n-1) is the sample covariance of the definition
(computational form), for every list of at least two pairs -/
theorem C16_autocov_eq_spec (P : List (Rat × Rat)) (h : 2 ≤ P.length) : Fss.cov P = some (covQ P) := by
  unfold Fss.cov covQ
  have hn : ¬ P.length < 2 := by omega
  simp only [hn, if_false, fss_sum_eq]
  congr 2
  rw [sum_centred]
  have hpos : (P.length : Rat) ≠ 0 := by
    have : 0 < P.length := by omega
    exact_mod_cast (ne_of_gt this)
  unfold meanQ
  simp only [List.length_map]
  field_simp
  ring

/-- … and so is the drawn pair statistic of -m autocov: the covariance of the two error series over the cases present in
both, NaN below two common cases. -/
theorem C16_autocov_pair_eq_spec (a b : List (Option Rat)) :
    pairCov a b = match Fss.cov (common a b) with
                  | some c => fin c
                  | none => nan := by
  unfold pairCov
  simp only
  split_ifs with h
  · simp [Fss.cov, h]
  · rw [C16_autocov_eq_spec _ (by omega)]

private theorem cs_key' (a b A B C : Rat) (hA : 0 ≤ A) (hB : 0 ≤ B) (h : C ^ 2 ≤ A * B) :
    2 * a * b * C ≤ a ^ 2 * B + b ^ 2 * A := by
  have hu : 0 ≤ a ^ 2 * B + b ^ 2 * A := by positivity
  have h2 : (2 * a * b * C) ^ 2 ≤ (a ^ 2 * B + b ^ 2 * A) ^ 2 := by
    nlinarith [mul_le_mul_of_nonneg_left h (by positivity : (0 : Rat) ≤ 4 * a ^ 2 * b ^ 2),
      sq_nonneg (a ^ 2 * B - b ^ 2 * A)]
  exact (abs_le_of_sq_le_sq' h2 hu).2

private theorem sumQ_sq_nonneg (P : List (Rat × Rat)) (f : Rat × Rat → Rat) : 0 ≤ sumQ (P.map fun p => f p * f p) := by
  induction P with
  | nil => simp [sumQ]
  | cons p t ih => simp only [List.map_cons, sumQ_cons']; nlinarith [mul_self_nonneg (f p)]

private theorem cs_pairs (P : List (Rat × Rat)) (f g : Rat × Rat → Rat) :
    sumQ (P.map fun p => f p * g p) ^ 2 ≤ sumQ (P.map fun p => f p * f p) * sumQ (P.map fun p => g p * g p) := by
  induction P with
  | nil => simp [sumQ]
  | cons p t ih =>
    have hA := sumQ_sq_nonneg t f
    have hB := sumQ_sq_nonneg t g
    have hk := cs_key' (f p) (g p) _ _ _ hA hB ih
    simp only [List.map_cons, sumQ_cons']
    nlinarith [hk, ih]

/-- Cauchy–Schwarz for the drawn statistics: cov(x,y)² ≤ var(x) var(y), i.e. the quotient np.corrcoef forms has modulus
at most 1 BEFORE its clipping wherever the two roots are exact. -/
theorem C16_autocorr_sq_le (P : List (Rat × Rat)) (h : 2 ≤ P.length) :
    covQ P ^ 2 ≤ covQ (P.map fun p => (p.1, p.1)) * covQ (P.map fun p => (p.2, p.2)) := by
  unfold covQ
  simp only [List.map_map, Function.comp_def, List.length_map]
  have hpos : (0 : Rat) < (P.length : Rat) - 1 := by
    have : (2 : Rat) ≤ (P.length : Rat) := by exact_mod_cast h
    linarith
  have hcs := cs_pairs P (fun p => p.1 - meanQ (P.map (·.1))) (fun p => p.2 - meanQ (P.map (·.2)))
  rw [div_pow, div_mul_div_comm, ← sq]
  exact div_le_div_of_nonneg_right hcs (by positivity)

private theorem clip1_range (z : XR) (r : Rat) (h : clip1 z = fin r) : -1 ≤ r ∧ r ≤ 1 := by
  cases z with
  | nan => simp [clip1, XR.min, XR.max, XR.lt] at h
  | pinf =>
    have h0 : clip1 pinf = fin 1 := by decide +kernel
    rw [h0] at h; injection h with h; constructor <;> linarith
  | ninf =>
    have h0 : clip1 ninf = fin (-1) := by decide +kernel
    rw [h0] at h; injection h with h; constructor <;> linarith
  | fin q =>
    by_cases h1 : q < -1
    · have h0 : clip1 (fin q) = fin (-1) := by
        have : ¬ ((1 : Rat) < -1) := by norm_num
        simp [clip1, XR.min, XR.max, XR.lt, h1, this]
      rw [h0] at h; injection h with h; constructor <;> linarith
    · by_cases h2 : 1 < q
      · have h0 : clip1 (fin q) = fin 1 := by simp [clip1, XR.min, XR.max, XR.lt, h1, h2]
        rw [h0] at h; injection h with h; constructor <;> linarith
      · have h0 : clip1 (fin q) = fin q := by simp [clip1, XR.min, XR.max, XR.lt, h1, h2]
        rw [h0] at h; injection h with h; constructor <;> linarith

/-- the value -m autocorr draws is in [-1, 1] whenever it is a number (np.corrcoef clips; see C16_autocorr_sq_le for the
unclipped quotient) -/
theorem C16_autocorr_range (T : Tr) (a b : List (Option Rat)) (r : Rat) (h : pairCorr T a b = fin r) :
    -1 ≤ r ∧ r ≤ 1 := by
  unfold pairCorr at h
  simp only at h
  split_ifs at h with hn
  exact clip1_range _ r h

example : pairCorr { sqrtQ := fun q => if q = 4 then 2 else if q = 1 then 1 else q, logQ := id, expQ := id, cbrtQ := id }
    [some 0, some 2, some 4] [some 1, some 2, some 3] = fin 1 := by decide +kernel

/-! ## Fss: neighbourhoods and windows -/

/-- the neighbourhood of a location at a scale is exactly the set of locations closer than the scale (km -> m, strict) -/
theorem C16_fss_neighbourhood_mem (drow : List Rat) (scale : Rat) (j : Nat) :
    j ∈ neighbourhood drow scale ↔ ∃ d, drow[j]? = some d ∧ d < scale * 1000 := by
  unfold neighbourhood
  simp only [List.mem_filterMap]
  constructor
  · rintro ⟨p, hp, hlt⟩
    split_ifs at hlt with h
    have hj : p.1 = j := Option.some.inj hlt
    obtain ⟨i, d⟩ := p
    simp only at hj h; subst hj
    have := List.of_mem_zip hp
    refine ⟨d, ?_, h⟩
    rw [List.mem_iff_getElem?] at hp
    obtain ⟨k, hk⟩ := hp
    rw [List.getElem?_zip_eq_some] at hk
    obtain ⟨h1, h2⟩ := hk
    rw [List.getElem?_range] at h1
    · have : k = i := Option.some.inj h1
      subst this; exact h2
    · by_contra hcon
      rw [List.getElem?_eq_none (by simpa using hcon)] at h1
      cases h1
  · rintro ⟨d, hd, hlt⟩
    refine ⟨(j, d), ?_, by simp [hlt]⟩
    rw [List.mem_iff_getElem?]
    refine ⟨j, ?_⟩
    rw [List.getElem?_zip_eq_some]
    have hjl : j < drow.length := by
      by_contra hcon
      rw [List.getElem?_eq_none (by omega)] at hd
      cases hd
    exact ⟨by rw [List.getElem?_range hjl], hd⟩

/-- neighbourhoods grow with the scale -/
theorem C16_fss_neighbourhood_mono (drow : List Rat) (s s' : Rat) (h : s ≤ s') (j : Nat)
    (hj : j ∈ neighbourhood drow s) : j ∈ neighbourhood drow s' := by
  rw [C16_fss_neighbourhood_mem] at hj ⊢
  obtain ⟨d, hd, hlt⟩ := hj
  exact ⟨d, hd, by linarith⟩

example : neighbourhood [0, 1500, 2500, 7000] 2 = [0, 1] ∧ neighbourhood [0, 1500, 2500, 7000] 4 = [0, 1, 2] := by
  decide +kernel

private theorem mem_zip_range (l : List Rat) (i : Nat) (d : Rat) :
    (i, d) ∈ (List.range l.length).zip l ↔ l[i]? = some d := by
  rw [List.mem_iff_getElem?]
  constructor
  · rintro ⟨k, hk⟩
    rw [List.getElem?_zip_eq_some] at hk
    obtain ⟨h1, h2⟩ := hk
    have hkl : k < l.length := by
      by_contra hcon
      rw [List.getElem?_eq_none (by omega)] at h2
      cases h2
    rw [List.getElem?_range hkl] at h1
    have : k = i := Option.some.inj h1
    subst this; exact h2
  · intro hd
    have hil : i < l.length := by
      by_contra hcon
      rw [List.getElem?_eq_none (by omega)] at hd
      cases hd
    exact ⟨i, by rw [List.getElem?_zip_eq_some]; exact ⟨by rw [List.getElem?_range hil], hd⟩⟩

/-- Temporal branch: the windows of a scale are exactly the ordered pairs (i, j) of lead times with lt_j - lt_i = scale;
so every pair of lead times belongs to the windows of exactly one scale, its own difference. -/
theorem C16_fss_windows_mem (leads : List Rat) (scale : Rat) (i j : Nat) :
    (i, j) ∈ windows leads scale ↔ ∃ a b, leads[i]? = some a ∧ leads[j]? = some b ∧ b - a = scale := by
  unfold windows
  simp only [List.mem_flatMap, List.mem_filterMap]
  constructor
  · rintro ⟨⟨i', a⟩, ha, ⟨j', b⟩, hb, hw⟩
    simp only at hw
    split_ifs at hw with h
    have hh := Option.some.inj hw
    simp only [Prod.mk.injEq] at hh
    obtain ⟨rfl, rfl⟩ := hh
    exact ⟨a, b, (mem_zip_range _ _ _).mp ha, (mem_zip_range _ _ _).mp hb, h⟩
  · rintro ⟨a, b, ha, hb, h⟩
    exact ⟨(i, a), (mem_zip_range _ _ _).mpr ha, (j, b), (mem_zip_range _ _ _).mpr hb, by simp [h]⟩

theorem C16_fss_windows_unique (leads : List Rat) (s s' : Rat) (i j : Nat)
    (h : (i, j) ∈ windows leads s) (h' : (i, j) ∈ windows leads s') : s = s' := by
  rw [C16_fss_windows_mem] at h h'
  obtain ⟨a, b, ha, hb, hs⟩ := h
  obtain ⟨a', b', ha', hb', hs'⟩ := h'
  rw [ha] at ha'; rw [hb] at hb'
  cases ha'; cases hb'
  rw [← hs, ← hs']

example : windows [0, 6, 12, 24] 12 = [(0, 2), (2, 3)] ∧ windowIdx (0, 2) = [0, 1, 2] ∧
    temporalScales [0, 6, 12, 24] = [0, 6, 12, 18, 24] := by decide +kernel

/-- Auto draws, per input, the cloud alone under -simple, otherwise the cloud, one line per quantile level and the zero
point; the cloud is labelled with the input's name and carries the distances of all ordered pairs. -/
theorem C16_auto_lines (T : Tr) (corr simple : Bool) (dist : List (List XR)) (S : List (List (Option Rat)))
    (edges : List XR) (qs : List Rat) (label : String) :
    (autoLines T corr simple dist S edges qs label).length = (if simple then 1 else qs.length + 2) ∧
    (autoLines T corr simple dist S edges qs label).head?.map (fun s => (s.label, s.xs)) = some (label, dist.flatten) := by
  unfold autoLines
  cases simple <;> simp

end VerifModel.C16
