import Proofs.DataRefine
/-
  Field kinds and `-obs FIELD` / `-fcst FIELD` (C01, C02, C03, C04, C14, C18).
-/
namespace VerifModel.DataFields
open VerifModel XR Spec.DataCoord DataRefine

/-! ## A. the resolved input -/

theorem lookup_filter_key {α : Type} (l : List (String × α)) (p : String → Bool) (name : String) (h : p name = true) :
    (l.filter fun f => p f.1).lookup name = l.lookup name := by
  induction l with
  | nil => rfl
  | cons a l ih =>
    obtain ⟨k, v⟩ := a
    cases hk : (name == k) with
    | true =>
      have : k = name := (eq_of_beq hk).symm
      subst this
      simp [h]
    | false =>
      cases hp : p k with
      | true => simp [hp, List.lookup_cons, hk, ih]
      | false => simp [hp, List.lookup_cons, hk, ih]

theorem lookup_opt {α : Type} (o : Option α) (k name : String) (l : List (String × α)) :
    List.lookup name ((o.map fun a => (k, a)).toList ++ l)
      = if name = k then o.orElse (fun _ => l.lookup name) else l.lookup name := by
  cases o with
  | none => by_cases h : name = k <;> simp [h]
  | some a =>
    by_cases h : name = k
    · simp [List.lookup_cons, h]
    · have : (name == k) = false := by simp [h]
      simp [List.lookup_cons, h, this]

theorem storedName_obs (cfg : Cfg) : cfg.storedName "obs" = cfg.obsField := by
  unfold Cfg.storedName; simp

theorem storedName_fcst (cfg : Cfg) : cfg.storedName "fcst" = cfg.fcstField := by
  unfold Cfg.storedName; simp

theorem storedName_other (cfg : Cfg) (name : String) (h1 : name ≠ "obs") (h2 : name ≠ "fcst") :
    cfg.storedName name = name := by
  unfold Cfg.storedName; simp [h1, h2]

/-- looking a name up in the resolved input = looking the stored name up in the input
(nothing for "obs" when the `-obs` field cannot stand in for an observation) -/
theorem resolved_field? (cfg : Cfg) (I : Input) (name : String) :
    (I.resolved cfg).field? name
      = if name = "obs" ∧ cfg.obsFieldOK = false then none else I.field? (cfg.storedName name) := by
  unfold Input.resolved
  by_cases hd : cfg.obsField = "obs" ∧ cfg.fcstField = "fcst"
  · have : (cfg.obsField == "obs" && cfg.fcstField == "fcst") = true := by simp [hd.1, hd.2]
    rw [if_pos this]
    have h2 : cfg.storedName name = name := by
      unfold Cfg.storedName
      by_cases h1 : name = "obs"
      · simp [h1, hd.1]
      · by_cases h3 : name = "fcst"
        · simp [h3, hd.2]
        · simp [h1, h3]
    have hok : cfg.obsFieldOK = true := by unfold Cfg.obsFieldOK; simp [hd.1]
    simp [h2, hok]
  · have : (cfg.obsField == "obs" && cfg.fcstField == "fcst") = false := by
      cases h : (cfg.obsField == "obs" && cfg.fcstField == "fcst") with
      | false => rfl
      | true =>
        simp only [Bool.and_eq_true, beq_iff_eq] at h
        exact absurd h hd
    rw [this]
    simp only [Bool.false_eq_true, if_false, Input.field?]
    have hfilt : ∀ n : String, n ≠ "obs" → n ≠ "fcst" →
        (I.fields.filter fun f => !(f.1 == "obs") && !(f.1 == "fcst")).lookup n = I.fields.lookup n := by
      intro n h1 h2
      exact lookup_filter_key I.fields (fun k => !(k == "obs") && !(k == "fcst")) n (by simp [h1, h2])
    have hnone : ∀ n : String, (n = "obs" ∨ n = "fcst") →
        (I.fields.filter fun f => !(f.1 == "obs") && !(f.1 == "fcst")).lookup n = none := by
      intro n hn
      rw [List.lookup_eq_none_iff]
      intro p hp
      rw [List.mem_filter] at hp
      have := hp.2
      simp only [Bool.and_eq_true, Bool.not_eq_true', beq_eq_false_iff_ne, ne_eq] at this
      rcases hn with rfl | rfl
      · simp [Ne.symm this.1]
      · simp [Ne.symm this.2]
    rw [lookup_opt, lookup_opt]
    by_cases h1 : name = "obs"
    · subst h1
      have hne : ¬ ("obs" = "fcst") := by decide
      simp only [storedName_obs, if_true, if_neg hne, hnone "obs" (Or.inl rfl), true_and]
      cases hok : cfg.obsFieldOK with
      | false => simp
      | true => cases I.fields.lookup cfg.obsField <;> simp
    · rw [if_neg h1]
      simp only [h1, false_and, if_false]
      by_cases h2 : name = "fcst"
      · subst h2
        simp only [storedName_fcst, if_true, hnone "fcst" (Or.inr rfl)]
        cases I.fields.lookup cfg.fcstField <;> simp
      · rw [if_neg h2, storedName_other cfg name h1 h2]
        exact hfilt name h1 h2

theorem resolved_coords (cfg : Cfg) (I : Input) :
    (I.resolved cfg).times = I.times ∧ (I.resolved cfg).leads = I.leads ∧ (I.resolved cfg).locs = I.locs := by
  unfold Input.resolved
  split <;> exact ⟨rfl, rfl, rfl⟩

/-- `Input.resolved` reads the input the way `-obs` / `-fcst` say (Spec/DataCoord.lean `ReadsAs`) -/
theorem resolved_readsAs (cfg : Cfg) (I : Input) : ReadsAs cfg I (I.resolved cfg) := by
  obtain ⟨hT, hL, hX⟩ := resolved_coords cfg I
  refine ⟨hT, hL, hX, ?_, ?_, ?_⟩
  · rw [resolved_field?, storedName_obs]
    cases cfg.obsFieldOK <;> simp
  · rw [resolved_field?, storedName_fcst]
    simp
  · intro name h1 h2
    rw [resolved_field?, storedName_other cfg name h1 h2]
    simp [h1]

theorem resolved_default (cfg : Cfg) : (default : Input).resolved cfg = default := by
  unfold Input.resolved
  split
  · rfl
  · have hf : (default : Input).fields = [] := rfl
    simp only [Input.field?, hf, List.lookup_nil, ite_self, Option.map_none, Option.toList_none, List.filter_nil,
      List.append_nil]
    rfl

/-! ## B. request-time resolution (the code) = loading from the resolved inputs -/

/-- the dataset object over the resolved inputs -/
def view (D : DataS) : DataS :=
  { D with inputs := D.inputs.map (Input.resolved D.cfg), cfg := D.cfg.resolved }

theorem view_getD (D : DataS) (i : Nat) :
    (view D).inputs.getD i default = (D.inputs.getD i default).resolved D.cfg := by
  simp only [view, List.getD_eq_getElem?_getD, List.getElem?_map]
  cases D.inputs[i]? with
  | none => simp [resolved_default]
  | some a => simp

theorem view_field (D : DataS) (i : Nat) (name : String) :
    ((view D).inputs.getD i default).field? name
      = if name = "obs" ∧ D.cfg.obsFieldOK = false then none
        else (D.inputs.getD i default).field? (D.cfg.storedName name) := by
  rw [view_getD, resolved_field?]

theorem view_cutFor (D : DataS) (i : Nat) (a : Arr3) : (view D).cutFor i a = D.cutFor i a := rfl

theorem view_length (D : DataS) : (view D).inputs.length = D.inputs.length := by simp [view]

/-- **`-obs` / `-fcst`.**  Resolving the requested field at request time, as `_get_score` does
(`field = self._obs_field`, `field = self._fcst_field`, borrowing for the requested observation), loads exactly what
the unchanged loading step loads from the resolved inputs; the two stop with an error in the same situations. -/
theorem loadAllF_resolved (D : DataS) (name : String) :
    (D.loadAllF name).toOption = ((view D).loadAll name).toOption := by
  unfold DataS.loadAllF DataS.loadAll
  simp only [view_length]
  by_cases hn : name = "obs"
  · subst hn
    simp only [beq_self_eq_true, if_true, storedName_obs]
    cases hok : D.cfg.obsFieldOK with
    | false =>
      have hh : ∀ i, (((view D).inputs.getD i default).field? "obs").isSome = false := by
        intro i; rw [view_field]; simp [hok]
      have hany : ((List.range D.inputs.length).any fun _ => false) = false := by simp
      simp only [hh, hany, Bool.false_eq_true, if_false]
      split <;> rfl
    | true =>
      have hh : ∀ i, ((view D).inputs.getD i default).field? "obs"
          = (D.inputs.getD i default).field? D.cfg.obsField := by
        intro i; rw [view_field, storedName_obs]; simp [hok]
      simp only [DataS.obsOwner, hh, view_length, view_cutFor, if_true]
  · have hb : (name == "obs") = false := by simp [hn]
    have hh : ∀ i, ((view D).inputs.getD i default).field? name
        = (D.inputs.getD i default).field? (D.cfg.storedName name) := by
      intro i; rw [view_field]; simp [hn]
    simp only [hb, Bool.false_eq_true, if_false, hh, view_cutFor]

/-! ## C. `Data.init` looks at coordinates only -/

theorem useLocations_coords (first first' : Input) (cfg : Cfg) (C' : Option Input) (h : first'.locs = first.locs) :
    useLocations first' { cfg with clim := C' } = useLocations first cfg := by
  unfold useLocations
  simp only [h]

/-- `Data(inputs, obs_field=X, fcst_field=Y)` builds the object `Data(inputs)` builds, over the resolved inputs:
dimensions and index lists do not depend on which fields are read -/
theorem init_resolved (scored : List Input) (cfg : Cfg) :
    Data.initF scored cfg = (Data.init scored cfg).map view := by
  have hT : ∀ I : Input, (I.resolved cfg).times = I.times := fun I => (resolved_coords cfg I).1
  have hL : ∀ I : Input, (I.resolved cfg).leads = I.leads := fun I => (resolved_coords cfg I).2.1
  have hX : ∀ I : Input, (I.resolved cfg).locs = I.locs := fun I => (resolved_coords cfg I).2.2
  have hin : scored.map (Input.resolved cfg) ++ (cfg.clim.map (Input.resolved cfg)).toList
      = (scored ++ cfg.clim.toList).map (Input.resolved cfg) := by
    cases cfg.clim <;> simp
  unfold Data.initF Data.init Cfg.resolved
  simp only [hin]
  cases hall : scored ++ cfg.clim.toList with
  | nil => rfl
  | cons first rest =>
    simp only [List.map_cons, bind, Except.bind, pure, Except.pure]
    rw [useLocations_coords first _ cfg _ (hX first)]
    cases useLocations first cfg with
    | error e => rfl
    | ok useLocs =>
      simp only [List.map_map, Function.comp_def, hT, hL, hX]
      cases checkNonEmpty (commonValues cfg.times (first.times :: List.map (fun x => x.times) rest))
        (commonValues cfg.leads (first.leads :: List.map (fun x => x.leads) rest))
        (commonValues (some useLocs)
          (List.map (fun x => x.id) first.locs :: List.map (fun I => List.map (fun x => x.id) I.locs) rest)) with
      | error e => rfl
      | ok u =>
        simp only [Except.map, view, Cfg.resolved, List.map_cons, List.length_map]

/-! ## D. the refinement theorem under `-obs` / `-fcst` -/

theorem shapeOK_coords (I I' : Input) (a : Arr3) (hT : I'.times = I.times) (hL : I'.leads = I.leads)
    (hX : I'.locs = I.locs) : shapeOK I' a = shapeOK I a := by
  unfold shapeOK
  rw [hT, hL, hX]

theorem wfInput_resolved (cfg : Cfg) (I : Input) (hw : wfInput I = true) : wfInput (I.resolved cfg) = true := by
  obtain ⟨hT, hL, hX⟩ := resolved_coords cfg I
  have hs : ∀ a, shapeOK (I.resolved cfg) a = shapeOK I a := fun a => shapeOK_coords I _ a hT hL hX
  unfold wfInput
  rw [List.all_eq_true]
  intro f hf
  rw [hs]
  have hall : ∀ g ∈ I.fields, shapeOK I g.2 = true := by
    unfold wfInput at hw; rw [List.all_eq_true] at hw; exact hw
  unfold Input.resolved at hf
  split at hf
  · exact hall f hf
  · simp only [List.mem_append, List.mem_filter] at hf
    rcases hf with hf | hf | hf
    · cases hok : cfg.obsFieldOK with
      | false => simp [hok] at hf
      | true =>
        simp only [hok, if_true] at hf
        cases hl : I.field? cfg.obsField with
        | none => simp [hl] at hf
        | some a =>
          simp only [hl, Option.map_some, Option.toList_some, List.mem_singleton] at hf
          subst hf
          exact wf_field I _ a hw hl
    · cases hl : I.field? cfg.fcstField with
      | none => simp [hl] at hf
      | some a =>
        simp only [hl, Option.map_some, Option.toList_some, List.mem_singleton] at hf
        subst hf
        exact wf_field I _ a hw hl
    · exact hall f hf.1

theorem allInputs_resolved (scored : List Input) (cfg : Cfg) :
    allInputs (scored.map (Input.resolved cfg)) cfg.resolved = (allInputs scored cfg).map (Input.resolved cfg) := by
  unfold allInputs Cfg.resolved
  cases cfg.clim <;> simp

/-- **End to end under `-obs FIELD` / `-fcst FIELD`.**  `Data(inputs, obs_field=X, fcst_field=Y)` answers every request
with the coordinate-based specification of the inputs read that way (`specScoresF`; `resolved_readsAs`): the field X
is the observation (borrowed by inputs that do not store it, subject to `-obsrange`, adjusted by the climatology), the
field Y the forecast (of the climatology as well). -/
theorem getScoresF_refines (scored : List Input) (cfg : Cfg) (D : DataS) (h : Data.initF scored cfg = .ok D)
    (hw : (allInputs scored cfg).all wfInput = true) (r : Req) :
    D.getScores r = specScoresF scored cfg r := by
  unfold specScoresF
  apply getScores_refines _ _ D h
  rw [allInputs_resolved, List.all_map]
  rw [List.all_eq_true] at hw ⊢
  intro I hI
  exact wfInput_resolved cfg I (hw I hI)

/-- without `-obs` / `-fcst` nothing changes -/
theorem resolved_default_cfg (cfg : Cfg) (I : Input) (ho : cfg.obsField = "obs") (hf : cfg.fcstField = "fcst") :
    I.resolved cfg = I := by
  unfold Input.resolved
  simp [ho, hf]

/-! ## F. C01: the observations handed out for two inputs are identical -/

/-- assumption ObsAgree of C01: inputs that store observations store equal values wherever both are usable -/
def ObsAgree (inputs : List Input) : Prop :=
  ∀ I ∈ inputs, ∀ J ∈ inputs, hasField "obs" I = true → hasField "obs" J = true → ∀ c : Coord,
    isValid (ownValue I "obs" c) = true → isValid (ownValue J "obs" c) = true →
    ownValue I "obs" c = ownValue J "obs" c

theorem supplier_mem (inputs : List Input) (name : String) (I : Input) (hI : I ∈ inputs) :
    supplier inputs name I ∈ inputs := by
  unfold supplier
  split
  · cases hf : inputs.find? (hasField "obs") with
    | none => exact hI
    | some J => exact List.mem_of_find?_eq_some hf
  · exact hI

theorem hasField_of_valid (J : Input) (name : String) (c : Coord) (h : isValid (ownValue J name c) = true) :
    hasField name J = true := by
  unfold ownValue at h
  unfold hasField
  cases hf : J.field? name with
  | none =>
    rw [hf] at h
    simp only [isValid_nan] at h
    exact absurd h (by decide)
  | some a => rfl

/-- where the observation of every input is usable, it is the same number for any two inputs -/
theorem obs_agree_at (inputs : List Input) (hag : ObsAgree inputs) (I J : Input) (hI : I ∈ inputs) (hJ : J ∈ inputs)
    (c : Coord) (hvI : isValid (fieldValue inputs "obs" I c) = true)
    (hvJ : isValid (fieldValue inputs "obs" J c) = true) :
    fieldValue inputs "obs" I c = fieldValue inputs "obs" J c := by
  rw [fieldValue_eq] at hvI hvJ ⊢
  exact hag _ (supplier_mem inputs "obs" I hI) _ (supplier_mem inputs "obs" J hJ)
    (hasField_of_valid _ _ c hvI) (hasField_of_valid _ _ c hvJ) c hvI hvJ

theorem headD_cols_isEmpty (fields : List String) (cases : List Coord) (m : String → Coord → XR) :
    ((fields.map fun name => cases.map (m name)).headD []).isEmpty = (fields.isEmpty || cases.isEmpty) := by
  cases fields with
  | nil => rfl
  | cons f fs => cases cases <;> rfl

/-- **C01, end to end.**  Under ObsAgree (and ObsRangeAgree) the observations `get_scores` hands out for two scored
inputs — same fields, same selection — are the same vector: the k-th returned column is identical whenever the k-th
requested field is the observation.  (Whole-array requests excluded: they are masked, not compressed.) -/
theorem C01_obs_identical_end_to_end (scored : List Input) (cfg : Cfg) (D : DataS)
    (h : Data.init scored cfg = .ok D) (hw : (allInputs scored cfg).all wfInput = true)
    (fields : List String) (sel : Sel) (i j : Nat) (hi : i < scored.length) (hj : j < scored.length)
    (hall : isAllSel sel = false)
    (hra : ObsRangeAgree scored cfg scored[i] scored[j]) (hag : ObsAgree (allInputs scored cfg))
    (outi outj : List Vec) (hoi : D.getScores ⟨fields, i, sel⟩ = .ok outi)
    (hoj : D.getScores ⟨fields, j, sel⟩ = .ok outj) (k : Nat) (hk : fields[k]? = some "obs") :
    outi[k]? = outj[k]? := by
  obtain ⟨I, hI, ei⟩ := getScores_over_specCases scored cfg D h hw ⟨fields, i, sel⟩ hall outi hoi
  obtain ⟨J, hJ, ej⟩ := getScores_over_specCases scored cfg D h hw ⟨fields, j, sel⟩ hall outj hoj
  simp only [List.getElem?_eq_getElem hi, List.getElem?_eq_getElem hj, Option.some.injEq] at hI hJ
  subst hI hJ
  have hsame := C01_same_case_set scored cfg fields sel i j hi hj hra
  rw [← hsame] at ej
  have hd := C03_dims_are_intersection scored cfg D h
  have hcases := specCases_eq scored cfg ⟨fields, i, sel⟩ _ scored[i] hd (List.getElem?_eq_getElem hi)
  have hmemI : scored[i] ∈ allInputs scored cfg := List.mem_append_left _ (List.getElem_mem hi)
  have hmemJ : scored[j] ∈ allInputs scored cfg := List.mem_append_left _ (List.getElem_mem hj)
  have hobsmem : "obs" ∈ fields := List.mem_of_getElem? hk
  -- the observation column is the same list
  have hcol : (specCases scored cfg ⟨fields, i, sel⟩).map (adjusted (allInputs scored cfg) cfg fields scored[i] "obs")
      = (specCases scored cfg ⟨fields, i, sel⟩).map (adjusted (allInputs scored cfg) cfg fields scored[j] "obs") := by
    apply List.map_congr_left
    intro c hc
    rw [hcases, List.mem_filter] at hc
    obtain ⟨h1, _, _⟩ := (caseValid_iff (allInputs scored cfg) cfg fields scored[i] c).1 hc.2
    have hallv := (anyMissing_false_iff (allInputs scored cfg) c "obs").1 (h1 "obs" (mem_eff cfg fields "obs" hobsmem))
    rw [List.all_eq_true] at hallv
    have := obs_agree_at (allInputs scored cfg) hag scored[i] scored[j] hmemI hmemJ c (hallv _ hmemI) (hallv _ hmemJ)
    unfold adjusted
    rw [this]
  rw [ei, ej]
  simp only [headD_cols_isEmpty]
  split
  · rfl
  · simp only [List.getElem?_map, hk, Option.map_some, hcol]

/-! ## G. C02: the scored inputs in ANY other order -/

section Perm
variable {inputs inputs' : List Input}

/-- when every input stores its observations nothing is borrowed: a field's value is the input's own -/
theorem fieldValue_own (hall : ∀ J ∈ inputs, hasField "obs" J = true) (name : String) (J : Input) (hJ : J ∈ inputs)
    (c : Coord) : fieldValue inputs name J c = ownValue J name c := by
  rw [fieldValue_eq]
  unfold supplier
  simp [hall J hJ]

theorem all_valid_perm (hP : inputs.Perm inputs') (hall : ∀ J ∈ inputs, hasField "obs" J = true) (name : String)
    (c : Coord) :
    (inputs'.all fun J => isValid (fieldValue inputs' name J c))
      = (inputs.all fun J => isValid (fieldValue inputs name J c)) := by
  have hall' : ∀ J ∈ inputs', hasField "obs" J = true := fun J hJ => hall J (hP.mem_iff.2 hJ)
  have e1 : (inputs'.all fun J => isValid (fieldValue inputs' name J c))
      = (inputs'.all fun J => isValid (ownValue J name c)) := by
    rw [Bool.eq_iff_iff, List.all_eq_true, List.all_eq_true]
    constructor
    · intro hh J hJ; rw [← fieldValue_own hall' name J hJ c]; exact hh J hJ
    · intro hh J hJ; rw [fieldValue_own hall' name J hJ c]; exact hh J hJ
  have e2 : (inputs.all fun J => isValid (fieldValue inputs name J c))
      = (inputs.all fun J => isValid (ownValue J name c)) := by
    rw [Bool.eq_iff_iff, List.all_eq_true, List.all_eq_true]
    constructor
    · intro hh J hJ; rw [← fieldValue_own hall name J hJ c]; exact hh J hJ
    · intro hh J hJ; rw [fieldValue_own hall name J hJ c]; exact hh J hJ
  rw [e1, e2]
  exact (hP.all_eq).symm

theorem checkField_perm (hP : inputs.Perm inputs') (name : String) :
    checkField inputs' name = checkField inputs name := by
  unfold checkField
  rw [hP.any_eq, hP.all_eq]

theorem checkAll_perm (hP : inputs.Perm inputs') (l : List String) :
    checkAll (checkField inputs') l = checkAll (checkField inputs) l := by
  have : checkField inputs' = checkField inputs := funext (checkField_perm hP)
  rw [this]

end Perm

theorem commonSet_perm (user : Option (List XR)) (c c' : List XR) (cols cols' : List (List XR))
    (hP : (c :: cols).Perm (c' :: cols')) : commonSet user (c' :: cols') = commonSet user (c :: cols) := by
  obtain ⟨s1, n1⟩ := commonSet_sorted user (c' :: cols')
  obtain ⟨s2, n2⟩ := commonSet_sorted user (c :: cols)
  apply strictAsc_ext' _ _ s1 s2 n1 n2
  intro v
  rw [memX_commonSet', memX_commonSet']
  have hall : (c' :: cols').all (fun k => memX v k) = (c :: cols).all (fun k => memX v k) := (hP.all_eq).symm
  rw [hall]
  -- membership in the first column is implied by membership in all
  have h1 : ∀ (d : List XR) (ds : List (List XR)), (memX v d && ((d :: ds).all (fun k => memX v k) && userOK user v))
      = ((d :: ds).all (fun k => memX v k) && userOK user v) := by
    intro d ds
    rw [List.all_cons]
    cases memX v d <;> simp
  have hall2 : (c' :: cols').all (fun k => memX v k) = (c :: cols).all (fun k => memX v k) := hall
  rw [h1 c cols]
  rw [← hall2, h1 c' cols', hall2]

/-- the verified dimensions do not depend on the order of the inputs, as long as the first input of either order
lists the same location records (the location options use the metadata of the first input) -/
theorem specDims_perm (scored scored' : List Input) (cfg : Cfg) (hp : scored.Perm scored')
    (hhead : ∀ a b, (allInputs scored cfg).head? = some a → (allInputs scored' cfg).head? = some b →
      ∀ l : Loc, l ∈ a.locs ↔ l ∈ b.locs) :
    specDims scored' cfg = specDims scored cfg := by
  have hP : (allInputs scored cfg).Perm (allInputs scored' cfg) := hp.append_right _
  unfold specDims
  cases hin : allInputs scored cfg with
  | nil =>
    rw [hin] at hP
    rw [List.Perm.nil_eq hP]
  | cons first rest =>
    cases hin' : allInputs scored' cfg with
    | nil => rw [hin, hin'] at hP; exact absurd hP.length_eq (by simp)
    | cons first' rest' =>
      rw [hin, hin'] at hP
      have hX := hhead first first' (by rw [hin]; rfl) (by rw [hin']; rfl)
      simp only [List.head?_cons]
      have hrel := allowedLocs_equiv first first' cfg hX
      have eT : commonSet cfg.times ((first' :: rest').map (·.times))
          = commonSet cfg.times ((first :: rest).map (·.times)) :=
        commonSet_perm cfg.times _ _ _ _ (hP.map _)
      have eL : commonSet cfg.leads ((first' :: rest').map (·.leads))
          = commonSet cfg.leads ((first :: rest).map (·.leads)) :=
        commonSet_perm cfg.leads _ _ _ _ (hP.map _)
      cases ha : allowedLocs first cfg with
      | none =>
        cases ha' : allowedLocs first' cfg with
        | none => rfl
        | some b => rw [ha, ha'] at hrel; exact hrel.elim
      | some a =>
        cases ha' : allowedLocs first' cfg with
        | none => rw [ha, ha'] at hrel; exact hrel.elim
        | some b =>
          rw [ha, ha'] at hrel
          have eX0 : commonSet (some b) ((first' :: rest').map fun I => I.locs.map (·.id))
              = commonSet (some b) ((first :: rest).map fun I => I.locs.map (·.id)) :=
            commonSet_perm (some b) _ _ _ _ (by
              have := hP.map (fun I : Input => I.locs.map (·.id))
              rw [List.map_cons, List.map_cons] at this
              exact this)
          have eX1 : commonSet (some b) ((first :: rest).map fun I => I.locs.map (·.id))
              = commonSet (some a) ((first :: rest).map fun I => I.locs.map (·.id)) :=
            commonSet_equiv (some b) (some a) _ _ _ _
              (fun v => (memX_congr hrel : memX v a = memX v b).symm) (fun _ => rfl) (fun _ => rfl)
          simp only []
          rw [eT, eL, eX0, eX1]

theorem clim_mem (scored : List Input) (cfg : Cfg) (C : Input) (h : cfg.clim = some C) : C ∈ allInputs scored cfg := by
  unfold allInputs; rw [h]; simp

/-- the specification's answer does not depend on the order of the scored inputs when every input stores its
observations (nothing is borrowed) and the first inputs of the two orders list the same location records -/
theorem specScores_perm (scored scored' : List Input) (cfg : Cfg) (hp : scored.Perm scored')
    (hobs : ∀ J ∈ allInputs scored cfg, hasField "obs" J = true)
    (hhead : ∀ a b, (allInputs scored cfg).head? = some a → (allInputs scored' cfg).head? = some b →
      ∀ l : Loc, l ∈ a.locs ↔ l ∈ b.locs)
    (r r' : Req) (hf : r'.fields = r.fields) (hs : r'.sel = r.sel) (hi : scored'[r'.input]? = scored[r.input]?) :
    specScores scored' cfg r' = specScores scored cfg r := by
  have hP : (allInputs scored cfg).Perm (allInputs scored' cfg) := hp.append_right _
  have hobs' : ∀ J ∈ allInputs scored' cfg, hasField "obs" J = true := fun J hJ => hobs J (hP.mem_iff.2 hJ)
  unfold specScores
  rw [specDims_perm scored scored' cfg hp hhead, hf, hs, hi]
  cases specDims scored cfg with
  | none => rfl
  | some d =>
    simp only []
    cases hI : scored[r.input]? with
    | none => rfl
    | some I =>
      simp only []
      rw [checkAll_perm hP]
      cases checkAll (checkField (allInputs scored cfg)) (effFields cfg r.fields) with
      | error e => rfl
      | ok u =>
        simp only []
        have hIm : I ∈ allInputs scored cfg :=
          List.mem_append_left _ (List.mem_of_getElem? hI)
        have hIm' : I ∈ allInputs scored' cfg := hP.mem_iff.1 hIm
        have hfv : ∀ name c, fieldValue (allInputs scored' cfg) name I c = fieldValue (allInputs scored cfg) name I c := by
          intro name c
          rw [fieldValue_own hobs' name I hIm' c, fieldValue_own hobs name I hIm c]
        have hcl : ∀ c, climValue (allInputs scored' cfg) cfg c = climValue (allInputs scored cfg) cfg c := by
          intro c
          unfold climValue
          cases hc : cfg.clim with
          | none => rfl
          | some C =>
            simp only []
            rw [fieldValue_own hobs' "fcst" C (hP.mem_iff.1 (clim_mem scored cfg C hc)) c,
              fieldValue_own hobs "fcst" C (clim_mem scored cfg C hc) c]
        have hadj : adjusted (allInputs scored' cfg) cfg r.fields I = adjusted (allInputs scored cfg) cfg r.fields I := by
          funext name c
          unfold adjusted
          rw [hfv, hcl]
        have hcv : caseValid (allInputs scored' cfg) cfg r.fields I = caseValid (allInputs scored cfg) cfg r.fields I := by
          funext c
          unfold caseValid
          simp only [all_valid_perm hP hobs, hfv, hadj]
        rw [hcv, hadj]

/-- **C02, any file order.**  Give the scored inputs in ANY other order: `Data` verifies the same dimensions and every
request gets the same answer for the same input (at its new position), provided every input (and the climatology)
stores its observations — otherwise WHICH input lends its observations depends on the order — and the first inputs
of the two orders list the same location records — the location options use the first file's metadata
(assumption MetaAgree).  `C02_permuted_inputs` (Proofs/DataRefine.lean) is the case where the first input stays first. -/
theorem C02_any_permutation (scored scored' : List Input) (cfg : Cfg) (D : DataS)
    (h : Data.init scored cfg = .ok D)
    (hw : (allInputs scored cfg).all wfInput = true)
    (hp : scored.Perm scored')
    (hobs : ∀ J ∈ allInputs scored cfg, hasField "obs" J = true)
    (hhead : ∀ a b, (allInputs scored cfg).head? = some a → (allInputs scored' cfg).head? = some b →
      ∀ l : Loc, l ∈ a.locs ↔ l ∈ b.locs) :
    ∃ D', Data.init scored' cfg = .ok D'
      ∧ D'.times = D.times ∧ D'.leads = D.leads ∧ D'.locs.map (·.id) = D.locs.map (·.id)
      ∧ ∀ r r' : Req, r'.fields = r.fields → r'.sel = r.sel →
          scored'[r'.input]? = scored[r.input]? →
          D'.getScores r' = D.getScores r := by
  have hP : (allInputs scored cfg).Perm (allInputs scored' cfg) := hp.append_right _
  have hw' : (allInputs scored' cfg).all wfInput = true := by
    rw [List.all_eq_true] at hw ⊢
    intro x hx
    exact hw x (hP.mem_iff.2 hx)
  have hd := C03_dims_are_intersection scored cfg D h
  cases h' : Data.init scored' cfg with
  | error e =>
    have := C03_dims_error _ _ e h'
    rw [specDims_perm scored scored' cfg hp hhead, hd] at this
    cases this
  | ok D' =>
    have hd' := C03_dims_are_intersection _ _ D' h'
    rw [specDims_perm scored scored' cfg hp hhead, hd] at hd'
    injection hd' with hd'
    injection hd' with e1 e2 e3
    refine ⟨D', rfl, e1.symm, e2.symm, e3.symm, ?_⟩
    intro r r' hf hs hi
    rw [getScores_refines scored cfg D h hw r, getScores_refines scored' cfg D' h' hw' r']
    exact specScores_perm scored scored' cfg hp hobs hhead r r' hf hs hi

/-! ## E. non-vacuity: a dataset with a stored CDF column, an other-score field and `-obs aux -fcst p@1` -/

namespace Example

/-- input A: obs, fcst, an other-score field and the stored CDF columns of thresholds 1/2 and 1 -/
def fA : Input :=
  { times := [0, 86400], leads := [0, 6], locs := [⟨1, 50, 10, 0⟩, ⟨2, 60, 20, 100⟩]
    fields := [("obs", [[[1, 2], [3, 4]], [[5, 6], [7, 8]]]), ("fcst", [[[2, 2], [2, 2]], [[6, 6], [6, 6]]]),
               ("aux", [[[9, 8], [7, 6]], [[5, 4], [3, 2]]]),
               ("p@1/2", [[[0, 0], [0, 0]], [[0, 0], [0, 0]]]),
               ("p@1", [[[(1:Rat)/4, 1/2], [3/4, 1]], [[0, 1/4], [.nan, 1]]])] }

/-- input B: other order of times and locations, no aux (borrowed), the CDF columns stored in the other order -/
def fB : Input :=
  { times := [86400, 0], leads := [0, 6], locs := [⟨2, 60, 20, 100⟩, ⟨1, 50, 10, 0⟩]
    fields := [("fcst", [[[1, 1], [1, 1]], [[3, 3], [3, 3]]]),
               ("p@1", [[[1, 1], [(1:Rat)/2, 1/2]], [[0, 0], [1, 0]]]),
               ("p@1/2", [[[0, 0], [0, 0]], [[0, 0], [0, 0]]])] }

def fCfg : Cfg := { obsField := "aux", fcstField := "p@1" }

example : ((fA.resolved fCfg).field? "obs" = fA.field? "aux") ∧ ((fA.resolved fCfg).field? "fcst" = fA.field? "p@1")
    ∧ ((fB.resolved fCfg).field? "obs" = none) := by decide +kernel

example : (allInputs [fA, fB] fCfg).all wfInput = true := by decide +kernel

/-- the hypotheses of `getScoresF_refines` hold and the answer is not trivial: the observation of input B is the
borrowed aux field of A, its forecast its own stored CDF column of threshold 1, matched by coordinate -/
example : (match Data.initF [fA, fB] fCfg with
    | .ok D => D.getScores { fields := ["obs", "fcst"], input := 1, sel := .none }
    | .error e => .error e)
    = .ok [[9, 8, 7, 6, 5, 4, 2], [0, 0, 0, 1, 1, 1, 1 / 2]] := by decide +kernel

example : specScoresF [fA, fB] fCfg { fields := ["obs", "fcst"], input := 1, sel := .none }
    = .ok [[9, 8, 7, 6, 5, 4, 2], [0, 0, 0, 1, 1, 1, 1 / 2]] := by decide +kernel

/-- request-time resolution on the unresolved object loads the same arrays -/
example : (match Data.init [fA, fB] fCfg with
    | .ok D => (D.loadAllF "obs").toOption.map (fun l => l.map Arr3.flat)
    | .error _ => none)
    = some [[9, 8, 7, 6, 5, 4, 3, 2], [9, 8, 7, 6, 5, 4, 3, 2]] := by decide +kernel

/-- a stored CDF column cannot stand in for the observation: error exit -/
example : (match Data.initF [fA, fB] { obsField := "p@1" } with
    | .ok D => (D.getScores { fields := ["obs"], input := 0, sel := .none }).toOption
    | .error _ => none) = none := by decide +kernel

/-- ObsAgree holds for the example (only input A stores observations; B borrows them) -/
theorem exObsAgree : ObsAgree (allInputs [fA, fB] {}) := by
  intro I hI J hJ hoI hoJ c _ _
  have hmem : ∀ K, K ∈ allInputs [fA, fB] {} → hasField "obs" K = true → K = fA := by
    intro K hK hoK
    simp only [allInputs, Option.toList_none, List.append_nil, List.mem_cons, List.not_mem_nil, or_false] at hK
    rcases hK with rfl | rfl
    · rfl
    · exact absurd hoK (by decide +kernel)
  rw [hmem I hI hoI, hmem J hJ hoJ]

/-- the hypotheses of `C01_obs_identical_end_to_end` hold on the example, and the observation column is not trivial -/
example (D : DataS) (h : Data.init [fA, fB] {} = .ok D) (outi outj : List Vec)
    (hoi : D.getScores ⟨["obs", "fcst"], 0, .none⟩ = .ok outi)
    (hoj : D.getScores ⟨["obs", "fcst"], 1, .none⟩ = .ok outj) : outi[0]? = outj[0]? :=
  C01_obs_identical_end_to_end [fA, fB] {} D h (by decide +kernel) _ _ 0 1 (by decide) (by decide) rfl
    (obsRangeAgree_of_none _ _ _ _ rfl) exObsAgree _ _ hoi hoj 0 rfl

example : (match Data.init [fA, fB] {} with
    | .ok D => (D.getScores ⟨["obs", "fcst"], 0, .none⟩, D.getScores ⟨["obs", "fcst"], 1, .none⟩)
    | .error e => (.error e, .error e))
    = (.ok [[1, 2, 3, 4, 5, 6, 7, 8], [2, 2, 2, 2, 6, 6, 6, 6]], .ok [[1, 2, 3, 4, 5, 6, 7, 8], [3, 3, 3, 3, 1, 1, 1, 1]]) := by
  decide +kernel

/-- input C: input B with observations of its own (the same values as A at the same coordinates) -/
def fC : Input :=
  { fB with fields := ("obs", [[[6, 5], [8, 7]], [[2, 1], [4, 3]]]) :: fB.fields }

/-- the hypotheses of `C02_any_permutation` hold on [A, C] ↦ [C, A] -/
example (D : DataS) (h : Data.init [fA, fC] {} = .ok D) :
    ∃ D', Data.init [fC, fA] {} = .ok D' ∧ D'.times = D.times ∧ D'.leads = D.leads
      ∧ D'.locs.map (·.id) = D.locs.map (·.id)
      ∧ ∀ r r' : Req, r'.fields = r.fields → r'.sel = r.sel → [fC, fA][r'.input]? = [fA, fC][r.input]? →
          D'.getScores r' = D.getScores r :=
  C02_any_permutation [fA, fC] [fC, fA] {} D h (by decide +kernel) (List.Perm.swap _ _ _)
    (by
      intro J hJ
      simp only [allInputs, Option.toList_none, List.append_nil, List.mem_cons, List.not_mem_nil, or_false] at hJ
      rcases hJ with rfl | rfl <;> decide +kernel)
    (by
      intro a b ha hb l
      simp only [allInputs, Option.toList_none, List.append_nil, List.head?_cons, Option.some.injEq] at ha hb
      subst ha hb
      simp only [fA, fC, fB, List.mem_cons, List.not_mem_nil, or_false]
      exact or_comm)

/-- … and the answers are not trivial: input C asked as input 1 of [A, C] and as input 0 of [C, A] -/
example : (match Data.init [fA, fC] {}, Data.init [fC, fA] {} with
    | .ok D, .ok D' => (D.getScores ⟨["obs", "fcst"], 1, .loc 0⟩, D'.getScores ⟨["obs", "fcst"], 0, .loc 0⟩)
    | _, _ => (.error "", .error ""))
    = (.ok [[1, 3, 5, 7], [3, 3, 1, 1]], .ok [[1, 3, 5, 7], [3, 3, 1, 1]]) := by
  decide +kernel

end Example

end VerifModel.DataFields
