import VerifModel.Model.DiagramStd
import VerifModel.Spec.DiagramStd
import Proofs.C16
import Proofs.C12
/-
  C16, standard line plots (`verif.output.Standard._get_x_y` / `_plot_core`) for every modelled metric
  family, `-x threshold`, data axes with one or several thresholds, `-acc`, `-x no`, `-agg`; `-agg`, `-acc`,
  `-x no` of ObsFcst.

  The score of ONE cell (interval × slice) is the subject of C05 (deterministic scores), C06 (2×2 scores),
  C08 (Brier family); the theorems `C16_std_cell_*` tie the cell of this model to those.  What C16 adds is WHERE
  each cell is drawn: no averaging over thresholds on the threshold axis, the mean over the thresholds on a
  data axis, running sums after the NaN replacement under -acc, one bar per input in input order under -x no.
-/
namespace VerifModel.C16
open VerifModel XR
open VerifModel.Diagram VerifModel.DiagramStd
open VerifModel.Spec

/-! ### helper lemmas -/

private theorem mapM_some_get {α β : Type} (f : α → Option β) :
    ∀ (l : List α) (ys : List β), l.mapM f = some ys →
      ys.length = l.length ∧ ∀ (k : Nat) (x : α), l[k]? = some x → f x = ys[k]? := by
  intro l
  induction l with
  | nil =>
    intro ys h
    simp at h
    subst h
    exact ⟨rfl, by simp⟩
  | cons a l ih =>
    intro ys h
    rw [List.mapM_cons] at h
    cases hfa : f a with
    | none => simp [hfa] at h
    | some y =>
      cases hl : l.mapM f with
      | none => simp [hfa, hl] at h
      | some ys' =>
        simp [hfa, hl] at h
        subst h
        obtain ⟨h1, h2⟩ := ih ys' hl
        refine ⟨by simp [h1], ?_⟩
        intro k x hk
        cases k with
        | zero => simp at hk; subst hk; simpa using hfa
        | succ k => simpa using h2 k x (by simpa using hk)

private theorem zip_get {α β : Type} (l : List α) (m : List β) (k : Nat) (a : α) (b : β)
    (ha : l[k]? = some a) (hb : m[k]? = some b) : (l.zip m)[k]? = some (a, b) := by
  simp [List.getElem?_zip_eq_some, ha, hb]

private theorem mean_single (x : XR) : Vec.mean [x] = x := by
  cases x <;> simp [Vec.mean, Vec.sum, Vec.len, XR.ofNat] <;> first | rfl | decide

/-! ### -x threshold: one point per threshold, no averaging -/

/-- `-x threshold` (the default axis of the contingency and Brier scores): the figure has one point per
threshold (interval) and the point of threshold k is the score of threshold k on the cases of the single
slice (all cases) — `Spec.Spec.DiagramStd.thresholdPoint` of the table of cell scores; nothing is averaged over
the thresholds.  x = the centre of the interval. -/
theorem C16_def_standard_threshold (T : Tr) (m : String) (a : Agg) (nx : Nat) (ivs : List Interval)
    (cells : List (List Cols)) (hl : cells.length = ivs.length) (ys : Vec)
    (h : column T m a .threshold nx ivs cells = some ys) :
    ys.length = ivs.length ∧
    ∀ (k : Nat) (I : Interval) (c : List Cols), ivs[k]? = some I → cells[k]? = some c →
      cell T m a I (c.headD ([], [], [])) = (ys[k]?).map fun _ =>
        Spec.DiagramStd.thresholdPoint (fun i _ => ys.getD i .nan) k := by
  unfold column at h
  simp only at h
  obtain ⟨h1, h2⟩ := mapM_some_get _ _ _ h
  refine ⟨by simp [h1, hl], ?_⟩
  intro k I c hI hc
  have := h2 k (I, c) (zip_get ivs cells k I c hI hc)
  simp only at this
  rw [this]
  cases hy : ys[k]? with
  | none => rfl
  | some y => simp [Spec.DiagramStd.thresholdPoint, List.getD, hy]

/-- the x-values of `-x threshold` are the interval centres, in the order of the thresholds -/
theorem C16_standard_threshold_x (ivs : List Interval) (k : Nat) :
    (centres ivs)[k]? = (ivs[k]?).map Interval.center := by
  simp [centres]

/-! ### a data axis: the score of the slice (mean over the thresholds when there are several) -/

/-- A data axis (lead time, location, time, month, …) or `-x no`: the value of slice j is the mean over the
thresholds of the cell scores of slice j (`Spec.Spec.DiagramStd.axisPoint`): `s` lists the scores of slice j, one
per threshold in threshold order. -/
theorem C16_def_standard_axis (T : Tr) (m : String) (a : Agg) (xk : XKind) (hxk : xk ≠ .threshold) (nx : Nat)
    (ivs : List Interval) (cells : List (List Cols)) (hl : cells.length = ivs.length)
    (hrect : ∀ c ∈ cells, c.length = nx) (ys : Vec)
    (h : column T m a xk nx ivs cells = some ys) (j : Nat) (hj : j < nx) :
    ∃ s : List XR, s.length = ivs.length ∧
      (∀ (i : Nat) (I : Interval) (c : List Cols) (cl : Cols), ivs[i]? = some I → cells[i]? = some c → c[j]? = some cl →
        cell T m a I cl = s[i]?) ∧
      ys[j]? = some (Spec.DiagramStd.axisPoint ivs.length (fun i _ => s.getD i .nan) j) := by
  have hcol : column T m a xk nx ivs cells =
      ((ivs.zip cells).mapM fun (ic : Interval × List Cols) => ic.2.mapM (cell T m a ic.1)).map
        (OutputTable.thresholdAvg nx) := by
    cases xk <;> first | rfl | exact absurd rfl hxk
  rw [hcol] at h
  cases hper : (ivs.zip cells).mapM fun (ic : Interval × List Cols) => ic.2.mapM (cell T m a ic.1) with
  | none => simp [hper] at h
  | some per =>
    simp [hper] at h
    subst h
    obtain ⟨hlen, hget⟩ := mapM_some_get _ _ _ hper
    have hlen' : per.length = ivs.length := by simp [hlen, hl]
    have hrow : ∀ r ∈ per, r.length = nx := by
      intro r hr
      obtain ⟨i, hi, rfl⟩ := List.getElem_of_mem hr
      have hi' : i < (ivs.zip cells).length := by omega
      have e := hget i ((ivs.zip cells)[i]'hi') (List.getElem?_eq_getElem hi')
      simp only [List.getElem?_eq_getElem hi] at e
      obtain ⟨e1, _⟩ := mapM_some_get _ _ _ e
      rw [e1]
      apply hrect
      have : (ivs.zip cells)[i].2 = cells[i]'(by simp at hi'; omega) := by simp
      rw [this]
      exact List.getElem_mem _
    refine ⟨per.map (·.getD j .nan), by simp [hlen'], ?_, ?_⟩
    · intro i I c cl hI hc hcl
      have e := hget i (I, c) (zip_get ivs cells i I c hI hc)
      simp only at e
      have hi : i < per.length := by
        have := (List.getElem?_eq_some_iff.mp hI).1
        omega
      rw [List.getElem?_eq_getElem hi] at e
      obtain ⟨e1, e2⟩ := mapM_some_get _ _ _ e
      rw [e2 j cl hcl]
      have hjl : j < per[i].length := by
        rw [e1]; exact (List.getElem?_eq_some_iff.mp hcl).1
      simp [List.getD, hi, hjl]
    · rw [C12.C12_threshold_avg nx per hrow j hj]
      congr 1
      unfold Spec.DiagramStd.axisPoint
      congr 1
      apply List.ext_getElem?
      intro i
      by_cases hi : i < per.length
      · simp [hi, hlen' ▸ hi, List.getD]
      · have h1 : ivs.length ≤ i := by omega
        simp [hi, h1]

/-- with a single threshold (or none: the one unbounded interval) the value of slice j is the score of slice j
itself, whatever it is (a number, NaN, ±∞) -/
theorem C16_def_standard_single (T : Tr) (m : String) (a : Agg) (xk : XKind) (hxk : xk ≠ .threshold) (nx : Nat)
    (I : Interval) (c : List Cols) (hc : c.length = nx) (ys : Vec)
    (h : column T m a xk nx [I] [c] = some ys) (j : Nat) (cl : Cols) (hcl : c[j]? = some cl) :
    cell T m a I cl = ys[j]? := by
  have hj : j < nx := by rw [← hc]; exact (List.getElem?_eq_some_iff.mp hcl).1
  obtain ⟨s, hs, hcell, hy⟩ := C16_def_standard_axis T m a xk hxk nx [I] [c] rfl (by simp [hc]) ys h j hj
  have h0 := hcell 0 I c cl rfl rfl hcl
  rw [h0, hy]
  match s, hs with
  | [x], _ => simp [Spec.DiagramStd.axisPoint, List.range, List.range.loop, mean_single]

/-! ### -acc -/

/-- `-acc`: entry k of an accumulated column is the running sum of the scores up to k, an undefined (NaN) score
counting as 0 — the NaN replacement comes BEFORE the summation, so one missing score does not wipe out the rest
of the line; infinite scores stay infinite (C12's `-acc` model on the one-column table). -/
theorem C16_standard_acc (v : Vec) (k : Nat) (hk : k < v.length) :
    (accCol v)[k]? = some (Spec.DiagramStd.runningSum v k) := by
  have h := C12.C12_acc_full 1 (v.map fun x => [x]) (by simp) k 0 (by simpa using hk) (by omega)
  unfold accCol
  rw [List.getElem?_map]
  cases hr : (OutputTable.acc (v.map fun x => [x]))[k]? with
  | none => simp [hr] at h
  | some r =>
    simp only [hr, Option.bind_some] at h
    cases r with
    | nil => simp at h
    | cons z zs =>
      simp only [List.getElem?_cons_zero, Option.some.injEq] at h
      simp only [Option.map_some, List.headD_cons, h, Spec.DiagramStd.runningSum]
      congr 2
      rw [← List.map_take, List.map_map]
      apply List.map_congr_left
      intro x _
      simp [C12.nan0, List.getD]

/-- a missing score in the middle of the line: the sum goes on -/
example : accCol [fin 1, nan, fin 2] = [fin 1, fin 1, fin 3] := by decide +kernel

/-! ### -x no: the bar graph -/

/-- `-x no`: exactly one bar container with one bar per input, in input order: bar k has the height of input k's
(first and only) value, spans [k + 1/5, k + 1] (width 4/5) — the bars do not overlap and appear in command-line
order. -/
theorem C16_standard_bars (xs : Vec) (cols : List Vec) :
    ∃ s : Series, standardFigure .no xs cols = [s] ∧ s.kind = "bar" ∧ s.ys.length = cols.length ∧
      (∀ k : Nat, s.ys[k]? = (cols[k]?).map fun (c : Vec) => c.headD .nan) ∧
      (∀ k : Nat, k < cols.length → s.xs[k]? = some (fin (Spec.DiagramStd.barLeft k)) ∧
        (s.ws.bind (·[k]?)) = some (fin Spec.DiagramStd.barWidth)) := by
  refine ⟨_, rfl, rfl, by simp [barSeries], ?_, ?_⟩
  · intro k; simp [barSeries]
  · intro k hk
    simp [barSeries, hk, Spec.DiagramStd.barLeft, Spec.DiagramStd.barWidth]

/-- otherwise: one line per input in input order, labelled with the input's name, all on the same x -/
theorem C16_standard_lines (xk : XKind) (hxk : xk ≠ .no) (xs : Vec) (cols : List Vec) :
    (standardFigure xk xs cols).length = cols.length ∧
    ∀ k (hk : k < cols.length), (standardFigure xk xs cols)[k]? =
      some { ax := 0, kind := "line", label := inName k, xs := xs, ys := cols[k] } := by
  have h : standardFigure xk xs cols =
      perInput (fun k c => [({ ax := 0, kind := "line", label := inName k, xs := xs, ys := c } : Series)]) cols := by
    cases xk <;> first | rfl | exact absurd rfl hxk
  rw [h]
  exact C16_series_order (fun k c => ({ ax := 0, kind := "line", label := inName k, xs := xs, ys := c } : Series)) cols

/-! ### the cells: the scores of C05 / C06 / C08 -/

private theorem computeFromObsFcst_fin' (f : Vec → Vec → XR) (os fs : List Rat) (hne : os ≠ [])
    (hl : os.length = fs.length) :
    computeFromObsFcst f (os.map fin) (fs.map fin) = f (os.map fin) (fs.map fin) := by
  unfold computeFromObsFcst validObsFcst
  have hall : ((os.map fin).zip (fs.map fin)).filter (fun p => !(p.1.isNan || p.2.isNan)) = (os.map fin).zip (fs.map fin) := by
    apply List.filter_eq_self.mpr
    intro p hp
    rw [List.zip_map] at hp
    obtain ⟨q, _, rfl⟩ := List.mem_map.mp hp
    simp
  rw [hall]
  have hne' : ((os.map fin).zip (fs.map fin)).isEmpty = false := by
    cases os with
    | nil => exact absurd rfl hne
    | cons o os =>
      cases fs with
      | nil => simp at hl
      | cons f fs => rfl
  simp only [hne', Bool.false_eq_true, if_false]
  rw [List.map_fst_zip (by simp [hl]), List.map_snd_zip (by simp [hl])]

/-- `-agg`: a deterministic cell (mae, bias, rmse) is the textbook score with the chosen aggregator in the place
of the mean: agg |f − o|, agg (f − o), √agg (f − o)² over the valid cases of the slice — for EVERY aggregator
(the textbook forms are C05's `Spec.Det`; `Gen = Spec` re-proved each run). -/
theorem C16_std_cell_agg (T : Tr) (a : Agg) (I : Interval) (os fs : List Rat) (b : Vec)
    (hne : os ≠ []) (hl : os.length = fs.length) :
    cell T "mae" a I (os.map fin, fs.map fin, b) = some (Det.mae (aggFn T a) os fs) ∧
    cell T "bias" a I (os.map fin, fs.map fin, b) = some (Det.bias (aggFn T a) os fs) ∧
    cell T "rmse" a I (os.map fin, fs.map fin, b) = some (Det.rmse T (aggFn T a) os fs) := by
  refine ⟨?_, ?_, ?_⟩
  · have e : ("mae" == "corr") = false := by decide
    simp only [cell, e, Bool.false_eq_true, if_false, detScore, Gen.Det.eval, Option.map_some, Option.getD_some]
    rw [computeFromObsFcst_fin' _ _ _ hne hl]
    exact congrArg some (GenEq.Det.mae_eq T (aggFn T a) os fs hne hl)
  · have e : ("bias" == "corr") = false := by decide
    simp only [cell, e, Bool.false_eq_true, if_false, detScore, Gen.Det.eval, Option.map_some, Option.getD_some]
    rw [computeFromObsFcst_fin' _ _ _ hne hl]
    exact congrArg some (GenEq.Det.bias_eq T (aggFn T a) os fs hne hl)
  · have e : ("rmse" == "corr") = false := by decide
    simp only [cell, e, Bool.false_eq_true, if_false, detScore, Gen.Det.eval, Option.map_some, Option.getD_some]
    rw [computeFromObsFcst_fin' _ _ _ hne hl]
    exact congrArg some (GenEq.Det.rmse_eq T (aggFn T a) os fs hne hl)

/-- a contingency cell (here ets, hit, far, the other 22 names alike) is the textbook score of the 2×2 table of
the slice for that threshold's event (`Spec.Cont`, C06), NaN where it is undefined — never ±∞ -/
theorem C16_std_cell_cont (T : Tr) (a : Agg) (I : Interval) (obs fcst b : Vec) (t : Table)
    (h : abcd I I obs fcst = some t) :
    cell T "ets" a I (obs, fcst, b) = some (toXR (Cont.ets t.a t.b t.c t.d)) ∧
    cell T "hit" a I (obs, fcst, b) = some (toXR (Cont.hit t.a t.c)) ∧
    cell T "far" a I (obs, fcst, b) = some (toXR (Cont.far t.a t.b)) := by
  have hN : 0 < t.a + t.b + t.c + t.d := C06.C06_total_pos I I obs fcst t h
  have e1 : Gen.Cont.eval T "ets" (XR.ofNat t.a) (XR.ofNat t.b) (XR.ofNat t.c) (XR.ofNat t.d) =
      some (Gen.Cont.m_ets T (fin t.a) (fin t.b) (fin t.c) (fin t.d)) := rfl
  have e2 : Gen.Cont.eval T "hit" (XR.ofNat t.a) (XR.ofNat t.b) (XR.ofNat t.c) (XR.ofNat t.d) =
      some (Gen.Cont.m_hit T (fin t.a) (fin t.b) (fin t.c) (fin t.d)) := rfl
  have e3 : Gen.Cont.eval T "far" (XR.ofNat t.a) (XR.ofNat t.b) (XR.ofNat t.c) (XR.ofNat t.d) =
      some (Gen.Cont.m_far T (fin t.a) (fin t.b) (fin t.c) (fin t.d)) := rfl
  have d1 : Gen.Det.eval T "ets" (aggFn T a) [] [] = none := rfl
  have d2 : Gen.Det.eval T "hit" (aggFn T a) [] [] = none := rfl
  have d3 : Gen.Det.eval T "far" (aggFn T a) [] [] = none := rfl
  have c1 : ("ets" == "corr") = false := by decide
  have c2 : ("hit" == "corr") = false := by decide
  have c3 : ("far" == "corr") = false := by decide
  refine ⟨?_, ?_, ?_⟩
  · simp only [cell, c1, Bool.false_eq_true, if_false, detScore, d1, Option.map_none, contScore, h, e1,
      Option.map_some, GenEq.Cont.ets_eq T t.a t.b t.c t.d hN]
    cases Cont.ets t.a t.b t.c t.d <;> simp [Cont.toXR, toXR, XR.isInf]
  · simp only [cell, c2, Bool.false_eq_true, if_false, detScore, d2, Option.map_none, contScore, h, e2,
      Option.map_some, GenEq.Cont.hit_eq T t.a t.b t.c t.d hN]
    cases Cont.hit t.a t.c <;> simp [Cont.toXR, toXR, XR.isInf]
  · simp only [cell, c3, Bool.false_eq_true, if_false, detScore, d3, Option.map_none, contScore, h, e3,
      Option.map_some, GenEq.Cont.far_eq T t.a t.b t.c t.d hN]
    cases Cont.far t.a t.b <;> simp [Cont.toXR, toXR, XR.isInf]

/-- a Brier-family cell is C08's kernel on what `get_p` makes of the fetched columns: the event indicator of
the observation for this threshold's interval and p = cdf(upper) − cdf(lower) (0 / 1 at an infinite end) -/
theorem C16_std_cell_prob (T : Tr) (a : Agg) (I : Interval) (obs c0 c1 : Vec) :
    cell T "bs" a I (obs, c0, c1) = some (Prob.bs T (getPCols I obs c0 c1).1 (getPCols I obs c0 c1).2) ∧
    (getPCols I obs c0 c1).1 = obs.map (Prob.obsP I) ∧
    ∀ k, k < obs.length → (getPCols I obs c0 c1).2[k]? = some (Prob.eventProb I (c0.getD k .nan) (c1.getD k .nan)) := by
  refine ⟨?_, rfl, ?_⟩
  · have c : ("bs" == "corr") = false := by decide
    have d : Gen.Det.eval T "bs" (aggFn T a) [] [] = none := rfl
    have g : ∀ x y z w, Gen.Cont.eval T "bs" x y z w = none := fun _ _ _ _ => rfl
    have hc : contScore T "bs" I I obs c0 = none := by
      unfold contScore
      cases abcd I I obs c0 <;> simp [g]
    simp only [cell, c, Bool.false_eq_true, if_false, detScore, d, Option.map_none, hc, probKernel, Option.map_some]
  intro k hk
  simp [getPCols, hk]

/-! ### ObsFcst: -agg, -acc -/

/-- ObsFcst with the defaults (mean, no -acc, a data axis) is the figure of `C16_def_obsfcst` /
`C16_obsfcst_layout` / `C16_obsfcst_bands` -/
theorem C16_obsfcst_default (T : Tr) (ax : Vec) (obs0 : List Vec) (ins : List (List Vec × List (String × List Vec))) :
    obsfcstFigure T .mean false false ax obs0 ins = obsfcstSeries ax obs0 ins := by
  have hs : ∀ sl : List Vec, accIf false (sliceAgg T .mean sl) = sliceMeans sl := by
    intro sl
    simp [accIf, sliceAgg, sliceMeans, aggFn, Agg.apply]
  unfold obsfcstFigure obsfcstSeries obsfcstBands
  simp only [hs, Bool.false_eq_true, if_false]

/-- ObsFcst with `-agg` / `-acc`: the OBSERVATION line, like every forecast and quantile line, is the aggregate
chosen with -agg of the values of each slice, accumulated under -acc; first the observation line, then one group
per input in input order -/
theorem C16_def_obsfcst_agg (T : Tr) (a : Agg) (acc : Bool) (ax : Vec) (obs0 : List Vec)
    (ins : List (List Vec × List (String × List Vec))) :
    ∃ draw : Nat → (List Vec × List (String × List Vec)) → List Series,
      obsfcstFigure T a acc false ax obs0 ins =
        { ax := 0, kind := "line", label := "Observed", xs := ax, ys := accIf acc (obs0.map (aggFn T a)) } ::
          perInput draw ins ∧
      ∀ k i, (draw k i).head? =
        some { ax := 0, kind := "line", label := inName k, xs := ax, ys := accIf acc (i.1.map (aggFn T a)) } :=
  ⟨_, rfl, fun _ _ => rfl⟩

/-! ### non-vacuity -/

def idTr' : Tr := ⟨id, id, id, id⟩

/-- two thresholds, -x threshold: two points, each the ETS of its own threshold (1/3 and −1/7), not their mean -/
example :
    column idTr' "ets" .mean .threshold 2
      (getIntervals .above (some [fin 0, fin 1]))
      [[([fin 1, fin 0, fin 2, fin 0], [fin 1, fin 0, fin 1, fin 2], [])],
       [([fin 1, fin 0, fin 2, fin 0], [fin 1, fin 0, fin 1, fin 2], [])]] = some [fin (1/3), fin (-1/7)] := by
  decide +kernel

/-- the same cells on a data axis with one slice: the mean of the two scores -/
example :
    column idTr' "ets" .mean .data 1
      (getIntervals .above (some [fin 0, fin 1]))
      [[([fin 1, fin 0, fin 2, fin 0], [fin 1, fin 0, fin 1, fin 2], [])],
       [([fin 1, fin 0, fin 2, fin 0], [fin 1, fin 0, fin 1, fin 2], [])]] = some [fin (2/21)] := by
  decide +kernel

example : abcd (intervalOf .above (fin 0) (fin 0)) (intervalOf .above (fin 0) (fin 0))
    [fin 1, fin 0, fin 2, fin 0] [fin 1, fin 0, fin 1, fin 2] = some ⟨2, 1, 0, 1⟩ := by decide +kernel

example : (standardFigure .no [fin 0] [[fin 1], [fin 2]]).map (·.ys) = [[fin 1, fin 2]] := by decide +kernel

end VerifModel.C16
