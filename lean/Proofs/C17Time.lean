import VerifModel.Model.FigProps
import VerifModel.Spec.TimeAxis
import Proofs.C11Calendar
/-
  C17 — date axes: `-xlim` / `-xticks` on a plot kind whose x-axis shows dates.

  Model: `PlotKinds.dateToDatenum` (mirror of `verif.util.date_to_datenum`: split YYYYMMDD with
  `int(date / 10000)`, `int(date / 100 % 100)`, `int(date % 100)`, `datetime.datetime(y, m, d)`,
  `matplotlib.dates.date2num` = days since 1970-01-01) applied to every value by `_adjust_axis` when
  `self.axis.is_time_like` (`FigProps.axisValue`).
  Spec: `Spec.TimeAxis.IsAxisDay` — the date lies as many days from 1970-01-01 as the textbook calendar
  says (`Spec.Cal.addDays`, iterating "the day after").

  Proved (for EVERY valid calendar date 1900-01-01 … 2100-12-31, no sampling; the calendar arithmetic
  rests on the kernel walk over these 73 414 days in Proofs/C11Calendar.lean):
    * C17_time_axis    — `dateToDatenum` of the date's YYYYMMDD number is its axis position.
    * C17_time_values  — the same for a whole list of dates (the ticks).
    * C17_time_limits  — for a pair of dates: the two x-limits that reach the axis are the axis positions of the
                         two dates; so the limits land at those dates.
    * C17_time_kinds   — the model converts dates on exactly the plot kinds whose x-axis shows dates
                         (`Spec.Appearance.dateAxis`: `-x time`, time series, meteogram), from the regenerated
                         tables (the class's axis and `is_time_like`).
  Tied by correspondence on the live figure (streams fig.single / fig.core / fig.props, kinds `time`,
  `timeseries`, `meteo`): that matplotlib's date numbers count days from 1970-01-01 (its default epoch in the
  installed version) and that the plotted points sit at the date numbers of their times — the oracle
  measures the limits against the plotted data.
-/
namespace VerifModel.C17Time
open VerifModel.Calendar VerifModel.Spec.Cal VerifModel.Spec.TimeAxis VerifModel.PlotKinds VerifModel.C11Cal

/-- `addDays ⟨y, m, 1⟩ k` stays in the month while the month has days left -/
private theorem addDays_in_month (y m k : Nat) (h : 1 + k ≤ daysInMonth y m) :
    addDays ⟨y, m, 1⟩ k = ⟨y, m, 1 + k⟩ := by
  induction k with
  | zero => rfl
  | succ k ih =>
    rw [addDays, ih (by omega)]
    have : 1 + k < daysInMonth y m := by omega
    simp only [nextDay, this, if_true]
    rw [Nat.add_assoc]

/-- a valid date of 1900 … 2100 is the `(daysOf c - lo)`-th day after 1900-01-01, by the textbook calendar -/
private theorem textbook_of_valid (c : Date) (h : inRange c) :
    lo ≤ daysOf c ∧ daysOf c < lo + count ∧ addDays ⟨1900, 1, 1⟩ (daysOf c - lo) = c := by
  obtain ⟨y, m, d⟩ := c
  obtain ⟨hv, hy0, hy1⟩ := h
  simp only [validDate, Bool.and_eq_true, decide_eq_true_eq] at hv
  obtain ⟨⟨⟨hm1, hm12⟩, hd1⟩, hdm⟩ := hv
  simp only at hy0 hy1 hm1 hm12 hd1 hdm
  have M := month_ok y m hy0 hy1 hm1 hm12
  have hz : daysOf ⟨y, m, d⟩ = daysFromCivil y m 1 + (d - 1) := by
    simp only [daysOf]; exact daysFromCivil_day y m d hd1
  have hlo := M.lo_le
  have hnext := M.next
  have hhi := M.hi_le
  have h0 : lo ≤ daysFromCivil y m 1 := hlo
  have h1 : daysFromCivil y m 1 < lo + count := by omega
  -- the first of the month is the textbook date of its day number
  have F := day_facts (daysFromCivil y m 1) h0 h1
  have hfirst : addDays ⟨1900, 1, 1⟩ (daysFromCivil y m 1 - lo) = ⟨y, m, 1⟩ := by
    have := F.textbook
    rw [M.civil] at this
    exact this.symm
  refine ⟨by omega, by omega, ?_⟩
  rw [hz, show daysFromCivil y m 1 + (d - 1) - lo = (daysFromCivil y m 1 - lo) + (d - 1) by omega,
    addDays_add, hfirst, addDays_in_month y m (d - 1) (by omega), show 1 + (d - 1) = d by omega]

/-- 1970-01-01 in the same terms -/
private theorem origin_textbook : lo ≤ epoch ∧ addDays ⟨1900, 1, 1⟩ (epoch - lo) = axisOrigin := by
  have h := textbook_of_valid ⟨1970, 1, 1⟩ ⟨by decide +kernel, Nat.le_of_ble_eq_true rfl, Nat.le_of_ble_eq_true rfl⟩
  have e : daysOf ⟨1970, 1, 1⟩ = epoch := days_1970
  rw [e] at h
  exact ⟨h.1, h.2.2⟩

/-- day numbers (from 0000-03-01) of valid dates are axis positions relative to the epoch's day number -/
private theorem isAxisDay_of_valid (c : Date) (h : inRange c) :
    IsAxisDay c ((daysOf c : Int) - (epoch : Int)) := by
  obtain ⟨h0, _, ht⟩ := textbook_of_valid c h
  obtain ⟨e0, et⟩ := origin_textbook
  by_cases hge : epoch ≤ daysOf c
  · left
    refine ⟨by omega, ?_⟩
    have : ((daysOf c : Int) - (epoch : Int)).toNat = daysOf c - epoch := by omega
    rw [this, ← et, ← addDays_add, show epoch - lo + (daysOf c - epoch) = daysOf c - lo by omega]
    exact ht
  · right
    refine ⟨by omega, ?_⟩
    have : (-((daysOf c : Int) - (epoch : Int))).toNat = epoch - daysOf c := by omega
    rw [this]
    have hadd := addDays_add ⟨1900, 1, 1⟩ (daysOf c - lo) (epoch - daysOf c)
    rw [ht, show daysOf c - lo + (epoch - daysOf c) = epoch - lo by omega, et] at hadd
    exact hadd.symm

/-- splitting the YYYYMMDD number of a valid date gives the date back, and `datetime` accepts it -/
private theorem split_ymd (c : Date) (h : inRange c) :
    c.toYmd / 10000 = c.y ∧ c.toYmd / 100 % 100 = c.m ∧ c.toYmd % 100 = c.d ∧ datetimeOk c.y c.m c.d = true := by
  obtain ⟨y, m, d⟩ := c
  obtain ⟨hv, hy0, hy1⟩ := h
  simp only [validDate, Bool.and_eq_true, decide_eq_true_eq] at hv
  obtain ⟨⟨⟨hm1, hm12⟩, hd1⟩, hdm⟩ := hv
  simp only at hy0 hy1 hm1 hm12 hd1 hdm
  have hd31 : d ≤ 31 := by
    have : daysInMonth y m ≤ 31 := by
      unfold daysInMonth
      split
      · split <;> omega
      · split <;> omega
    omega
  refine ⟨?_, ?_, ?_, ?_⟩
  · simp only [Date.toYmd]; omega
  · simp only [Date.toYmd]; omega
  · simp only [Date.toYmd]; omega
  · simp only [datetimeOk, Bool.and_eq_true, decide_eq_true_eq]
    refine ⟨⟨⟨⟨⟨by omega, by omega⟩, hm1⟩, hm12⟩, hd1⟩, ?_⟩
    have e : (if (m == 2) = true then (if PlotKinds.isLeap y = true then 29 else 28)
        else if (m == 4 || m == 6 || m == 9 || m == 11) = true then 30 else 31) = daysInMonth y m := by
      simp only [daysInMonth, PlotKinds.isLeap, Spec.Cal.isLeap]
      rfl
    rw [e]; exact hdm

/-- **C17_time_axis.**  For every valid calendar date of 1900 … 2100, the value that `date_to_datenum` computes
    from its YYYYMMDD number is the position of that date on a date axis. -/
theorem C17_time_axis (c : Date) (h : inRange c) :
    ∃ n, dateToDatenum c.toYmd = some n ∧ IsAxisDay c n := by
  obtain ⟨e1, e2, e3, e4⟩ := split_ymd c h
  refine ⟨(daysOf c : Int) - (epoch : Int), ?_, isAxisDay_of_valid c h⟩
  simp only [dateToDatenum, e1, e2, e3, e4, if_true, daysOf]

/-- **C17_time_values.**  The same for a list of dates (`-xticks`): every value that reaches the axis is the axis
    position of the corresponding date. -/
theorem C17_time_values (cs : List Date) (h : ∀ c ∈ cs, inRange c) :
    ∃ ns, datesToDatenums (cs.map Date.toYmd) = some ns ∧ AllAxisDays cs ns := by
  induction cs with
  | nil => exact ⟨[], rfl, trivial⟩
  | cons c cs ih =>
    obtain ⟨n, hn, hc⟩ := C17_time_axis c (h c List.mem_cons_self)
    obtain ⟨ns, hns, hcs⟩ := ih (fun x hx => h x (List.mem_cons_of_mem _ hx))
    refine ⟨n :: ns, ?_, hc, hcs⟩
    simp only [datesToDatenums] at hns
    simp [datesToDatenums, hn, hns]

/-- **C17_time_limits.**  `-xlim a,b` with two valid dates: the two x-limits that `_adjust_axis` hands to
    `ax.set_xlim` are the axis positions of the dates `a` and `b` — the limits land at those dates. -/
theorem C17_time_limits (a b : Date) (ha : inRange a) (hb : inRange b) :
    ∃ na nb, datesToDatenums [a.toYmd, b.toYmd] = some [na, nb] ∧ IsAxisDay a na ∧ IsAxisDay b nb := by
  obtain ⟨ns, hns, hf⟩ := C17_time_values [a, b] (by
    intro c hc
    simp only [List.mem_cons, List.not_mem_nil, or_false] at hc
    rcases hc with rfl | rfl <;> assumption)
  match ns, hf with
  | [na, nb], ⟨h1, h2, _⟩ => exact ⟨na, nb, hns, h1, h2⟩

/-- **C17_time_kinds.**  The model converts the x limits / ticks (through `date_to_datenum`) on exactly the plot
    kinds whose x-axis shows dates; on every other kind the values reach the axis as given. -/
theorem C17_time_kinds : ∀ k ∈ Spec.Appearance.kinds,
    convertsDates k.name = Spec.Appearance.dateAxis k.name := by decide +kernel

/-! ## Non-vacuity -/

/-- the hypotheses are satisfiable and the statement says something: 2012-01-01 is 15340 days after 1970-01-01,
    1969-12-31 one day before it, a leap day is a valid date -/
example : inRange ⟨2012, 2, 29⟩ := ⟨by decide, by decide, by decide⟩
example : dateToDatenum 20120101 = some 15340 ∧ dateToDatenum 19691231 = some (-1) ∧
    dateToDatenum 19000101 = some (-25567) ∧ dateToDatenum 21001231 = some 47846 := by decide +kernel
example : IsAxisDay ⟨1970, 1, 3⟩ 2 := Or.inl ⟨by decide, by decide⟩
example : IsAxisDay ⟨1969, 12, 30⟩ (-2) := Or.inr ⟨by decide, by decide⟩
/-- not a calendar date: `datetime` raises, the model says so -/
example : dateToDatenum 20120230 = none ∧ dateToDatenum 20110229 = none := by decide +kernel
/-- the time series and the meteogram convert, the lead-time plot does not -/
example : convertsDates "timeseries" = true ∧ convertsDates "meteo" = true ∧ convertsDates "mae" = false := by
  decide +kernel

end VerifModel.C17Time
