import Proofs.C07
import Proofs.C04
/-
  C07 — the two event evaluators (`util.apply_threshold` and `Interval.within` of the interval that
  `get_intervals` builds) on INFINITE values: the exact set of cases in which they differ, and the reason
  why no caller inside verif can observe the difference (C04: `Data.get_scores` hands out finite numbers only).
-/
namespace VerifModel.C07
open VerifModel XR

/-- what `C07_threshold_agrees` states for one (bin type, thresholds, value) -/
def Agrees (b : BinType) (t u : Rat) (x : XR) : Prop :=
  applyThreshold b (fin t) (some (fin u)) x =
    some (match (intervalOf b (fin t) (fin u)).within x with
          | none => nan
          | some v => boolToXR v)

/-- the four (bin type, infinite value) cases: the unbounded side of a below / above event -/
def InfCase (b : BinType) (x : XR) : Prop :=
  (x = ninf ∧ (b = .below ∨ b = .belowEq)) ∨ (x = pinf ∧ (b = .above ∨ b = .aboveEq))

/-- `util.apply_threshold` and `Interval.within` differ EXACTLY on −inf with `below` / `below=` and on +inf with
`above` / `above=` (for all finite thresholds): in these four cases thresholding says "event" (1), membership says
"no event" (the open end `lower = −inf` / `upper = +inf` of the interval is compared strictly); for every other
(bin type, thresholds, value) — finite, missing or infinite, all within types included — they agree. -/
theorem C07_inf_disagree (b : BinType) (t u : Rat) (x : XR) :
    (¬ Agrees b t u x ↔ InfCase b x) ∧
    (InfCase b x → applyThreshold b (fin t) (some (fin u)) x = some (fin 1) ∧
                   (intervalOf b (fin t) (fin u)).within x = some false) := by
  cases x with
  | nan => cases b <;> simp [Agrees, InfCase, applyThreshold, Interval.within, XR.isNan]
  | fin q =>
    refine ⟨?_, ?_⟩
    · have h : Agrees b t u (fin q) := C07_threshold_agrees b t u (fin q) rfl
      simp [InfCase, h]
    · simp [InfCase]
  | pinf =>
    cases b <;>
      simp [Agrees, InfCase, applyThreshold, intervalOf, Interval.within, Interval.withinVal, XR.isNan,
        XR.gt, XR.ge, XR.lt, XR.le, XR.eqb, boolToXR]
  | ninf =>
    cases b <;>
      simp [Agrees, InfCase, applyThreshold, intervalOf, Interval.within, Interval.withinVal, XR.isNan,
        XR.gt, XR.ge, XR.lt, XR.le, XR.eqb, boolToXR]

/-- non-vacuity: the four cases exist, and an infinite value outside them agrees -/
example : InfCase .below ninf ∧ InfCase .belowEq ninf ∧ InfCase .above pinf ∧ InfCase .aboveEq pinf
    ∧ ¬ InfCase .below pinf ∧ ¬ InfCase .within ninf ∧ Agrees .below 1 1 pinf ∧ ¬ Agrees .below 1 1 ninf := by
  refine ⟨Or.inl ⟨rfl, Or.inl rfl⟩, Or.inl ⟨rfl, Or.inr rfl⟩, Or.inr ⟨rfl, Or.inl rfl⟩, Or.inr ⟨rfl, Or.inr rfl⟩,
    by simp [InfCase], by simp [InfCase], ?_, ?_⟩
  · exact Classical.not_not.mp (fun h => by
      have := ((C07_inf_disagree .below 1 1 pinf).1.mp h); simp [InfCase] at this)
  · exact (C07_inf_disagree .below 1 1 ninf).1.mpr (Or.inl ⟨rfl, Or.inl rfl⟩)

/-- Every caller of `apply_threshold` / `Interval.within` inside verif takes its values from `Data.get_scores`
(output.py: eight call sites, all on arrays returned by `get_scores`; metric.py: `get_intervals(...).within` on the
same arrays).  By C04 (`C04_outputs_valid`: ±inf is missing, every value handed out is finite or the single-NaN
placeholder) none of the four disagreeing cases can reach them: on every value `get_scores` returns, for every
slicing axis, the two evaluators agree. -/
theorem C07_agree_behind_filter (sel : Sel) (hsel : sel ≠ .all) (n : Nat) (c : Vec) (cs : List Vec)
    (b : BinType) (t u : Rat) (x : XR) (hx : x ∈ (finish sel n (c :: cs)).headD []) :
    Agrees b t u x := by
  apply C07_threshold_agrees
  rcases C04.C04_outputs_valid sel hsel n c cs with h | h
  · rw [h] at hx
    cases n with
    | zero => simp at hx
    | succ n => simp [List.replicate_succ] at hx; subst hx; rfl
  · obtain ⟨q, hq⟩ := (C04.isValid_iff x).mp (h x hx)
    subst hq; rfl

end VerifModel.C07
