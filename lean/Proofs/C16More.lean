import VerifModel.Model.DiagramMore
import VerifModel.Spec.DiagramMore
import Proofs.C16
/-
  C16, second part — DRoc / DRoc0, Against, Change, IgnContrib, EconomicValue, Murphy draw the quantities their
  definitions prescribe.
  Model = VerifModel/Model/DiagramMore.lean (what output.py computes for the drawn series),
  Spec  = VerifModel/Spec/DiagramMore.lean (the defining statistics, on rational samples).
  Property theorems only (helper lemmas are private; those that Proofs/C16.lean keeps private are repeated here).
-/
namespace VerifModel.C16
open VerifModel XR
open VerifModel.Diagram
open VerifModel.Spec
open VerifModel.Spec.Diagram (Conv edgePairsL edgePairsF inBin binCount binCountF StrictInc lastOf)
set_option linter.unusedSimpArgs false
set_option linter.unusedVariables false

/-! ## 0. helpers -/

private theorem foldl_add_fin' (v : List Rat) (a : Rat) :
    List.foldl (· + ·) (fin a) (List.map fin v) = fin (a + Stats.sum v) := by
  induction v generalizing a with
  | nil => simp [Stats.sum]
  | cons x xs ih =>
    simp only [List.map_cons, List.foldl_cons, fin_add, ih, Stats.sum]
    congr 1; ring

private theorem sum_fin' (v : List Rat) : Vec.sum (List.map fin v) = fin (Stats.sum v) := by
  unfold Vec.sum
  rw [foldl_add_fin']; simp

private theorem mean_fin' (v : List Rat) : Vec.mean (List.map fin v) = toXR (Stats.mean v) := by
  unfold Vec.mean Stats.mean Vec.sum Vec.len
  rw [foldl_add_fin']
  by_cases h : v.length = 0
  · have : v = [] := List.length_eq_zero_iff.mp h
    subst this
    simp [toXR, Cont.toXR, Stats.sum, fin_div, infOfSign, XR.ofNat]
  · have h' : (v.length : Rat) ≠ 0 := by exact_mod_cast h
    simp [h, toXR, Cont.toXR, XR.ofNat, fin_div_ne _ _ h']

private theorem boolMean' (l : List Bool) :
    Vec.mean (l.map fun b => fin (if b then 1 else 0)) = toXR (Diagram.freq l) := by
  have : (l.map fun b => fin (if b then (1 : Rat) else 0)) = (l.map fun b => if b then (1 : Rat) else 0).map fin := by
    simp [List.map_map, Function.comp_def]
  rw [this, mean_fin']; rfl

private theorem histPairs_fin' (edges : List Rat) :
    histPairs (edges.map fin) = (edgePairsL edges).map fun e => (fin e.1, fin e.2.1, e.2.2) := by
  induction edges with
  | nil => rfl
  | cons a rest ih =>
    cases rest with
    | nil => rfl
    | cons b rest =>
      cases rest with
      | nil => rfl
      | cons c rest => simpa [histPairs, edgePairsL] using ih

private theorem memHist_fin' (e : Rat × Rat × Bool) (x : Rat) :
    memHist (fin e.1, fin e.2.1, e.2.2) (fin x) = inBin .hist e x := by
  rcases e with ⟨lo, hi, l⟩
  cases l <;> simp [memHist, inBin, XR.ge, XR.le, XR.lt, Bool.decide_and] <;> grind

private theorem memOCF_fin' (e : Rat × Rat × Bool) (x : Rat) :
    memOCF (fin e.1, fin e.2.1, e.2.2) (fin x) = inBin .ocf e x := by
  rcases e with ⟨lo, hi, l⟩
  cases l <;> simp [memOCF, inBin, XR.ge, XR.gt, XR.le, XR.lt, Bool.decide_and] <;> grind

private theorem firstPairs_fin' (edges : List Rat) :
    firstPairs (edges.map fin) = (edgePairsF edges).map fun e => (fin e.1, fin e.2.1, e.2.2) := by
  cases edges with
  | nil => rfl
  | cons a rest =>
    cases rest with
    | nil => rfl
    | cons b rest =>
      have h := histPairs_fin' (b :: rest)
      simp only [List.map_cons] at h
      simp only [List.map_cons, firstPairs, edgePairsF, h, List.map_map, Function.comp_def]

private theorem binsLast_emb' {α β : Type} (emb : α → β) (keyX : β → XR) (k : α → Rat)
    (hk : ∀ a, keyX (emb a) = fin (k a)) (edges : List Rat) (cs : List α) :
    binsLast (edges.map fin) keyX (cs.map emb) = (Diagram.bins .hist edges k cs).map (List.map emb) := by
  unfold binsLast Diagram.bins
  rw [histPairs_fin', List.map_map, List.map_map]
  apply List.map_congr_left
  intro e _
  simp only [Function.comp_def, List.filter_map]
  congr 1
  apply List.filter_congr
  intro a _
  simp [hk, memHist_fin']

private theorem binsFirst_emb' {α β : Type} (emb : α → β) (keyX : β → XR) (k : α → Rat)
    (hk : ∀ a, keyX (emb a) = fin (k a)) (edges : List Rat) (cs : List α) :
    binsFirst (edges.map fin) keyX (cs.map emb) = (Diagram.binsF .ocf edges k cs).map (List.map emb) := by
  unfold binsFirst Diagram.binsF
  rw [firstPairs_fin', List.map_map, List.map_map]
  apply List.map_congr_left
  intro e _
  simp only [Function.comp_def, List.filter_map]
  congr 1
  apply List.filter_congr
  intro a _
  simp [hk, memOCF_fin']

private theorem withinVal_fin' (b : BinType) (t u x : Rat) :
    (intervalOf b (fin t) (fin u)).withinVal (fin x) = decide (Spec.event b t u x) := by
  have := C07.C07_within_denotes b t u x
  simpa [Interval.within, XR.isNan] using this

private theorem ofNat_div' (n d : Nat) (hd : 0 < d) : XR.ofNat n / XR.ofNat d = fin ((n : Rat) / (d : Rat)) := by
  have : ((d : Nat) : Rat) ≠ 0 := by exact_mod_cast hd.ne'
  simp [XR.ofNat, fin_div_ne _ _ this]

private theorem filter_notnan_fin' (v : List Rat) : (List.map fin v).filter (fun x => !x.isNan) = List.map fin v := by
  induction v with
  | nil => rfl
  | cons x xs ih => simp [List.filter_cons, ih]

private theorem nanmean_fin' (v : List Rat) : Vec.nanmean (List.map fin v) = toXR (Stats.mean v) := by
  unfold Vec.nanmean
  rw [filter_notnan_fin', mean_fin']

/-! ## 1. Deterministic ROC (DRoc, DRoc0) -/

private theorem validPairs_fin (cs : List (Rat × Rat)) :
    validPairs (cs.map fun c => fin c.1) (cs.map fun c => fin c.2) = cs.map fun c => (fin c.1, fin c.2) := by
  unfold validPairs
  have hz : (cs.map fun c => fin c.1).zip (cs.map fun c => fin c.2) = cs.map fun c => (fin c.1, fin c.2) := by
    induction cs with
    | nil => rfl
    | cons c cs ih => simp [ih]
  rw [hz]
  apply List.filter_eq_self.mpr
  intro p hp
  obtain ⟨q, _, rfl⟩ := List.mem_map.mp hp
  simp

private theorem abcd_fin (b : BinType) (t ft : Rat) (cs : List (Rat × Rat)) (hne : cs ≠ []) :
    abcd (intervalOf b (fin t) (fin t)) (intervalOf b (fin ft) (fin ft)) (cs.map fun c => fin c.1) (cs.map fun c => fin c.2) =
      some ⟨(Diagram.detTable b t ft cs).1, (Diagram.detTable b t ft cs).2.1, (Diagram.detTable b t ft cs).2.2.1,
        (Diagram.detTable b t ft cs).2.2.2⟩ := by
  unfold abcd
  rw [validPairs_fin]
  have h1 : (cs.map fun c => fin c.2).isEmpty = false := by cases cs <;> simp_all
  have h2 : (cs.map fun c => ((fin c.1, fin c.2) : XR × XR)).isEmpty = false := by cases cs <;> simp_all
  simp only [h1, h2, Bool.false_eq_true, if_false, List.countP_map, Function.comp_def, withinVal_fin', Diagram.detTable]

/-- One point of the deterministic ROC: (false alarm rate, hit rate) of the 2×2 table in which the event is forecast
iff the forecast lies in the -b event of the forecast threshold and observed iff the observation lies in the -b event
of the observation threshold; NaN where the rate is undefined (no non-events / no events, or no case at all). -/
theorem C16_def_droc_point (T : Tr) (b : BinType) (t ft : Rat) (cs : List (Rat × Rat)) :
    drocPoint T (intervalOf b (fin t) (fin t)) (intervalOf b (fin ft) (fin ft)) (cs.map fun c => fin c.1) (cs.map fun c => fin c.2) =
      (toXR (Diagram.detRocPoint b t ft cs).1, toXR (Diagram.detRocPoint b t ft cs).2) := by
  by_cases hne : cs = []
  · subst hne
    have e1 : Gen.Cont.eval T "fa" nan nan nan nan = some (Gen.Cont.m_fa T nan nan nan nan) := rfl
    have e2 : Gen.Cont.eval T "hit" nan nan nan nan = some (Gen.Cont.m_hit T nan nan nan nan) := rfl
    simp [drocPoint, contScore, abcd, e1, e2, Diagram.detRocPoint, Diagram.detTable, Cont.fa, Cont.hit, Cont.F, Cont.H,
      Cont.sdiv, toXR, Cont.toXR]
  · have hab := abcd_fin b t ft cs hne
    have hN : 0 < (Diagram.detTable b t ft cs).1 + (Diagram.detTable b t ft cs).2.1 + (Diagram.detTable b t ft cs).2.2.1 +
        (Diagram.detTable b t ft cs).2.2.2 := C06.C06_total_pos _ _ _ _ _ hab
    unfold drocPoint contScore Diagram.detRocPoint
    rw [hab]
    generalize Diagram.detTable b t ft cs = tb at hN ⊢
    have e1 : Gen.Cont.eval T "fa" (XR.ofNat tb.1) (XR.ofNat tb.2.1) (XR.ofNat tb.2.2.1) (XR.ofNat tb.2.2.2) =
        some (Gen.Cont.m_fa T (fin tb.1) (fin tb.2.1) (fin tb.2.2.1) (fin tb.2.2.2)) := rfl
    have e2 : Gen.Cont.eval T "hit" (XR.ofNat tb.1) (XR.ofNat tb.2.1) (XR.ofNat tb.2.2.1) (XR.ofNat tb.2.2.2) =
        some (Gen.Cont.m_hit T (fin tb.1) (fin tb.2.1) (fin tb.2.2.1) (fin tb.2.2.2)) := rfl
    simp only [e1, e2, Option.map_some, Option.getD_some, GenEq.Cont.fa_eq T _ _ _ _ hN, GenEq.Cont.hit_eq T _ _ _ _ hN]
    refine Prod.ext ?_ ?_
    · cases Cont.fa tb.2.1 tb.2.2.2 <;> simp [Cont.toXR, toXR, XR.isInf]
    · cases Cont.hit tb.1 tb.2.2.1 <;> simp [Cont.toXR, toXR, XR.isInf]

/-- DRoc: the curve of one input starts at (1,1), has one point (false alarm rate, hit rate) per forecast threshold in
the order of the thresholds, and ends at (0,0) (-b below/below=/above/above=). -/
theorem C16_def_droc (T : Tr) (b : BinType) (hb : b.isWithin = false) (t : Rat) (fts : List Rat) (cs : List (Rat × Rat)) :
    drocSeries T b (fin t) (fts.map fin) (cs.map fun c => fin c.1) (cs.map fun c => fin c.2) =
      some ((Diagram.detRoc b t fts cs).map (fun p => toXR p.1), (Diagram.detRoc b t fts cs).map (fun p => toXR p.2)) := by
  unfold drocSeries drocCurve Diagram.detRoc
  simp only [getIntervals, hb, Bool.false_eq_true, if_false, List.map_cons, List.map_nil, List.head?_cons, Option.map_some,
    List.map_map, Function.comp_def, C16_def_droc_point, List.map_append, toXR, Cont.toXR]

/-- DRoc0: the single point with the observation threshold used for the forecast too. -/
theorem C16_def_droc0 (T : Tr) (b : BinType) (hb : b.isWithin = false) (t : Rat) (cs : List (Rat × Rat)) :
    drocSeries T b (fin t) [fin t] (cs.map fun c => fin c.1) (cs.map fun c => fin c.2) =
      some ([fin 1, toXR (Diagram.detRocPoint b t t cs).1, fin 0], [fin 1, toXR (Diagram.detRocPoint b t t cs).2, fin 0]) := by
  have := C16_def_droc T b hb t [t] cs
  simpa [Diagram.detRoc, toXR, Cont.toXR] using this

/-- DRoc's default forecast thresholds: 31 equally spaced values from t − 10 to t + 10. -/
theorem C16_droc_default_thresholds (t : Rat) :
    drocDefaultThresholds (fin t) = (Diagram.equallySpaced (t - 10) (t + 10) 31).map fin := by
  unfold drocDefaultThresholds Diagram.equallySpaced
  rw [List.map_map]
  apply List.map_congr_left
  intro i _
  simp only [Function.comp_def, fin_sub, fin_add]
  congr 1
  norm_num

/-- the end points (1,1) and (0,0) are always drawn -/
theorem C16_droc_endpoints (T : Tr) (I : Interval) (Js : List Interval) (obs fcst : Vec) :
    (drocCurve T I Js obs fcst).1.head? = some (fin 1) ∧ (drocCurve T I Js obs fcst).2.head? = some (fin 1) ∧
    (drocCurve T I Js obs fcst).1.getLast? = some (fin 0) ∧ (drocCurve T I Js obs fcst).2.getLast? = some (fin 0) := by
  simp [drocCurve, List.getLast?_cons, List.getLast?_append]

/-- not vacuous: observations 0, 1, 2, 3 with forecasts 1, 0, 3, 2, event "above 1", forecast threshold 1/2:
a = 2, b = 1, c = 0, d = 1 -/
example : Diagram.detRoc .above 1 [1/2] [(0, 1), (1, 0), (2, 3), (3, 2)] = [(some 1, some 1), (some (1/2), some 1), (some 0, some 0)] := by
  decide +kernel

/-! ## 2. Against -/

private theorem statsSum_eq' (v : List Rat) : Stats.sum v = v.sum := by
  induction v with
  | nil => rfl
  | cons x xs ih => simp [Stats.sum, ih]

/-- √(np.var) of exact values is the Spec's standard deviation -/
private theorem std_fin (T : Tr) (v : List Rat) (hne : v ≠ []) (σ : Rat) (hs : Stats.std T v = some σ) :
    T.sqrt (Vec.var (v.map fin)) = fin σ := by
  have hv := Vec.var_ofRats v hne
  rw [Vec.ofRats_map] at hv
  rw [hv]
  have hm : Stats.mean v = some (v.sum / v.length) := by
    simp [Stats.mean, statsSum_eq', List.length_eq_zero_iff, hne]
  unfold Stats.std Stats.variance at hs
  simp only [hm, Option.bind_eq_bind, Option.bind_some, Stats.mean, List.length_map, statsSum_eq',
    List.length_eq_zero_iff, hne, if_false, Option.map_some, Option.some.injEq] at hs
  have hvn : 0 ≤ ((v.map fun x => (x - v.sum / v.length) * (x - v.sum / v.length)).sum) / (v.length : Rat) := by
    apply div_nonneg
    · apply List.sum_nonneg
      intro x hx
      obtain ⟨a, _, rfl⟩ := List.mem_map.mp hx
      exact mul_self_nonneg _
    · positivity
  rw [Tr.sqrt_fin, if_neg (not_lt.mpr hvn), hs]

/-- a case (observation, forecast of input f0, forecast of input f1) as the model sees it -/
def emb3 (c : Rat × Rat × Rat) : XR × XR × XR := (fin c.1, fin c.2.1, fin c.2.2)

private theorem zip3_fin (cs : List (Rat × Rat × Rat)) :
    (cs.map fun c => fin c.1).zip ((cs.map fun c => fin c.2.1).zip (cs.map fun c => fin c.2.2)) = cs.map emb3 := by
  induction cs with
  | nil => rfl
  | cons c cs ih => simp [ih, emb3]

private theorem abs_fin (q : Rat) : XR.abs (fin q) = fin (Stats.absq q) := rfl

/-- Against, colour layers: with σ the standard deviation of the observations, the red points of layer k (k = 0..4) are
the cases where the first input's absolute error is smaller than the second's by more than k·σ/10, the blue points
those where the second input's is smaller by more than k·σ/10; layers in the order red 0, blue 0, red 1, … -/
theorem C16_def_against_layers (T : Tr) (cs : List (Rat × Rat × Rat)) (hne : cs ≠ []) (σ : Rat)
    (hs : Stats.std T (cs.map (·.1)) = some σ) :
    againstLevels T (cs.map emb3) = (Diagram.againstLayers σ cs).map (List.map emb3) := by
  unfold againstLevels Diagram.againstLayers
  have h1 : ((cs.map emb3).map (·.1)) = (cs.map (·.1)).map fin := by simp [emb3, List.map_map, Function.comp_def]
  rw [h1, std_fin T _ (by simpa using hne) σ hs, List.map_flatMap]
  apply List.flatMap_congr
  intro k _
  have h2 : (2 : Rat) ≠ 0 := by norm_num
  have h5 : ((5 : Nat) : Rat) ≠ 0 := by norm_num
  simp only [againstLevel, Diagram.betterBy, List.map_cons, List.map_nil, List.filter_map, XR.ofNat, fin_div_ne _ _ h2,
    fin_mul, fin_div_ne _ _ h5]
  congr 1
  · congr 1
    apply List.filter_congr
    intro c _
    simp only [Function.comp_def, emb3, fin_sub, abs_fin, fin_add, XR.gt, XR.lt, gt_iff_lt, decide_eq_decide]
    constructor <;> intro h <;> push_cast at h ⊢ <;> linarith
  · congr 2
    apply List.filter_congr
    intro c _
    simp only [Function.comp_def, emb3, fin_sub, abs_fin, fin_add, XR.gt, XR.lt, gt_iff_lt, decide_eq_decide]
    constructor <;> intro h <;> push_cast at h ⊢ <;> linarith

/-- a point set as drawn -/
def ptsSeries (ax : Nat) (xs ys : Vec) : Series := { ax := ax, kind := "line", label := "_", xs := xs, ys := ys }

/-- Against, one pair of inputs: the first series holds the forecast pairs of ALL cases with a forecast in both inputs
(`xa`, `ya`), the second the pairs of the cases that also have an observation, then the ten colour layers. -/
theorem C16_def_against (T : Tr) (ax : Nat) (xa ya : Vec) (cs : List (Rat × Rat × Rat)) (hne : cs ≠ []) (σ : Rat)
    (hs : Stats.std T (cs.map (·.1)) = some σ) :
    againstPair T ax xa ya (cs.map fun c => fin c.1) (cs.map fun c => fin c.2.1) (cs.map fun c => fin c.2.2) =
      ptsSeries ax xa ya :: ptsSeries ax (cs.map fun c => fin c.2.1) (cs.map fun c => fin c.2.2) ::
        (Diagram.againstLayers σ cs).map fun l => ptsSeries ax (l.map fun c => fin c.2.1) (l.map fun c => fin c.2.2) := by
  unfold againstPair
  rw [zip3_fin]
  simp only []
  rw [C16_def_against_layers T cs hne σ hs]
  simp only [ptsSeries, List.map_map, Function.comp_def, emb3]

/-- which pairs are drawn: with two inputs only (input 0, input 1); otherwise every ordered pair of different inputs -/
theorem C16_against_pairs (F : Nat) :
    againstPairs 2 = [(0, 1)] ∧
    (F ≠ 2 → ∀ p : Nat × Nat, p ∈ againstPairs F ↔ (p.1 < F ∧ p.2 < F ∧ p.1 ≠ p.2)) := by
  refine ⟨rfl, ?_⟩
  intro hF p
  simp only [againstPairs, hF, if_false, List.mem_flatMap, List.mem_range, List.mem_map, List.mem_filter, bne_iff_ne]
  constructor
  · rintro ⟨f0, h0, f1, ⟨h1, hne⟩, rfl⟩
    exact ⟨h0, h1, hne⟩
  · rintro ⟨h0, h1, hne⟩
    exact ⟨p.1, h0, p.2, ⟨h1, hne⟩, rfl⟩

/-- not vacuous: σ = 1 under the identity "square root" (variance 1), three cases -/
example : Stats.std idTr [0, 2, 0, 2] = some 1 ∧
    Diagram.betterBy (1/10) [(0, 0, 1), (2, 0, 2), (0, 1/2, 1/2)] = ([(0, 0, 1)], [(2, 0, 2)]) := by
  constructor <;> decide +kernel

/-! ## 3. Change -/

/-- Change, the drawn points: per bin (e_{i-1}, e_i] (the first one [e_0, e_1]) of the observation change the point
(mean change, mean absolute error) over the cases of the bin; NaN for an empty bin. -/
theorem C16_def_change (edges : List Rat) (cs : List (Rat × Rat)) :
    changeSeries (edges.map fin) (cs.map fun c => (fin c.1, fin c.2)) =
      ((Diagram.binsF .ocf edges (·.1) cs).map fun b => toXR (Diagram.changeBin b).1,
       (Diagram.binsF .ocf edges (·.1) cs).map fun b => toXR (Diagram.changeBin b).2) := by
  unfold changeSeries
  rw [binsFirst_emb' (fun c : Rat × Rat => (fin c.1, fin c.2)) (·.1) (·.1) (fun _ => rfl)]
  simp only [List.map_map, Function.comp_def, List.isEmpty_map]
  refine Prod.ext ?_ ?_
  · apply List.map_congr_left
    intro b _
    have : (b.map fun c => fin c.1) = (b.map (·.1)).map fin := by simp [List.map_map, Function.comp_def]
    simp only [Diagram.changeBin, this, nanmean_fin']
    cases b <;> simp [Stats.mean, toXR, Cont.toXR]
  · apply List.map_congr_left
    intro b _
    have : (b.map fun c => fin c.2) = (b.map (·.2)).map fin := by simp [List.map_map, Function.comp_def]
    simp only [Diagram.changeBin, this, nanmean_fin']
    cases b <;> simp [Stats.mean, toXR, Cont.toXR]

/-- the observation / forecast of a cell as the arrays of get_scores hold them: NaN where the cell is not valid -/
def obsX (c : Option (Rat × Rat)) : XR := toXR (c.map (·.1))
def fcstX (c : Option (Rat × Rat)) : XR := toXR (c.map (·.2))

private theorem le_nan (x : XR) : XR.le x nan = false := by cases x <;> rfl
private theorem lt_nan (x : XR) : XR.lt x nan = false := by cases x <;> rfl
private theorem nan_le (x : XR) : XR.le nan x = false := by cases x <;> rfl

private theorem memOCF_nan (e : XR × XR × Bool) : memOCF e nan = false := by
  simp [memOCF, nan_le]

/-- a case whose binned value is missing is in no bin -/
private theorem binsFirst_filter_nan {α : Type} (edges : List XR) (key : α → XR) (cs : List α) :
    binsFirst edges key (cs.filter fun c => !(key c).isNan) = binsFirst edges key cs := by
  unfold binsFirst
  apply List.map_congr_left
  intro e _
  rw [List.filter_filter]
  apply List.filter_congr
  intro c _
  cases h : key c <;> simp [XR.isNan, memOCF_nan]

private theorem changeRow (r r' : List (Option (Rat × Rat))) :
    ((Vec.sub (r'.map obsX) (r.map obsX)).zip (Vec.abs (Vec.sub (r'.map obsX) (r'.map fcstX)))).filter (fun c => !c.1.isNan) =
      ((List.zip r r').filterMap fun pc =>
        match pc.1, pc.2 with
        | some p, some c => some (c.1 - p.1, Stats.absq (c.1 - c.2))
        | _, _ => none).map fun c => (fin c.1, fin c.2) := by
  induction r generalizing r' with
  | nil => cases r' <;> simp [Vec.sub]
  | cons p r ih =>
    cases r' with
    | nil => simp [Vec.sub]
    | cons c r' =>
      have ih' := ih r'
      have e1 : Vec.sub ((c :: r').map obsX) ((p :: r).map obsX) =
          (obsX c - obsX p) :: Vec.sub (r'.map obsX) (r.map obsX) := rfl
      have e2 : Vec.abs (Vec.sub ((c :: r').map obsX) ((c :: r').map fcstX)) =
          XR.abs (obsX c - fcstX c) :: Vec.abs (Vec.sub (r'.map obsX) (r'.map fcstX)) := rfl
      rw [e1, e2, List.zip_cons_cons, List.filter_cons, ih', List.zip_cons_cons, List.filterMap_cons]
      cases p <;> cases c <;> simp [obsX, fcstX, toXR, Cont.toXR, XR.isNan, abs_fin]

private theorem changeCases_cons (r : List (Option (Rat × Rat))) (rs : List (List (Option (Rat × Rat)))) :
    (changeCases ((r :: rs).map (List.map obsX)) ((r :: rs).map (List.map fcstX))).filter (fun c => !c.1.isNan) =
      (Diagram.changePairs (r :: rs)).map fun c => (fin c.1, fin c.2) := by
  induction rs generalizing r with
  | nil => simp [changeCases, Diagram.changePairs]
  | cons r' rs ih =>
    have ih' := ih r'
    have e1 : changeCases ((r :: r' :: rs).map (List.map obsX)) ((r :: r' :: rs).map (List.map fcstX)) =
        ((Vec.sub (r'.map obsX) (r.map obsX)).zip (Vec.abs (Vec.sub (r'.map obsX) (r'.map fcstX)))) ++
          changeCases ((r' :: rs).map (List.map obsX)) ((r' :: rs).map (List.map fcstX)) := rfl
    have e2 : Diagram.changePairs (r :: r' :: rs) =
        ((List.zip r r').filterMap fun pc =>
          match pc.1, pc.2 with
          | some p, some c => some (c.1 - p.1, Stats.absq (c.1 - c.2))
          | _, _ => none) ++ Diagram.changePairs (r' :: rs) := rfl
    rw [e1, e2, List.filter_append, List.map_append, changeRow r r', ih']

/-- Change, the cases: `rows` = one row per forecast run, each cell a valid (observation, forecast) pair or nothing
(the arrays get_scores returns hold NaN in both fields there).  The cases the diagram bins — those with a defined
change — are exactly, in order, the (change of the observation from the previous run, absolute error of the current
run) of the cells that are valid in two consecutive runs. -/
theorem C16_changeCases (rows : List (List (Option (Rat × Rat)))) :
    (changeCases (rows.map (List.map obsX)) (rows.map (List.map fcstX))).filter (fun c => !c.1.isNan) =
      (Diagram.changePairs rows).map fun c => (fin c.1, fin c.2) := by
  cases rows with
  | nil => simp [changeCases, Diagram.changePairs]
  | cons r rs => exact changeCases_cons r rs

/-- Change, the whole curve of one input from the arrays: the statistics of the Spec's cases per Spec bin
(cells with a missing value contribute to no bin). -/
theorem C16_def_change_figure (edges : List Rat) (rows : List (List (Option (Rat × Rat)))) :
    changeSeries (edges.map fin) (changeCases (rows.map (List.map obsX)) (rows.map (List.map fcstX))) =
      ((Diagram.binsF .ocf edges (·.1) (Diagram.changePairs rows)).map fun b => toXR (Diagram.changeBin b).1,
       (Diagram.binsF .ocf edges (·.1) (Diagram.changePairs rows)).map fun b => toXR (Diagram.changeBin b).2) := by
  rw [← C16_def_change, ← C16_changeCases]
  unfold changeSeries
  rw [binsFirst_filter_nan]

/-- Change bins like SpreadSkill: (e_{i-1}, e_i] with the first bin closed on the left — EVERY case whose observation
change v satisfies first ≤ v ≤ last is in exactly one bin (full statement). -/
theorem C16_bins_partition_change (a b : Rat) (rest : List Rat) (h : StrictInc (a :: b :: rest))
    (cs : List (XR × XR)) (c : XR × XR) (hc : c ∈ cs) (v : Rat) (hv : c.1 = fin v)
    (hlo : a ≤ v) (hhi : v ≤ lastOf b rest) :
    ((binsFirst ((a :: b :: rest).map fin) (·.1) cs).filter fun bn => decide (c ∈ bn)).length = 1 :=
  C16_bins_partition_first (·.1) a b rest h cs c hc v hv hlo hhi

/-- Change: the bin counts add up to the number of cases (cells valid in two consecutive runs) whose observation
change lies in [first edge, last edge] — no case of the range is lost, none is counted twice. -/
theorem C16_counts_total_change (a b : Rat) (rest : List Rat) (h : StrictInc (a :: b :: rest))
    (rows : List (List (Option (Rat × Rat)))) :
    natSum ((binsFirst ((a :: b :: rest).map fin) (·.1)
        (changeCases (rows.map (List.map obsX)) (rows.map (List.map fcstX)))).map List.length) =
      ((Diagram.changePairs rows).filter fun c => decide (a ≤ c.1 ∧ c.1 ≤ lastOf b rest)).length := by
  rw [← binsFirst_filter_nan, C16_changeCases, ← C16_counts_total_first (fun c : Rat × Rat => c.1) a b rest h]
  unfold binsFirst
  simp only [List.map_map, Function.comp_def, List.filter_map, List.length_map]

/-- not vacuous: three runs of two cells; the second cell has no valid pair in the middle run -/
example : Diagram.changePairs [[some (1, 1), some (0, 2)], [some (3, 1), none], [some (2, 2), some (1, 1)]] =
    [(2, 2), (-1, 0)] := by decide +kernel

/-! ## 4. Murphy diagram -/

private theorem sum_ite_count {α : Type} (l : List α) (q : α → Bool) :
    Stats.sum (l.map fun c => if q c then (1 : Rat) else 0) = (l.countP q : Rat) := by
  induction l with
  | nil => simp [Stats.sum]
  | cons c l ih =>
    simp only [List.map_cons, Stats.sum, ih, List.countP_cons]
    cases q c <;> simp <;> ring

/-- np.mean of a boolean array over a non-empty sample is the relative frequency -/
private theorem meanBool_emb {α β : Type} (emb : α → β) (q : β → Bool) (q' : α → Bool) (hq : ∀ a, q (emb a) = q' a)
    (cs : List α) (hne : cs ≠ []) :
    meanBool (cs.map emb) q = fin ((cs.countP q' : Rat) / (cs.length : Rat)) := by
  unfold meanBool
  have : ((cs.map emb).map fun c => boolToXR (q c)) = (cs.map fun c => if q' c then (1 : Rat) else 0).map fin := by
    rw [List.map_map, List.map_map]
    apply List.map_congr_left
    intro a _
    simp only [Function.comp_def, hq, boolToXR]
    cases q' a <;> rfl
  rw [this, mean_fin']
  have hl : cs.length ≠ 0 := fun h => hne (List.length_eq_zero_iff.mp h)
  simp [Stats.mean, hl, sum_ite_count, toXR, Cont.toXR]

private theorem murphy_sum (θ : Rat) (cs : List (Bool × Rat)) :
    Stats.sum (cs.map (Diagram.elementaryScore θ)) =
      2 * θ * (cs.countP fun c => decide (θ < c.2) && !c.1) + 2 * (1 - θ) * (cs.countP fun c => decide (c.2 < θ) && c.1) +
        2 * θ * (1 - θ) * (cs.countP fun c => decide (c.2 = θ)) := by
  induction cs with
  | nil => simp [Stats.sum]
  | cons c cs ih =>
    simp only [List.map_cons, Stats.sum, ih, List.countP_cons]
    rcases c with ⟨o, p⟩
    rcases lt_trichotomy p θ with h | h | h
    · have h1 : ¬ θ < p := by linarith
      have h2 : ¬ p = θ := by linarith
      cases o <;> simp [Diagram.elementaryScore, h, h1, h2] <;> ring
    · subst h
      cases o <;> simp [Diagram.elementaryScore] <;> ring
    · have h1 : ¬ p < θ := by linarith
      have h2 : ¬ p = θ := by linarith
      cases o <;> simp [Diagram.elementaryScore, h, h1, h2] <;> ring

/-- Murphy diagram, one threshold θ: the plotted value is the mean over the cases of the elementary score of the event
probability (2θ for a non-event with p > θ, 2(1−θ) for an event with p < θ, 2θ(1−θ) for p = θ, 0 otherwise); NaN
without cases. -/
theorem C16_def_murphy_point (θ : Rat) (cs : List (Bool × Rat)) :
    murphyPoint (fin θ) (cs.map embRel) = toXR (Stats.mean (cs.map (Diagram.elementaryScore θ))) := by
  by_cases hne : cs = []
  · subst hne
    simp [murphyPoint, meanBool, Vec.mean, Vec.sum, Vec.len, XR.ofNat, fin_div, infOfSign, Stats.mean, toXR, Cont.toXR]
  · have hl : (cs.length : Rat) ≠ 0 := by
      have : cs.length ≠ 0 := fun h => hne (List.length_eq_zero_iff.mp h)
      exact_mod_cast this
    unfold murphyPoint
    rw [meanBool_emb embRel _ (fun c => decide (θ < c.2) && !c.1) (by
          intro a; rcases a with ⟨o, p⟩; cases o <;> simp [embRel, XR.gt, XR.lt]) cs hne,
      meanBool_emb embRel _ (fun c => decide (c.2 < θ) && c.1) (by
          intro a; rcases a with ⟨o, p⟩; cases o <;> simp [embRel, XR.lt]) cs hne,
      meanBool_emb embRel _ (fun c => decide (c.2 = θ)) (by
          intro a; rcases a with ⟨o, p⟩; simp [embRel]) cs hne]
    have hl' : cs.length ≠ 0 := fun h => hne (List.length_eq_zero_iff.mp h)
    simp only [fin_mul, fin_add, fin_sub, Stats.mean, List.length_map, hl', if_false, toXR, Cont.toXR, murphy_sum]
    congr 1
    field_simp
    ring

/-- Murphy diagram: one value per threshold 0, 1/20, …, 1, each the mean elementary score. -/
theorem C16_def_murphy (cs : List (Bool × Rat)) :
    murphyThresholds = (Diagram.equallySpaced 0 1 21).map fin ∧
    murphySeries (cs.map embRel) = (Diagram.murphy (Diagram.equallySpaced 0 1 21) cs).map toXR := by
  have hth : murphyThresholds = (Diagram.equallySpaced 0 1 21).map fin := by
    unfold murphyThresholds Diagram.equallySpaced
    rw [List.map_map]
    apply List.map_congr_left
    intro i _
    simp only [Function.comp_def]
    congr 1
    norm_num
    ring
  refine ⟨hth, ?_⟩
  unfold murphySeries Diagram.murphy
  rw [hth, List.map_map, List.map_map]
  apply List.map_congr_left
  intro θ _
  simp only [Function.comp_def, C16_def_murphy_point]

/-- not vacuous: θ = 1/2; a non-event given 3/4 scores 1, an event given 1/4 scores 1, a tie 1/2, a good forecast 0 -/
example : Diagram.murphy [1/2] [(false, 3/4), (true, 1/4), (true, 1/2), (true, 1)] = [some (5/8)] := by decide +kernel

/-! ## 5. Economic value -/

private theorem countP_split {α : Type} (l : List α) (p q : α → Bool) :
    l.countP q = l.countP (fun c => p c && q c) + l.countP (fun c => !p c && q c) := by
  induction l with
  | nil => rfl
  | cons c l ih =>
    simp only [List.countP_cons, ih]
    cases p c <;> cases q c <;> simp <;> omega

private theorem countP_total {α : Type} (l : List α) (p : α → Bool) :
    l.length = l.countP p + l.countP (fun c => !p c) := by
  induction l with
  | nil => rfl
  | cons c l ih =>
    simp only [List.countP_cons, List.length_cons, ih]
    cases p c <;> simp <;> omega

/-- the four cells of the table of the forecast "act iff p ≥ α" -/
def evA (α : Rat) (cs : List (Bool × Rat)) : Nat := cs.countP fun c => decide (α ≤ c.2) && c.1
def evB (α : Rat) (cs : List (Bool × Rat)) : Nat := cs.countP fun c => decide (α ≤ c.2) && !c.1
def evC (α : Rat) (cs : List (Bool × Rat)) : Nat := cs.countP fun c => !decide (α ≤ c.2) && c.1
def evD (α : Rat) (cs : List (Bool × Rat)) : Nat := cs.countP fun c => !decide (α ≤ c.2) && !c.1

private theorem ev_counts (α : Rat) (cs : List (Bool × Rat)) :
    cs.countP (fun c => decide (α ≤ c.2)) = evA α cs + evB α cs ∧
    cs.countP (fun c => c.1) = evA α cs + evC α cs ∧
    cs.length = evA α cs + evB α cs + evC α cs + evD α cs := by
  have h1 := countP_split cs (fun c => c.1) (fun c => decide (α ≤ c.2))
  have h2 := countP_split cs (fun c => decide (α ≤ c.2)) (fun c => c.1)
  have h3 := countP_split cs (fun c => c.1) (fun c => !decide (α ≤ c.2))
  have h4 := countP_total cs (fun c => decide (α ≤ c.2))
  have e1 : cs.countP (fun c => c.1 && decide (α ≤ c.2)) = evA α cs := by
    unfold evA; congr 1; funext c; exact Bool.and_comm _ _
  have e2 : cs.countP (fun c => !c.1 && decide (α ≤ c.2)) = evB α cs := by
    unfold evB; congr 1; funext c; exact Bool.and_comm _ _
  have e3 : cs.countP (fun c => c.1 && !decide (α ≤ c.2)) = evC α cs := by
    unfold evC; congr 1; funext c; exact Bool.and_comm _ _
  have e4 : cs.countP (fun c => !c.1 && !decide (α ≤ c.2)) = evD α cs := by
    unfold evD; congr 1; funext c; exact Bool.and_comm _ _
  simp only [e1, e2, e3, e4] at h1 h3
  have h2' : cs.countP (fun c => c.1) = evA α cs + evC α cs := h2
  refine ⟨h1, h2', ?_⟩
  omega

/-- the model's value written with the four cells -/
private theorem economicValuePoint_fin (α : Rat) (cs : List (Bool × Rat)) (hne : cs ≠ []) :
    economicValuePoint (fin α) (cs.map embRel) =
      (let n : Rat := cs.length
       let s : Rat := ((evA α cs : Rat) + evC α cs) / n
       let total : Rat := (α * ((evA α cs : Rat) + evB α cs) + evC α cs) / n
       if Diagram.minQ s α = s * α then fin 0 else fin ((Diagram.minQ s α - total) / (Diagram.minQ s α - s * α))) := by
  have hl' : cs.length ≠ 0 := fun h => hne (List.length_eq_zero_iff.mp h)
  have hl : (cs.length : Rat) ≠ 0 := by exact_mod_cast hl'
  obtain ⟨hc1, hc2, _⟩ := ev_counts α cs
  unfold economicValuePoint
  have hcost : (cs.map embRel).countP (fun x => XR.ge x.2 (fin α)) = evA α cs + evB α cs := by
    rw [List.countP_map, ← hc1]
    congr 1
  have hloss : (cs.map embRel).countP (fun x => XR.lt x.2 (fin α) && XR.eqb x.1 (fin 1)) = evC α cs := by
    rw [List.countP_map]
    unfold evC
    congr 1; funext c
    rcases c with ⟨o, p⟩
    cases o <;> simp [embRel, XR.lt, ← not_le]
  have hclim : Vec.mean ((cs.map embRel).map (·.1)) = fin (((evA α cs : Rat) + evC α cs) / cs.length) := by
    have : ((cs.map embRel).map (·.1)) = (cs.map fun c => if c.1 then (1 : Rat) else 0).map fin := by
      simp [embRel, List.map_map, Function.comp_def]
    rw [this, mean_fin']
    simp [Stats.mean, hl', sum_ite_count, toXR, Cont.toXR, hc2]
  rw [hcost, hloss, hclim]
  simp only [List.length_map, XR.ofNat, fin_mul, fin_add, fin_div_ne _ _ hl, XR.min, XR.lt, fin_sub,
    eqb_fin, Diagram.minQ]
  push_cast
  by_cases hlt : α < ((evA α cs : Rat) + evC α cs) / cs.length
  · simp only [hlt, decide_true, if_true, fin_sub, eqb_fin]
    by_cases he : α = ((evA α cs : Rat) + evC α cs) / cs.length * α
    · simp [← he]
    · have hd : α - ((evA α cs : Rat) + evC α cs) / cs.length * α ≠ 0 := fun h => he (by linarith)
      simp [he, fin_div_ne _ _ hd]
  · simp only [hlt, decide_false, Bool.false_eq_true, if_false, fin_sub, eqb_fin]
    by_cases he : ((evA α cs : Rat) + evC α cs) / cs.length = ((evA α cs : Rat) + evC α cs) / cs.length * α
    · simp [← he]
    · have hd : ((evA α cs : Rat) + evC α cs) / cs.length - ((evA α cs : Rat) + evC α cs) / cs.length * α ≠ 0 :=
        fun h => he (by linarith)
      simp [he, fin_div_ne _ _ hd]

/-- Economic value at cost-loss ratio α: where the relative value (E_clim − E_f)/(E_clim − E_perf) of the forecast
"act iff p ≥ α" is defined (events and non-events both occur, E_clim ≠ E_perf), the diagram draws it — written with hit
rate, false alarm rate and base rate as in Wilks / Richardson. -/
theorem C16_def_economicvalue (α : Rat) (cs : List (Bool × Rat)) (v : Rat) (hv : Diagram.economicValue α cs = some v) :
    economicValuePoint (fin α) (cs.map embRel) = fin v := by
  have hne : cs ≠ [] := by
    intro h; subst h
    simp [Diagram.economicValue, Cont.hit, Cont.H, Cont.sdiv] at hv
  rw [economicValuePoint_fin α cs hne]
  obtain ⟨_, _, hn⟩ := ev_counts α cs
  have hnq : (cs.length : Rat) = (evA α cs : Rat) + evB α cs + evC α cs + evD α cs := by exact_mod_cast hn
  unfold Diagram.economicValue at hv
  simp only [Cont.hit, Cont.H, Cont.fa, Cont.F, Cont.baserate, Cont.N, Cont.sdiv] at hv
  change (match (if ((evA α cs : Rat) + evC α cs) = 0 then none else some ((evA α cs : Rat) / ((evA α cs : Rat) + evC α cs))),
      (if ((evB α cs : Rat) + evD α cs) = 0 then none else some ((evB α cs : Rat) / ((evB α cs : Rat) + evD α cs))),
      (if ((evA α cs : Rat) + evB α cs + evC α cs + evD α cs) = 0 then none
        else some (((evA α cs : Rat) + evC α cs) / ((evA α cs : Rat) + evB α cs + evC α cs + evD α cs))) with
    | some H, some F, some s => Diagram.valueScore α H F s
    | _, _, _ => none) = some v at hv
  by_cases h1 : ((evA α cs : Rat) + evC α cs) = 0
  · simp [h1] at hv
  by_cases h2 : ((evB α cs : Rat) + evD α cs) = 0
  · simp [h1, h2] at hv
  by_cases h3 : ((evA α cs : Rat) + evB α cs + evC α cs + evD α cs) = 0
  · simp [h1, h2, h3] at hv
  simp only [h1, h2, h3, if_false, Diagram.valueScore, Cont.sdiv] at hv
  simp only [hnq]
  split at hv
  · simp at hv
  · rename_i hden
    simp only [Option.some.injEq] at hv
    rw [if_neg (fun h => hden (sub_eq_zero.mpr h)), ← hv]
    congr 2
    field_simp
    ring

/-- … and where it is not defined (no event or no non-event among the cases, or E_clim = E_perf: α = 0, α = 1) the
diagram draws 0, for every cost-loss ratio in [0, 1]. -/
theorem C16_economicvalue_degenerate (α : Rat) (h0 : 0 ≤ α) (h1 : α ≤ 1) (cs : List (Bool × Rat)) (hne : cs ≠ [])
    (hv : Diagram.economicValue α cs = none) :
    economicValuePoint (fin α) (cs.map embRel) = fin 0 := by
  rw [economicValuePoint_fin α cs hne]
  obtain ⟨_, _, hn⟩ := ev_counts α cs
  have hnq : (cs.length : Rat) = (evA α cs : Rat) + evB α cs + evC α cs + evD α cs := by exact_mod_cast hn
  have hl : (cs.length : Rat) ≠ 0 := by
    have : cs.length ≠ 0 := fun h => hne (List.length_eq_zero_iff.mp h)
    exact_mod_cast this
  have hA : (0 : Rat) ≤ evA α cs := Nat.cast_nonneg _
  have hB : (0 : Rat) ≤ evB α cs := Nat.cast_nonneg _
  have hC : (0 : Rat) ≤ evC α cs := Nat.cast_nonneg _
  have hD : (0 : Rat) ≤ evD α cs := Nat.cast_nonneg _
  unfold Diagram.economicValue at hv
  simp only [Cont.hit, Cont.H, Cont.fa, Cont.F, Cont.baserate, Cont.N, Cont.sdiv] at hv
  change (match (if ((evA α cs : Rat) + evC α cs) = 0 then none else some ((evA α cs : Rat) / ((evA α cs : Rat) + evC α cs))),
      (if ((evB α cs : Rat) + evD α cs) = 0 then none else some ((evB α cs : Rat) / ((evB α cs : Rat) + evD α cs))),
      (if ((evA α cs : Rat) + evB α cs + evC α cs + evD α cs) = 0 then none
        else some (((evA α cs : Rat) + evC α cs) / ((evA α cs : Rat) + evB α cs + evC α cs + evD α cs))) with
    | some H, some F, some s => Diagram.valueScore α H F s
    | _, _, _ => none) = none at hv
  simp only []
  by_cases c1 : ((evA α cs : Rat) + evC α cs) = 0
  · -- no event: base rate 0
    have : Diagram.minQ (((evA α cs : Rat) + evC α cs) / cs.length) α = ((evA α cs : Rat) + evC α cs) / cs.length * α := by
      rw [c1]; simp [Diagram.minQ]; intro h; linarith
    rw [if_pos this]
  by_cases c2 : ((evB α cs : Rat) + evD α cs) = 0
  · -- no non-event: base rate 1
    have hs : ((evA α cs : Rat) + evC α cs) / cs.length = 1 := by
      rw [hnq, div_eq_one_iff_eq (by rw [← hnq]; exact hl)]; linarith
    have : Diagram.minQ (((evA α cs : Rat) + evC α cs) / cs.length) α = ((evA α cs : Rat) + evC α cs) / cs.length * α := by
      rw [hs]; simp only [Diagram.minQ, one_mul]; split
      · rfl
      · linarith
    rw [if_pos this]
  have c3 : ¬ ((evA α cs : Rat) + evB α cs + evC α cs + evD α cs) = 0 := by rw [← hnq]; exact hl
  simp only [c1, c2, c3, if_false, Diagram.valueScore, Cont.sdiv] at hv
  split at hv
  · rename_i hden
    rw [hnq, if_pos (sub_eq_zero.mp hden)]
  · simp at hv

/-- the cost-loss ratios drawn: (i/20)³, i = 0..20 — all in [0, 1] -/
theorem C16_economicvalue_ratios :
    costLossRatios = ((Diagram.equallySpaced 0 1 21).map fun x => fin (x ^ 3)) ∧
    ∀ x ∈ Diagram.equallySpaced 0 1 21, 0 ≤ x ^ 3 ∧ x ^ 3 ≤ 1 := by
  constructor
  · unfold costLossRatios Diagram.equallySpaced
    rw [List.map_map]
    apply List.map_congr_left
    intro i _
    simp only [Function.comp_def]
    congr 1
    norm_num
    ring
  · decide +kernel

/-- not vacuous: α = 1/2, cases (event, p): hits 1, false alarms 1, misses 1, correct rejections 1:
H = F = s = 1/2, value 0 (no better than climatology); with H = 2/3, F = 0, s = 3/5: (1/2 − 2/5)/(1/2 − 3/10) = 1/2 -/
example : Diagram.economicValue (1/2) [(true, 3/4), (false, 3/4), (true, 1/4), (false, 1/4)] = some 0 ∧
    Diagram.economicValue (1/2) [(true, 3/4), (true, 3/4), (false, 1/4), (false, 1/4), (true, 1/4)] = some (1/2) ∧
    Diagram.economicValue (1/2) [(true, 3/4), (true, 1/4)] = none := by
  refine ⟨by decide +kernel, by decide +kernel, by decide +kernel⟩

/-! ## 6. Ignorance contribution -/

private theorem natSum_cons' (n : Nat) (l : List Nat) : natSum (n :: l) = n + natSum l := rfl

private theorem mem_le_natSum' (c : List Nat) (k : Nat) (hk : k ∈ c) : k ≤ natSum c := by
  induction c with
  | nil => simp at hk
  | cons n c ih =>
    rw [natSum_cons']
    rcases List.mem_cons.mp hk with h | h
    · omega
    · have := ih h; omega

private theorem log2_pos (T : Tr) (hT : T.Lawful) : 0 < T.logQ 2 := by
  have := hT.log_lt 1 2 (by norm_num) (by norm_num)
  rw [hT.log_one] at this
  exact this

private theorem log2_fin (T : Tr) (hT : T.Lawful) (q : Rat) (hq : 0 < q) : log2 T (fin q) = fin (Diagram.log2Q T q) := by
  have h2 : T.logQ 2 ≠ 0 := (log2_pos T hT).ne'
  unfold log2 Diagram.log2Q
  rw [Tr.log_fin_pos T q hq, Tr.log_fin_pos T 2 (by norm_num), fin_div_ne _ _ h2]

private theorem sum_outcome (f : Rat → Rat) (b : List (Bool × Rat)) :
    Stats.sum (b.map fun c => f (Diagram.outcomeProb c)) =
      Stats.sum ((b.filter fun c => c.1).map fun c => f c.2) + Stats.sum ((b.filter fun c => !c.1).map fun c => f (1 - c.2)) := by
  induction b with
  | nil => simp [Stats.sum]
  | cons c b ih =>
    rcases c with ⟨o, p⟩
    have ht : Diagram.outcomeProb (true, p) = p := rfl
    have hf : Diagram.outcomeProb (false, p) = 1 - p := rfl
    cases o <;> simp [List.filter_cons, Stats.sum, ih, ht, hf] <;> ring

/-- the ignorance sum of a bin none of whose cases gave probability 0 to what happened -/
private theorem ignSum_fin (T : Tr) (hT : T.Lawful) (b : List (Bool × Rat)) (hpos : ∀ c ∈ b, 0 < Diagram.outcomeProb c) :
    ignSum T (b.map embRel) = fin (-(Stats.sum (b.map fun c => Diagram.log2Q T (Diagram.outcomeProb c)))) := by
  unfold ignSum
  have h1 : ((b.map embRel).filter fun c => XR.eqb c.1 (fin 1)).map (fun c => log2 T c.2) =
      ((b.filter fun c => c.1).map fun c => Diagram.log2Q T c.2).map fin := by
    rw [List.filter_map, List.map_map, List.map_map]
    have : (b.filter ((fun c : XR × XR => XR.eqb c.1 (fin 1)) ∘ embRel)) = b.filter fun c => c.1 := by
      apply List.filter_congr
      intro a _
      rcases a with ⟨o, p⟩
      cases o <;> simp [embRel]
    rw [this]
    apply List.map_congr_left
    intro c hc
    have hm := List.mem_filter.mp hc
    have := hpos c hm.1
    simp only [Diagram.outcomeProb, hm.2, if_true] at this
    simp only [Function.comp_def, embRel]
    exact log2_fin T hT c.2 this
  have h0 : ((b.map embRel).filter fun c => XR.eqb c.1 (fin 0)).map (fun c => log2 T (fin 1 - c.2)) =
      ((b.filter fun c => !c.1).map fun c => Diagram.log2Q T (1 - c.2)).map fin := by
    rw [List.filter_map, List.map_map, List.map_map]
    have : (b.filter ((fun c : XR × XR => XR.eqb c.1 (fin 0)) ∘ embRel)) = b.filter fun c => !c.1 := by
      apply List.filter_congr
      intro a _
      rcases a with ⟨o, p⟩
      cases o <;> simp [embRel]
    rw [this]
    apply List.map_congr_left
    intro c hc
    have hm := List.mem_filter.mp hc
    have := hpos c hm.1
    have hf : c.1 = false := by simpa using hm.2
    simp only [Diagram.outcomeProb, hf, Bool.false_eq_true, if_false] at this
    simp only [Function.comp_def, embRel, fin_sub]
    exact log2_fin T hT (1 - c.2) this
  rw [h1, h0, sum_fin', sum_fin', sum_outcome (Diagram.log2Q T) b]
  simp only [fin_neg, fin_sub]
  congr 1
  ring

/-- how a bin of the ignorance-contribution diagram is displayed: NaN where a statistic is undefined -/
def dispIgn (r : Option Rat × Option Rat × Nat) : XR × XR × Nat := (toXR r.1, toXR r.2.1, r.2.2)

/-- IgnContrib: per probability bin (half-open, the last one closed) the point (mean forecast probability,
−(number of bins / number of binned cases) · Σ log2 (probability given to what happened)) and the number of cases; no
point for an empty bin.  PARTIAL: proved for samples in which no case gave probability 0 to what happened (`hpos`);
with such a case the code draws +inf for its bin (log2 0 = −inf), which the Spec's rational value cannot express — that
branch is covered by the correspondence stream only.  log2 = ln / ln 2 for a lawful `Tr` (ln 2 > 0). -/
theorem C16_def_igncontrib_partial (T : Tr) (hT : T.Lawful) (edges : List Rat) (cs : List (Bool × Rat))
    (hpos : ∀ c ∈ cs, 0 < Diagram.outcomeProb c) :
    ignSeries T (edges.map fin) (cs.map embRel) = (Diagram.ignContrib T .hist edges cs).map dispIgn := by
  unfold ignSeries Diagram.ignContrib
  rw [binsLast_emb' embRel (·.2) (·.2) (fun _ => rfl)]
  simp only [List.map_map, List.length_map]
  have htot : natSum (List.map (List.length ∘ List.map embRel) (Diagram.bins .hist edges (·.2) cs)) =
      List.foldr (· + ·) 0 (List.map List.length (Diagram.bins .hist edges (·.2) cs)) := by
    unfold natSum
    congr 1
    apply List.map_congr_left
    intro b _
    simp
  rw [htot]
  apply List.map_congr_left
  intro b hb
  have hsub : ∀ c ∈ b, 0 < Diagram.outcomeProb c := by
    intro c hc
    unfold Diagram.bins at hb
    obtain ⟨e, _, rfl⟩ := List.mem_map.mp hb
    exact hpos c (List.mem_filter.mp hc).1
  simp only [Function.comp_def, dispIgn, Diagram.ignContribBin, List.isEmpty_map, List.length_map]
  cases hbe : b with
  | nil => simp [Stats.mean, toXR, Cont.toXR]
  | cons c rest =>
    rw [← hbe]
    have hne : b.isEmpty = false := by rw [hbe]; rfl
    have hlen : 0 < b.length := by rw [hbe]; simp
    have hle : b.length ≤ List.foldr (· + ·) 0 (List.map List.length (Diagram.bins .hist edges (·.2) cs)) :=
      mem_le_natSum' _ _ (List.mem_map.mpr ⟨b, hb, rfl⟩)
    have htq : ((List.foldr (· + ·) 0 (List.map List.length (Diagram.bins .hist edges (·.2) cs)) : Nat) : Rat) ≠ 0 := by
      have : List.foldr (· + ·) 0 (List.map List.length (Diagram.bins .hist edges (·.2) cs)) ≠ 0 := by omega
      exact_mod_cast this
    have h2 : ((b.map embRel).map fun x => x.2) = (b.map (·.2)).map fin := by simp [embRel, List.map_map, Function.comp_def]
    simp only [hne, Bool.false_eq_true, if_false, h2, mean_fin', ignSum_fin T hT b hsub, XR.ofNat, fin_div_ne _ _ htq, fin_mul,
      toXR, Cont.toXR]

private theorem foldl_fin_or_ninf (l : Vec) (acc : XR) (hacc : acc = ninf ∨ ∃ q, acc = fin q)
    (h : ∀ x ∈ l, x = ninf ∨ ∃ q, x = fin q) :
    ((acc = ninf ∨ ninf ∈ l) → l.foldl (· + ·) acc = ninf) ∧
    (¬ (acc = ninf ∨ ninf ∈ l) → ∃ q, l.foldl (· + ·) acc = fin q) := by
  induction l generalizing acc with
  | nil =>
    constructor
    · intro hh; rcases hh with hh | hh
      · simpa using hh
      · simp at hh
    · intro hh
      rcases hacc with ha | ⟨q, ha⟩
      · exact absurd (Or.inl ha) hh
      · exact ⟨q, by simpa using ha⟩
  | cons x l ih =>
    have hx := h x (by simp)
    have hl : ∀ y ∈ l, y = ninf ∨ ∃ q, y = fin q := fun y hy => h y (by simp [hy])
    have hstep : (acc + x = ninf ∨ ∃ q, acc + x = fin q) ∧ (acc + x = ninf ↔ (acc = ninf ∨ x = ninf)) := by
      rcases hacc with ha | ⟨qa, ha⟩ <;> rcases hx with hx | ⟨qx, hx⟩ <;> subst ha <;> subst hx
      · exact ⟨Or.inl rfl, by simp; rfl⟩
      · exact ⟨Or.inl rfl, by simp; rfl⟩
      · exact ⟨Or.inl rfl, by simp; rfl⟩
      · exact ⟨Or.inr ⟨qa + qx, rfl⟩, by simp⟩
    obtain ⟨ih1, ih2⟩ := ih (acc + x) hstep.1 hl
    simp only [List.foldl_cons]
    constructor
    · intro hh
      apply ih1
      rcases hh with hh | hh
      · exact Or.inl (hstep.2.mpr (Or.inl hh))
      · rcases List.mem_cons.mp hh with h1 | h1
        · exact Or.inl (hstep.2.mpr (Or.inr h1.symm))
        · exact Or.inr h1
    · intro hh
      apply ih2
      intro h'
      apply hh
      rcases h' with h' | h'
      · rcases hstep.2.mp h' with h1 | h1
        · exact Or.inl h1
        · exact Or.inr (by rw [h1]; simp)
      · exact Or.inr (by simp [h'])

private theorem log2_nonneg_arg (T : Tr) (hT : T.Lawful) (q : Rat) (hq : 0 ≤ q) :
    (log2 T (fin q) = ninf ∨ ∃ r, log2 T (fin q) = fin r) ∧ (log2 T (fin q) = ninf ↔ q = 0) := by
  have h2 : T.logQ 2 ≠ 0 := (log2_pos T hT).ne'
  have h2' : ¬ T.logQ 2 < 0 := not_lt.mpr (log2_pos T hT).le
  rcases lt_or_eq_of_le hq with h | h
  · rw [log2_fin T hT q h]
    refine ⟨Or.inr ⟨_, rfl⟩, ?_⟩
    constructor
    · intro hh; simp at hh
    · intro hh; exact absurd hh.symm (ne_of_lt h)
  · subst h
    have : log2 T (fin 0) = ninf := by
      unfold log2
      rw [Tr.log_fin_pos T 2 (by norm_num)]
      show XR.div (T.log (fin 0)) (fin (T.logQ 2)) = ninf
      simp [Tr.log_fin, XR.div, h2']
    exact ⟨Or.inl this, by simp [this]⟩

/-- IgnContrib, the complement of C16_def_igncontrib_partial: a bin that holds a case which gave probability 0 to what
happened (probabilities in [0, 1]) is drawn at +∞ — infinite ignorance —, for every positive number of cases and bins. -/
theorem C16_igncontrib_zero_prob (T : Tr) (hT : T.Lawful) (b : List (Bool × Rat))
    (hnn : ∀ c ∈ b, 0 ≤ Diagram.outcomeProb c) (c0 : Bool × Rat) (hc0 : c0 ∈ b) (h0 : Diagram.outcomeProb c0 = 0)
    (tot nb : Nat) (htot : 0 < tot) (hnb : 0 < nb) :
    ignSum T (b.map embRel) / XR.ofNat tot * XR.ofNat nb = pinf := by
  have hsum : ignSum T (b.map embRel) = pinf := by
    unfold ignSum
    set L1 := ((b.map embRel).filter fun c => XR.eqb c.1 (fin 1)).map (fun c => log2 T c.2) with hL1
    set L0 := ((b.map embRel).filter fun c => XR.eqb c.1 (fin 0)).map (fun c => log2 T (fin 1 - c.2)) with hL0
    have m1 : ∀ x ∈ L1, ∃ c ∈ b, c.1 = true ∧ x = log2 T (fin c.2) := by
      intro x hx
      obtain ⟨e, he, rfl⟩ := List.mem_map.mp hx
      obtain ⟨he1, he2⟩ := List.mem_filter.mp he
      obtain ⟨c, hc, rfl⟩ := List.mem_map.mp he1
      rcases c with ⟨o, p⟩
      cases o
      · simp [embRel] at he2
      · exact ⟨(true, p), hc, rfl, rfl⟩
    have m0 : ∀ x ∈ L0, ∃ c ∈ b, c.1 = false ∧ x = log2 T (fin (1 - c.2)) := by
      intro x hx
      obtain ⟨e, he, rfl⟩ := List.mem_map.mp hx
      obtain ⟨he1, he2⟩ := List.mem_filter.mp he
      obtain ⟨c, hc, rfl⟩ := List.mem_map.mp he1
      rcases c with ⟨o, p⟩
      cases o
      · exact ⟨(false, p), hc, rfl, by simp [embRel]⟩
      · simp [embRel] at he2
    have f1 : ∀ x ∈ L1, x = ninf ∨ ∃ q, x = fin q := by
      intro x hx
      obtain ⟨c, hc, ht, rfl⟩ := m1 x hx
      have := hnn c hc
      simp only [Diagram.outcomeProb, ht, if_true] at this
      exact (log2_nonneg_arg T hT c.2 this).1
    have f0 : ∀ x ∈ L0, x = ninf ∨ ∃ q, x = fin q := by
      intro x hx
      obtain ⟨c, hc, ht, rfl⟩ := m0 x hx
      have := hnn c hc
      simp only [Diagram.outcomeProb, ht, Bool.false_eq_true, if_false] at this
      exact (log2_nonneg_arg T hT (1 - c.2) this).1
    have hmem : ninf ∈ L1 ∨ ninf ∈ L0 := by
      rcases c0 with ⟨o, p⟩
      cases o
      · right
        have hp : 1 - p = 0 := by simpa [Diagram.outcomeProb] using h0
        have : log2 T (fin 1 - (embRel (false, p)).2) = ninf := by
          simp only [embRel, fin_sub, hp]
          exact (log2_nonneg_arg T hT 0 (le_refl _)).2.mpr rfl
        rw [← this]
        exact List.mem_map.mpr ⟨embRel (false, p), List.mem_filter.mpr ⟨List.mem_map.mpr ⟨_, hc0, rfl⟩, by simp [embRel]⟩, rfl⟩
      · left
        have hp : p = 0 := by simpa [Diagram.outcomeProb] using h0
        have : log2 T (embRel (true, p)).2 = ninf := by
          simp only [embRel, hp]
          exact (log2_nonneg_arg T hT 0 (le_refl _)).2.mpr rfl
        rw [← this]
        exact List.mem_map.mpr ⟨embRel (true, p), List.mem_filter.mpr ⟨List.mem_map.mpr ⟨_, hc0, rfl⟩, by simp [embRel]⟩, rfl⟩
    have s1 := foldl_fin_or_ninf L1 (fin 0) (Or.inr ⟨0, rfl⟩) f1
    have s0 := foldl_fin_or_ninf L0 (fin 0) (Or.inr ⟨0, rfl⟩) f0
    have hne : ¬ (fin (0 : Rat) = ninf) := by simp
    unfold Vec.sum
    by_cases h1 : ninf ∈ L1
    · rw [s1.1 (Or.inr h1)]
      by_cases h0' : ninf ∈ L0
      · rw [s0.1 (Or.inr h0')]; rfl
      · obtain ⟨q, hq⟩ := s0.2 (by rintro (h | h); exact hne h; exact h0' h)
        rw [hq]; rfl
    · have h0' : ninf ∈ L0 := hmem.resolve_left h1
      obtain ⟨q, hq⟩ := s1.2 (by rintro (h | h); exact hne h; exact h1 h)
      rw [hq, s0.1 (Or.inr h0')]; rfl
  rw [hsum]
  have ht : ¬ ((tot : Rat) < 0) := not_lt.mpr (Nat.cast_nonneg _)
  have hn : (0 : Rat) < nb := by exact_mod_cast hnb
  show XR.mul (XR.div pinf (fin tot)) (fin nb) = pinf
  simp [XR.div, ht, XR.mul, infOfSign, hn, hn.ne']

/-- not vacuous: a lawful `Tr` (log q := q − 1); a sample without a zero outcome probability, whose Spec value is
(bins / N)·Σ −log2: with log2 x = (x − 1)/1, two bins, cases (event, 1/2) and (non-event, 1/4) in the two bins;
and a case that gave probability 0 to what happened -/
example : Tr.Lawful ⟨fun q => q, fun q => q - 1, fun q => q + 1, fun q => q⟩ ∧
    (∀ c ∈ [(true, (1/2 : Rat)), (false, 1/4)], 0 < Diagram.outcomeProb c) ∧
    Diagram.ignContrib ⟨fun q => q, fun q => q - 1, fun q => q + 1, fun q => q⟩ .hist [0, 1/2, 1] [(true, 1/2), (false, 1/4)] =
      [(some (1/4), some (1/4), 1), (some (1/2), some (1/2), 1)] ∧
    Diagram.outcomeProb (true, 0) = 0 ∧ Diagram.outcomeProb (false, 1) = 0 := by
  refine ⟨⟨rfl, ?_, ?_, by norm_num, ?_, rfl, ?_, by norm_num⟩, by decide +kernel, by decide +kernel, by decide +kernel, by decide +kernel⟩
  · intro q hq; exact hq
  · intro p q _ h; exact h
  · intro p q _ h; linarith
  · intro q hq; exact hq

/-- IgnContrib's bin edges: N + 1 equally spaced values on [0, 1] with 11 ≤ N ≤ 25 (N = number of cases / 1000,
clipped) -/
theorem C16_igncontrib_edges (n : Nat) :
    ignEdges n = (Diagram.equallySpaced 0 1 (ignBins n + 1)).map fin ∧ 11 ≤ ignBins n ∧ ignBins n ≤ 25 := by
  refine ⟨?_, ?_, ?_⟩
  · unfold ignEdges Diagram.equallySpaced
    rw [List.map_map]
    apply List.map_congr_left
    intro i _
    simp only [Function.comp_def]
    congr 1
    push_cast
    ring
  · unfold ignBins; simp only [Nat.min_def, Nat.max_def]; split_ifs <;> omega
  · unfold ignBins; simp only [Nat.min_def, Nat.max_def]; split_ifs <;> omega

/-- IgnContrib: the counts of the lower panel add up to the number of cases whose probability lies in
[first edge, last edge] — every case of the range is counted once. -/
theorem C16_counts_total_igncontrib (T : Tr) (a b : Rat) (rest : List Rat) (h : StrictInc (a :: b :: rest))
    (cs : List (XR × Rat)) :
    natSum ((ignSeries T ((a :: b :: rest).map fin) (cs.map fun c => (c.1, fin c.2))).map (·.2.2)) =
      (cs.filter fun c => decide (a ≤ c.2 ∧ c.2 ≤ lastOf b rest)).length := by
  have := C16_counts_total_last (fun c : XR × Rat => c.2) a b rest h cs
  rw [← this]
  unfold ignSeries binsLast
  simp only [List.map_map, Function.comp_def, List.filter_map, List.length_map]
  congr 1
  apply List.map_congr_left
  intro e _
  split
  · rename_i he
    simp only [List.isEmpty_map, List.isEmpty_iff] at he
    simp [he]
  · rfl

/-- not vacuous (and the bins of the default N = 11): probability 1 is in the last bin -/
example : ignBins 500 = 11 ∧ ((histPairs (ignEdges 500)).filter fun e => memHist e (fin 1)).length = 1 := by
  constructor <;> decide +kernel

/-! ## 7. Time series -/

/-- np.nanmean of values with missing entries is the mean of the present ones (NaN when none is present) -/
private theorem nanmean_opt (v : List (Option Rat)) :
    Vec.nanmean (v.map toXR) = toXR (Diagram.presentMean v) := by
  unfold Vec.nanmean Diagram.presentMean
  have : (v.map toXR).filter (fun x => !x.isNan) = (v.filterMap id).map fin := by
    induction v with
    | nil => rfl
    | cons a v ih =>
      cases a with
      | none => simpa [toXR, Cont.toXR, List.filter_cons, XR.isNan] using ih
      | some q => simpa [toXR, Cont.toXR, List.filter_cons, XR.isNan] using ih
  rw [this, mean_fin']

/-- the location means of a row of cells -/
private theorem locMeans_opt (row : List (List (Option Rat))) :
    locMeans (row.map (List.map toXR)) = (row.map Diagram.presentMean).map toXR := by
  unfold locMeans
  rw [List.map_map, List.map_map]
  apply List.map_congr_left
  intro v _
  simp only [Function.comp_def, nanmean_opt]

/-- TimeSeries, the x-values of a run: `datenum + leadtime/24` is the valid time in days -/
theorem C16_timeseries_valid_time (t : Rat) (ld : List Rat) :
    tsX (fin t) (ld.map fin) = (ld.map (Diagram.validDay t)).map fin := by
  unfold tsX
  rw [List.map_map, List.map_map]
  apply List.map_congr_left
  intro l _
  have h1 : (86400 : Rat) ≠ 0 := by norm_num
  have h2 : (24 : Rat) ≠ 0 := by norm_num
  simp only [Function.comp_def, fin_div_ne _ _ h1, fin_div_ne _ _ h2, fin_add, Diagram.validDay]
  congr 1
  field_simp
  ring

/-- TimeSeries, forecast / member / quantile lines: one line per run (initialisation time), in run order, drawn at the
valid times of its lead times, each value the mean over the locations that have one (NaN when none has). -/
theorem C16_def_timeseries_runs (label : Nat → String) (tm ld : List Rat) (arr : List (List (List (Option Rat)))) :
    tsRunLines label (tm.map fin) (ld.map fin) (arr.map (List.map (List.map toXR))) =
      (tm.zip arr).zipIdx.map fun p =>
        { ax := 0, kind := "line", label := label p.2, xs := (Diagram.runSeries p.1.1 ld p.1.2).1.map fin,
          ys := (Diagram.runSeries p.1.1 ld p.1.2).2.map toXR } := by
  unfold tsRunLines
  have hz : (tm.map fin).zip (arr.map (List.map (List.map toXR))) =
      (tm.zip arr).map fun p => (fin p.1, p.2.map (List.map toXR)) := by
    rw [List.zip_map]; rfl
  have hzi : ∀ (l : List (Rat × List (List (Option Rat)))) (n : Nat),
      (l.map fun p => ((fin p.1, p.2.map (List.map toXR)) : XR × List Vec)).zipIdx n =
        (l.zipIdx n).map fun p => ((fin p.1.1, p.1.2.map (List.map toXR)), p.2) := by
    intro l
    induction l with
    | nil => intro n; rfl
    | cons a l ih => intro n; simp [List.zipIdx_cons, ih]
  rw [hz, hzi, List.map_map]
  apply List.map_congr_left
  intro p _
  simp only [Function.comp_def, C16_timeseries_valid_time, locMeans_opt, Diagram.runSeries]

/-- the same insertion on rational keys (proof device) -/
private def insQ {β : Type} (p : Rat × β) : List (Rat × β) → List (Rat × β)
  | [] => [p]
  | q :: rest => if p.1 < q.1 then p :: q :: rest else if p.1 = q.1 then p :: rest else q :: insQ p rest

private theorem insertFirst_emb {β : Type} (e : β → XR) (p : Rat × β) (u : List (Rat × β)) :
    insertFirst (fin p.1, e p.2) (u.map fun q => (fin q.1, e q.2)) = (insQ p u).map fun q => (fin q.1, e q.2) := by
  induction u with
  | nil => rfl
  | cons q u ih =>
    simp only [List.map_cons, insertFirst, insQ, XR.lt, eqb_fin]
    by_cases h1 : p.1 < q.1
    · simp [h1]
    · by_cases h2 : p.1 = q.1
      · simp [h1, h2]
      · simp [h1, h2, ih]

private theorem lookup_cons_eq {β : Type} (k : Rat) (a : Rat × β) (l : List (Rat × β)) :
    List.lookup k (a :: l) = if k = a.1 then some a.2 else List.lookup k l := by
  by_cases h : k = a.1
  · simp [List.lookup, h]
  · have : (k == a.1) = false := by simpa using h
    simp [List.lookup, this, h]

private theorem insQ_cons {β : Type} (p q : Rat × β) (u : List (Rat × β)) :
    insQ p (q :: u) = if p.1 < q.1 then p :: q :: u else if p.1 = q.1 then p :: u else q :: insQ p u := rfl

private theorem insQ_lookup {β : Type} (p : Rat × β) (u : List (Rat × β)) (k : Rat) :
    (insQ p u).lookup k = if k = p.1 then some p.2 else u.lookup k := by
  induction u with
  | nil =>
    have : insQ p ([] : List (Rat × β)) = [p] := rfl
    rw [this, lookup_cons_eq]
  | cons q u ih =>
    rw [insQ_cons]
    by_cases h1 : p.1 < q.1
    · rw [if_pos h1, lookup_cons_eq k p]
    · by_cases h2 : p.1 = q.1
      · rw [if_neg h1, if_pos h2, lookup_cons_eq k p, lookup_cons_eq k q]
        by_cases h : k = p.1
        · simp [h]
        · have : ¬ k = q.1 := h2 ▸ h
          simp [h, this]
      · rw [if_neg h1, if_neg h2, lookup_cons_eq k q, lookup_cons_eq k q, ih]
        by_cases h : k = q.1
        · have : ¬ q.1 = p.1 := fun hh => h2 hh.symm
          subst h
          simp [this]
        · simp [h]

private theorem insQ_mem {β : Type} (p : Rat × β) (u : List (Rat × β)) (x : Rat × β) (hx : x ∈ insQ p u) : x = p ∨ x ∈ u := by
  induction u with
  | nil =>
    have : insQ p ([] : List (Rat × β)) = [p] := rfl
    rw [this] at hx
    exact Or.inl (List.mem_singleton.mp hx)
  | cons q u ih =>
    rw [insQ_cons] at hx
    by_cases h1 : p.1 < q.1
    · rw [if_pos h1] at hx
      rcases List.mem_cons.mp hx with h | h
      · exact Or.inl h
      · exact Or.inr h
    · by_cases h2 : p.1 = q.1
      · rw [if_neg h1, if_pos h2] at hx
        rcases List.mem_cons.mp hx with h | h
        · exact Or.inl h
        · exact Or.inr (List.mem_cons_of_mem _ h)
      · rw [if_neg h1, if_neg h2] at hx
        rcases List.mem_cons.mp hx with h | h
        · exact Or.inr (by rw [h]; exact List.mem_cons_self)
        · rcases ih h with h' | h'
          · exact Or.inl h'
          · exact Or.inr (List.mem_cons_of_mem _ h')

private theorem insQ_sorted {β : Type} (p : Rat × β) (u : List (Rat × β)) (hs : u.Pairwise fun a b => a.1 < b.1) :
    (insQ p u).Pairwise fun a b => a.1 < b.1 := by
  induction u with
  | nil =>
    have : insQ p ([] : List (Rat × β)) = [p] := rfl
    rw [this]; exact List.pairwise_singleton _ _
  | cons q u ih =>
    have hs' := (List.pairwise_cons.mp hs)
    rw [insQ_cons]
    by_cases h1 : p.1 < q.1
    · rw [if_pos h1]
      refine List.pairwise_cons.mpr ⟨?_, hs⟩
      intro x hx
      rcases List.mem_cons.mp hx with h | h
      · rw [h]; exact h1
      · exact lt_trans h1 (hs'.1 x h)
    · by_cases h2 : p.1 = q.1
      · rw [if_neg h1, if_pos h2]
        refine List.pairwise_cons.mpr ⟨?_, hs'.2⟩
        intro x hx
        rw [h2]; exact hs'.1 x hx
      · rw [if_neg h1, if_neg h2]
        refine List.pairwise_cons.mpr ⟨?_, ih hs'.2⟩
        intro x hx
        rcases insQ_mem p u x hx with h | h
        · rw [h]; exact lt_of_le_of_ne (not_lt.mp h1) (fun hh => h2 hh.symm)
        · exact hs'.1 x h

private def ufQ {β : Type} (ps : List (Rat × β)) : List (Rat × β) := ps.foldr insQ []

private theorem ufQ_props {β : Type} (ps : List (Rat × β)) :
    (ufQ ps).Pairwise (fun a b => a.1 < b.1) ∧ ∀ k, (ufQ ps).lookup k = ps.lookup k := by
  induction ps with
  | nil => exact ⟨List.Pairwise.nil, fun _ => rfl⟩
  | cons p ps ih =>
    refine ⟨insQ_sorted p _ ih.1, ?_⟩
    intro k
    have : ufQ (p :: ps) = insQ p (ufQ ps) := rfl
    rw [this, insQ_lookup p _ k, ih.2 k, lookup_cons_eq]

private theorem uniqueFirst_emb {β : Type} (e : β → XR) (ps : List (Rat × β)) :
    uniqueFirst (ps.map fun q => (fin q.1, e q.2)) = (ufQ ps).map fun q => (fin q.1, e q.2) := by
  induction ps with
  | nil => rfl
  | cons p ps ih =>
    have h1 : uniqueFirst ((p :: ps).map fun q => (fin q.1, e q.2)) =
        insertFirst (fin p.1, e p.2) (uniqueFirst (ps.map fun q => (fin q.1, e q.2))) := rfl
    have h2 : ufQ (p :: ps) = insQ p (ufQ ps) := rfl
    rw [h1, ih, h2, insertFirst_emb]

/-- TimeSeries, the observation line: its points are (valid time, observation) pairs `u` such that the valid times are
strictly increasing — every distinct valid time of a (run, lead time) cell once, none else — and the value at a valid
time is the location mean of the observations of the FIRST cell (run by run, lead time by lead time) with that valid
time (`List.lookup` returns the first match). -/
theorem C16_def_timeseries_obs (tm ld : List Rat) (obs : List (List (List (Option Rat)))) :
    ∃ u : List (Rat × Option Rat),
      tsObs (tm.map fin) (ld.map fin) (obs.map (List.map (List.map toXR))) = (u.map fun q => fin q.1, u.map fun q => toXR q.2) ∧
      u.Pairwise (fun a b => a.1 < b.1) ∧
      ∀ k, u.lookup k = (Diagram.obsPairs tm ld obs).lookup k := by
  refine ⟨ufQ (Diagram.obsPairs tm ld obs), ?_, (ufQ_props _).1, (ufQ_props _).2⟩
  unfold tsObs
  have hk : ((tm.map fin).flatMap fun t => (ld.map fin).map fun l => (l * fin 3600 + t) / fin 86400) =
      (tm.flatMap fun t => ld.map (Diagram.validDay t)).map fin := by
    rw [List.map_flatMap, List.flatMap_map]
    apply List.flatMap_congr
    intro t _
    rw [List.map_map, List.map_map]
    apply List.map_congr_left
    intro l _
    have h1 : (86400 : Rat) ≠ 0 := by norm_num
    simp only [Function.comp_def, fin_mul, fin_add, fin_div_ne _ _ h1, Diagram.validDay]
    congr 1
    ring
  have hv : ((obs.map (List.map (List.map toXR))).map locMeans).flatten =
      (obs.flatMap fun row => row.map Diagram.presentMean).map toXR := by
    rw [List.map_map, List.map_flatMap, List.flatMap_def]
    congr 1
    apply List.map_congr_left
    intro row _
    simp only [Function.comp_def, locMeans_opt]
  have hz : ((tm.flatMap fun t => ld.map (Diagram.validDay t)).map fin).zip
        ((obs.flatMap fun row => row.map Diagram.presentMean).map toXR) =
      (Diagram.obsPairs tm ld obs).map fun q => (fin q.1, toXR q.2) := by
    unfold Diagram.obsPairs
    rw [List.zip_map]; rfl
  simp only []
  rw [hk, hv, hz, uniqueFirst_emb toXR]
  simp only [List.map_map, Function.comp_def]

/-- TimeSeries, layout: the observation line first; then, input by input, the forecast lines (the first run's carries
the input's name); then, input by input, the ensemble member lines; then, level by level of -q and input by input, the
quantile lines. -/
theorem C16_timeseries_layout (tm ld : Vec) (obs0 : List (List Vec)) (qlabels : List String) (ins : List TsInput) :
    (timeseriesFigure tm ld obs0 qlabels ins).head? =
        some { ax := 0, kind := "line", label := "obs", xs := (tsObs tm ld obs0).1, ys := (tsObs tm ld obs0).2 } ∧
    (timeseriesFigure tm ld obs0 qlabels ins).tail =
      perInput (fun k i => tsRunLines (fun d => if d = 0 then inName k else "_") tm ld i.fcst) ins ++
      perInput (fun _ i => i.members.flatMap fun m => tsRunLines (fun _ => "_") tm ld m) ins ++
      qlabels.zipIdx.flatMap fun q =>
        perInput (fun _ i => tsRunLines (fun d => if d = 0 then q.1 else "_") tm ld ((i.quants[q.2]?).getD [])) ins :=
  ⟨rfl, rfl⟩

/-- not vacuous: two runs a day apart with lead times 0 h and 24 h: the valid time "day 1" occurs twice, the first
cell (run 0, lead 24 h) gives its value -/
example : (tsObs [fin 0, fin 86400] [fin 0, fin 24] [[[fin 1], [fin 2]], [[fin 3], [fin 4]]]) =
    ([fin 0, fin 1, fin 2], [fin 1, fin 2, fin 4]) := by decide +kernel

/-! ## 8. Meteogram -/

/-- Meteo, every line: per lead time the mean over the locations of the mean over the runs, each over the values that
are present (NaN where there is none). -/
theorem C16_def_meteo_line (cells : List (List (List (Option Rat)))) :
    meteoLine (cells.map (List.map (List.map toXR))) = (Diagram.meteoMean cells).map toXR := by
  unfold meteoLine Diagram.meteoMean
  rw [List.map_map, List.map_map]
  apply List.map_congr_left
  intro row _
  have := locMeans_opt row
  unfold locMeans at this
  simp only [Function.comp_def, this, nanmean_opt]

/-- Meteo, the x-values: the valid times of the lead times of the FIRST run, in days -/
theorem C16_def_meteo_x (t0 : Rat) (ld : List Rat) :
    meteoX (fin t0) (ld.map fin) = (ld.map (Diagram.validDay t0)).map fin := by
  unfold meteoX
  rw [List.map_map, List.map_map]
  apply List.map_congr_left
  intro l _
  have h1 : (86400 : Rat) ≠ 0 := by norm_num
  simp only [Function.comp_def, fin_mul, fin_add, fin_div_ne _ _ h1, Diagram.validDay]

/-- Meteo's bands are util.fill polygons (C16_fill_vertices, C16_def_fill) between the i-th lowest and the i-th highest
quantile line -/
theorem C16_meteo_bands (x : Vec) (ys : List Vec) (s : Series) (hs : s ∈ meteoBands x ys) :
    ∃ i, i < ys.length / 2 ∧ ∃ lo hi, ys[i]? = some lo ∧ ys[ys.length - 1 - i]? = some hi ∧
      s.kind = "poly" ∧ (List.zip s.xs s.ys) = fillPolygon x lo hi ∧ fillPolygon x lo hi ≠ [] := by
  simp only [meteoBands, List.mem_flatMap, List.mem_range] at hs
  obtain ⟨i, hi, hs⟩ := hs
  have h1 : i < ys.length := by omega
  have h2 : ys.length - 1 - i < ys.length := by omega
  refine ⟨i, hi, ys[i]'h1, ys[ys.length - 1 - i]'h2, by simp [h1], by simp [h2], ?_⟩
  simp only [List.getElem?_eq_getElem h1, List.getElem?_eq_getElem h2, Option.getD_some, fillSeries] at hs
  split at hs
  · simp at hs
  · rename_i hne
    simp only [List.mem_singleton] at hs
    subst hs
    refine ⟨rfl, ?_, by simpa using hne⟩
    induction fillPolygon x ys[i] ys[ys.length - 1 - i] with
    | nil => rfl
    | cons a l ih => simp [ih]

/-- not vacuous: three quantile lines over two lead times give one band, between the lowest and the highest -/
example : (meteoBands [fin 0, fin 1] [[fin 1, fin 1], [fin 2, fin 2], [fin 3, nan]]).map (fun s => (s.kind, s.xs, s.ys)) =
    [("poly", [fin 0, fin 1, fin 0], [fin 1, fin 1, fin 3])] := by decide +kernel

private theorem insert_fin' (x : Rat) (ys : List Rat) :
    Vec.insertSorted (fin x) (List.map fin ys) = List.map fin (ys.orderedInsert (· ≤ ·) x) := by
  induction ys with
  | nil => rfl
  | cons y ys ih =>
    simp only [List.map_cons, Vec.insertSorted, XR.lt, List.orderedInsert_cons]
    by_cases h : y < x
    · have h' : ¬ x ≤ y := not_le.mpr h
      simp [h, h', ih]
    · have h' : x ≤ y := not_lt.mp h
      simp [h, h']

private theorem sort_fin' (v : List Rat) : Vec.sort (List.map fin v) = List.map fin (Stats.ascending v) := by
  have hasc : Stats.ascending v = v.insertionSort (· ≤ ·) := by
    unfold Stats.ascending
    exact List.mergeSort_eq_insertionSort (r := (· ≤ ·)) v
  rw [hasc]
  clear hasc
  induction v with
  | nil => rfl
  | cons x xs ih =>
    have : Vec.sort (List.map fin (x :: xs)) = Vec.insertSorted (fin x) (Vec.sort (List.map fin xs)) := rfl
    rw [this, ih, insert_fin']; rfl

private theorem eqb_fin_eq (a : XR) (x : Rat) (h : XR.eqb a (fin x) = true) : a = fin x := by
  cases a <;> simp [XR.eqb] at h
  rw [h]

/-- Meteo: the quantile lines are drawn in ascending order of their level, whatever the order of -q (their values are
fetched by level, so each line still is the line of its own level). -/
theorem C16_meteo_quantile_order (levels : List Rat) (qs : List (XR × String × List (List Vec)))
    (hq : qs.map (·.1) = levels.map fin) :
    (meteoSorted qs).map (·.1) = (Stats.ascending levels).map fin ∧ ∀ q ∈ meteoSorted qs, q ∈ qs := by
  unfold meteoSorted
  rw [hq, sort_fin']
  have hmem : ∀ x ∈ Stats.ascending levels, x ∈ levels := by
    intro x hx
    unfold Stats.ascending at hx
    exact List.mem_mergeSort.mp hx
  constructor
  · generalize Stats.ascending levels = l at hmem
    induction l with
    | nil => rfl
    | cons x l ih =>
      have hx : fin x ∈ qs.map (·.1) := by rw [hq]; exact List.mem_map.mpr ⟨x, hmem x (by simp), rfl⟩
      obtain ⟨q, hqm, hq1⟩ := List.mem_map.mp hx
      simp only [List.map_cons, List.filterMap_cons]
      cases hf : qs.find? (fun q => XR.eqb q.1 (fin x)) with
      | none =>
        have := List.find?_eq_none.mp hf q hqm
        simp [hq1] at this
      | some q' =>
        have h1 := List.find?_some hf
        simp only [List.map_cons, eqb_fin_eq _ _ h1]
        rw [ih (fun y hy => hmem y (by simp [hy]))]
  · intro q hqm
    obtain ⟨lev, _, hf⟩ := List.mem_filterMap.mp hqm
    exact List.mem_of_find?_eq_some hf

example : (meteoSorted [(fin (3/4), "75%", []), (fin (1/4), "25%", [])]).map (·.2.1) = ["25%", "75%"] := by decide +kernel

/-- Meteo, layout: observation line, forecast line, then the quantile lines, then the bands -/
theorem C16_meteo_layout (x : Vec) (obs fcst : List (List Vec)) (qs : List (XR × String × List (List Vec))) :
    (meteoFigure x obs fcst qs).take 2 =
      [{ ax := 0, kind := "line", label := "Observed", xs := x, ys := meteoLine obs },
       { ax := 0, kind := "line", label := "Forecast", xs := x, ys := meteoLine fcst }] := rfl

/-- not vacuous: two lead times, two locations, two runs; a missing value is left out of its mean -/
example : Diagram.meteoMean [[[some 1, some 3], [some 4, none]], [[none, none], [some 2, some 2]]] = [some 3, some 2] := by
  decide +kernel

end VerifModel.C16
