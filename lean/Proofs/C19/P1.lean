import Proofs.C19.Core
namespace VerifModel.C19
set_option maxRecDepth 100000 in
set_option maxHeartbeats 2000000 in
theorem core_part1 : CoreOn (chunk 1) := by decide +kernel
end VerifModel.C19
