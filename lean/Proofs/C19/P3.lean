import Proofs.C19.Core
namespace VerifModel.C19
set_option maxRecDepth 100000 in
set_option maxHeartbeats 2000000 in
theorem core_part3 : CoreOn (chunk 3) := by decide +kernel
end VerifModel.C19
