import VerifModel.Model.Dispatch
import VerifModel.Spec.Dispatch
/-
  C19 — definitions shared by the kernel-evaluated parts (Proofs/C19/P0..P3.lean, one quarter of the
  documented names each, so that lake checks them in parallel) and Proofs/C19.lean.
-/
namespace VerifModel.C19
open VerifModel Dispatch Gen

def axisArgs : List (Option String) := none :: Spec.Dispatch.axes.map some
def binArgs : List (Option String) := none :: Spec.Dispatch.binTypes.map some
def aggArgs : List (Option AggArg) := none :: some .number :: Spec.Dispatch.aggregators.map (fun a => some (.named a))
/-- number of values given with `-q` (the driver compares it with min/max_num_thresholds ∈ {1, 2}) -/
def qCounts : List Nat := [0, 1, 2, 3]

/-- a standard metric run on the threshold axis has thresholds (otherwise `Standard._get_x_y` puts the centre
    of (-∞, ∞) on the x-axis and the text/csv writers index `None`); diagrams check `-r` themselves -/
def thrAxisOk (nd : NameD) (axis : Option (String × AxisKind)) (hasR : Bool) : Decision → Bool
  | .run _ _ _ src => !nd.isStandard || (finalAxis nd (effAxis nd axis hasR).1).2 != .threshold || src != .none
  | _ => true

/-- everything checked for one combination, on the classified arguments (one kernel evaluation) -/
def checkN (n : String) (a : Option String) (t : String) (r : Bool) (q : Nat) : Bool :=
  match nameD n with
  | none => false
  | some nd =>
    let d := dispatchD nd (axisD a) (typeD t) r q true
    goodD nd (axisD a) (typeD t) r d && (n == "threshold" || thrAxisOk nd (axisD a) r d)

/-- the documented names in four parts (98 = 25 + 25 + 25 + 23) -/
def chunk (i : Nat) : List String := (Spec.Dispatch.names.drop (25 * i)).take 25

theorem names_chunks : Spec.Dispatch.names = chunk 0 ++ chunk 1 ++ chunk 2 ++ chunk 3 := by decide

/-- the statement each part proves by kernel evaluation -/
def CoreOn (names : List String) : Prop :=
  ∀ n ∈ names, ∀ a ∈ axisArgs, ∀ t ∈ Spec.Dispatch.types, ∀ r ∈ [true, false], ∀ q ∈ qCounts,
    checkN n a t r q = true

instance (names : List String) : Decidable (CoreOn names) := by unfold CoreOn; infer_instance

end VerifModel.C19
