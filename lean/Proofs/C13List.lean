import VerifModel.Model.ListOutput
import Proofs.Lemmas.Decimal
import Proofs.Lemmas.Table
import Proofs.C11
import Mathlib.Tactic.Ring
import Mathlib.Tactic.FieldSimp
import Mathlib.Tactic.Linarith
/-
  C13 — what `--list-times`, `--list-dates`, `--list-locations`, `--list-thresholds`, `--list-quantiles`
  print (`Model/ListOutput.lean`, driver.py:359-391): reading the printed text back gives exactly the
  verified dimension values, one row per value, in the order given (so the rows are in bijection with
  the values, and ascending when the values are).

  * `C13_list_times`       the text splits into one line per time, an empty line and the final newline, and
                           each line reads back as its time — for every list of integers;
  * `C13_list_dates`       same for `YYYYMMDD HH:MM:SS` on every whole second of 1900-2100, where the row is
                           the textbook civil date and the hour, minute, second of the day
                           (`C13_date_line`);
  * `C13_list_locations`   header line, one row per location; the id column reads back as the id
                           (truncated toward zero if it is not an integer; exact for integer ids), lat and
                           lon read back within half a unit of the second decimal, elev of the first;
  * `C13_list_thresholds`  `Thresholds:` / `Quantiles:` followed by one `%g` token per value, in order, each
                           followed by a blank; each token reads back within half a unit of its sixth
                           significant digit (`Decimal.fmtG_sound`), zero, NaN and ±inf exactly.
-/
namespace VerifModel.C13
open VerifModel Decimal ListOutput Calendar Axis
open VerifModel.C12 (splitC splitC_append)

/-! ### readers (what "reading the printed text back" means) -/

/-- all-or-nothing -/
def collect {α : Type} : List (Option α) → Option (List α)
  | [] => some []
  | none :: _ => none
  | some a :: r => (collect r).map (a :: ·)

/-- the rows of a listing block that ends with an empty line: the lines before the last two (the empty line
printed by `print("")` and what follows the final newline), each read with `rd` -/
def readRows {α : Type} (rd : Str → Option α) (s : Str) : Option (List α) :=
  match (splitC '\n' s).reverse with
  | [] :: [] :: body => collect (body.reverse.map rd)
  | _ => none

/-- a decimal integer with an optional minus sign -/
def readInt? (s : Str) : Option Int :=
  match s with
  | '-' :: r => if r = [] then none else (digitsVal? r).map fun n => -(n : Int)
  | r => if r = [] then none else (digitsVal? r).map fun n => (n : Int)

/-- Python `s.split()` on blanks: the maximal runs of non-blank characters -/
def wordsGo : Str → Str → List Str
  | cur, [] => if cur = [] then [] else [cur]
  | cur, c :: cs =>
    if c = ' ' then (if cur = [] then wordsGo [] cs else cur :: wordsGo [] cs)
    else wordsGo (cur ++ [c]) cs

def words (s : Str) : List Str := wordsGo [] s

/-- `YYYYMMDD HH:MM:SS` → seconds since 1970-01-01T00:00:00Z -/
def readDate? (s : Str) : Option Int :=
  match splitC ' ' s with
  | [d, hms] =>
    match digitsVal? d, (splitC ':' hms).map digitsVal? with
    | some ymd, [some H, some M, some S] =>
      some (unixOfDays (daysOf (Date.ofYmd ymd)) + ((3600 * H + 60 * M + S : Nat) : Int))
    | _, _ => none
  | _ => none

/-- a location row: integer id and three decimal numbers -/
def readLoc? (s : Str) : Option (Int × XR × XR × XR) :=
  match words s with
  | [a, b, c, d] =>
    match readInt? a, valueOf? b, valueOf? c, valueOf? d with
    | some i, some x, some y, some z => some (i, x, y, z)
    | _, _, _, _ => none
  | _ => none

/-! ### lemmas: lines, words, digits -/

private theorem collect_map {α β : Type} (f : α → Str) (g : Str → Option β) (h : α → β) (ts : List α)
    (hfg : ∀ t ∈ ts, g (f t) = some (h t)) : collect ((ts.map f).map g) = some (ts.map h) := by
  induction ts with
  | nil => rfl
  | cons t tl ih =>
    simp only [List.map_cons, hfg t (by simp), collect, ih (fun x hx => hfg x (by simp [hx]))]
    rfl

private theorem splitC_unlines (ls : List Str) (h : ∀ l ∈ ls, '\n' ∉ l) :
    splitC '\n' (unlines ls) = ls ++ [[]] := by
  induction ls with
  | nil => simp [unlines, splitC]
  | cons l tl ih =>
    have e : unlines (l :: tl) = l ++ '\n' :: unlines tl := by simp [unlines]
    rw [e, splitC_append '\n' l _ (h l (by simp)), ih (fun x hx => h x (by simp [hx]))]
    rfl

private theorem readRows_unlines {α : Type} (rd : Str → Option α) (rows : List Str)
    (h : ∀ l ∈ rows, '\n' ∉ l) :
    readRows rd (unlines (rows ++ [[]])) = collect (rows.map rd) := by
  have hs : splitC '\n' (unlines (rows ++ [[]])) = rows ++ [[], []] := by
    rw [splitC_unlines]
    · simp
    · intro l hl
      rcases List.mem_append.1 hl with hl | hl
      · exact h l hl
      · simp at hl; subst hl; simp
  unfold readRows
  rw [hs]
  simp

private theorem digit_ne (c d : Char) (hd : isDigitC d = false) (h : isDigitC c = true) : c ≠ d := by
  rintro rfl; rw [h] at hd; cases hd

private theorem natChars_not_mem (n : Nat) (d : Char) (hd : isDigitC d = false) : d ∉ natChars n :=
  fun h => digit_ne d d hd (natChars_digits n d h) rfl

private theorem intChars_not_mem (z : Int) (d : Char) (hd : isDigitC d = false) (hm : d ≠ '-') :
    d ∉ intChars z := by
  unfold intChars
  split
  · intro h
    rcases List.mem_cons.1 h with h | h
    · exact hm h
    · exact natChars_not_mem _ d hd h
  · exact natChars_not_mem _ d hd

private theorem intChars_ne_nil (z : Int) : intChars z ≠ [] := by
  unfold intChars
  split
  · simp
  · exact natChars_ne_nil _

theorem readInt_intChars (z : Int) : readInt? (intChars z) = some z := by
  unfold intChars
  by_cases hz : z < 0
  · simp only [hz, if_true, readInt?]
    have hne : natChars z.natAbs ≠ [] := natChars_ne_nil _
    simp only [hne, if_false, natChars_val]
    have e : -(z.natAbs : Int) = z := by omega
    exact congrArg some e
  · simp only [hz, if_false]
    have hne : natChars z.natAbs ≠ [] := natChars_ne_nil _
    cases hc : natChars z.natAbs with
    | nil => exact absurd hc hne
    | cons c r =>
      have hd : isDigitC c = true := natChars_digits z.natAbs c (by rw [hc]; simp)
      have hcm : c ≠ '-' := digit_ne c '-' (by decide) hd
      have : readInt? (c :: r) = (digitsVal? (c :: r)).map fun n => (n : Int) := by
        unfold readInt?
        split
        · next heq => simp only [List.cons.injEq] at heq; exact absurd heq.1 hcm
        · rfl
      rw [this, ← hc, natChars_val]
      have e : (z.natAbs : Int) = z := by omega
      exact congrArg some e

private theorem wordsGo_append (w : Str) (hw : ' ' ∉ w) (cur rest : Str) :
    wordsGo cur (w ++ rest) = wordsGo (cur ++ w) rest := by
  induction w generalizing cur with
  | nil => simp
  | cons c cs ih =>
    have hc : c ≠ ' ' := fun e => hw (by simp [e])
    have hcs : ' ' ∉ cs := fun e => hw (by simp [e])
    simp only [List.cons_append, wordsGo, hc, if_false]
    rw [ih hcs]
    simp

private theorem wordsGo_blanks (n : Nat) (rest : Str) :
    wordsGo [] (List.replicate n ' ' ++ rest) = wordsGo [] rest := by
  induction n with
  | zero => simp
  | succ n ih => simp [List.replicate_succ, wordsGo, ih]

/-- a padded field followed by a blank contributes exactly the field -/
private theorem words_field (w : Nat) (f rest : Str) (hne : f ≠ []) (hf : ' ' ∉ f) :
    wordsGo [] (padLeft w f ++ ' ' :: rest) = f :: wordsGo [] rest := by
  unfold padLeft
  rw [List.append_assoc, wordsGo_blanks, wordsGo_append f hf]
  simp [wordsGo, hne]

private theorem words_last (w : Nat) (f : Str) (hne : f ≠ []) (hf : ' ' ∉ f) :
    wordsGo [] (padLeft w f) = [f] := by
  unfold padLeft
  rw [wordsGo_blanks]
  have := wordsGo_append f hf [] []
  simp only [List.append_nil, List.nil_append] at this
  rw [this]
  simp [wordsGo, hne]

private theorem words_token (f rest : Str) (hne : f ≠ []) (hf : ' ' ∉ f) :
    wordsGo [] (f ++ ' ' :: rest) = f :: wordsGo [] rest := by
  rw [wordsGo_append f hf]
  simp [wordsGo, hne]

/-! ### times -/

/-- **C13_list_times.**  For every list of (integer) times: the printed text consists of one line per
time, an empty line and the final newline; line i is `"%d" % times[i]`; reading the rows back gives exactly
the list, in the same order.  Hence the rows are in bijection with the verified times and ascending when
`data.times` is. -/
theorem C13_list_times (ts : List Int) :
    splitC '\n' (listTimes ts) = ts.map timeLine ++ [[], []] ∧
    readRows readInt? (listTimes ts) = some ts := by
  have hnl : ∀ l ∈ ts.map timeLine, '\n' ∉ l := by
    intro l hl
    obtain ⟨t, _, rfl⟩ := List.mem_map.1 hl
    exact intChars_not_mem t '\n' (by decide) (by decide)
  constructor
  · unfold listTimes
    rw [splitC_unlines]
    · simp
    · intro l hl
      rcases List.mem_append.1 hl with hl | hl
      · exact hnl l hl
      · simp at hl; subst hl; simp
  · unfold listTimes
    rw [readRows_unlines readInt? _ hnl]
    have := collect_map timeLine readInt? id ts (fun t _ => readInt_intChars t)
    simpa using this

example : listTimes [-3600, 1325397600] = "-3600\n1325397600\n\n".toList := by decide +kernel

/-! ### dates -/

private theorem pad0_digits (w n : Nat) : ∀ c ∈ pad0 w n, isDigitC c = true := by
  intro c hc
  unfold pad0 at hc
  rcases List.mem_append.1 hc with h | h
  · rw [List.mem_replicate] at h; rw [h.2]; decide
  · exact natChars_digits n c h

private theorem digitsVal_zeros (k : Nat) (cs : List Char) :
    digitsVal? (List.replicate k '0' ++ cs) = digitsVal? cs := by
  induction k with
  | zero => simp
  | succ k ih => rw [List.replicate_succ, List.cons_append, digitsVal_zero_cons, ih]

private theorem pad0_val (w n : Nat) : digitsVal? (pad0 w n) = some n := by
  unfold pad0
  rw [digitsVal_zeros, natChars_val]

private theorem not_mem_of_digits (l : Str) (d : Char) (hd : isDigitC d = false)
    (h : ∀ c ∈ l, isDigitC c = true) : d ∉ l :=
  fun hm => digit_ne d d hd (h d hm) rfl

private theorem t_range (t : Int) (h0 : C11.tLo ≤ t) (h1 : t < C11.tEnd) :
    C11Cal.lo ≤ dayIndex t ∧ dayIndex t < C11Cal.lo + C11Cal.count ∧
      t = unixOfDays (dayIndex t) + (secOfDay t : Int) ∧ secOfDay t < 86400 := by
  simp only [dayIndex, secOfDay, unixOfDays, epoch, C11Cal.lo, C11Cal.count, C11.tLo, C11.tEnd] at *
  omega

/-- **The row of an initialisation time.**  For every whole second `t` of 1900-2100, with `c` the textbook
civil date of the UTC day containing `t` and `s` the second of that day, the `--list-dates` row is the
decimal number `YYYYMMDD` (= y·10000 + m·100 + d), a blank, and `HH:MM:SS` with H = s/3600, M = s/60 mod 60,
S = s mod 60, each padded with zeros to two digits. -/
theorem C13_date_line (t : Int) (h0 : C11.tLo ≤ t) (h1 : t < C11.tEnd) :
    let c := C11.textbookDate (dayIndex t)
    let s := secOfDay t
    dateLine t = natChars (c.y * 10000 + c.m * 100 + c.d) ++ ' ' ::
        (pad0 2 (s / 3600) ++ ':' :: (pad0 2 (s / 60 % 60) ++ ':' :: pad0 2 (s % 60))) ∧
      Spec.Cal.validDate c = true ∧ 1900 ≤ c.y ∧ c.y ≤ 2100 ∧
      t = unixOfDays (dayIndex t) + (s : Int) ∧ s = 3600 * (s / 3600) + 60 * (s / 60 % 60) + s % 60 ∧
      s / 3600 < 24 := by
  intro c s
  obtain ⟨r0, r1, hdec, hs⟩ := t_range t h0 h1
  have F := C11Cal.day_facts _ r0 r1
  have hc : civil t = c := F.textbook
  have hm : s % 3600 / 60 = s / 60 % 60 := by omega
  refine ⟨?_, ?_, ?_, ?_, hdec, by omega, ?_⟩
  · simp only [dateLine, hmsChars, hc, Date.toYmd]
    show _ = _
    rw [show secOfDay t = s from rfl, hm]
  · rw [← hc]; exact F.valid
  · rw [← hc]; exact F.ylo
  · rw [← hc]; exact F.yhi
  · have : s < 86400 := hs
    omega

theorem readDate_dateLine (t : Int) (h0 : C11.tLo ≤ t) (h1 : t < C11.tEnd) :
    readDate? (dateLine t) = some t := by
  obtain ⟨r0, r1, hdec, hs⟩ := t_range t h0 h1
  have F := C11Cal.day_facts _ r0 r1
  have hv := F.valid
  simp only [Spec.Cal.validDate, Bool.and_eq_true, decide_eq_true_eq] at hv
  obtain ⟨⟨⟨hm1, hm12⟩, hd1⟩, hdmax⟩ := hv
  have hd31 : (civilFromDays (dayIndex t)).d ≤ 31 := by
    have : Spec.Cal.daysInMonth (civilFromDays (dayIndex t)).y (civilFromDays (dayIndex t)).m ≤ 31 := by
      unfold Spec.Cal.daysInMonth; split <;> (try split) <;> omega
    omega
  have hofy : Date.ofYmd (civil t).toYmd = civil t := by
    simp only [civil, Date.ofYmd, Date.toYmd]
    generalize civilFromDays (dayIndex t) = c at *
    obtain ⟨y, m, d⟩ := c
    simp only at hm12 hd31 ⊢
    congr 1 <;> omega
  set s := secOfDay t with hsdef
  have hsp1 : ' ' ∉ natChars (civil t).toYmd := natChars_not_mem _ ' ' (by decide)
  have hsplit : splitC ' ' (dateLine t) = [natChars (civil t).toYmd, hmsChars t] := by
    unfold dateLine
    rw [splitC_append ' ' _ _ hsp1, C12.splitC_single]
    unfold hmsChars
    intro hmem
    simp only [List.mem_append, List.mem_cons] at hmem
    rcases hmem with h | h | h | h | h
    · exact not_mem_of_digits _ ' ' (by decide) (pad0_digits _ _) h
    · exact absurd h (by decide)
    · exact not_mem_of_digits _ ' ' (by decide) (pad0_digits _ _) h
    · exact absurd h (by decide)
    · exact not_mem_of_digits _ ' ' (by decide) (pad0_digits _ _) h
  have hcol : ∀ n, ':' ∉ pad0 2 n := fun n => not_mem_of_digits _ ':' (by decide) (pad0_digits _ _)
  have hsplit2 : splitC ':' (hmsChars t) = [pad0 2 (s / 3600), pad0 2 (s % 3600 / 60), pad0 2 (s % 60)] := by
    unfold hmsChars
    rw [splitC_append ':' _ _ (hcol _), splitC_append ':' _ _ (hcol _), C12.splitC_single ':' _ (hcol _)]
  unfold readDate?
  rw [hsplit]
  simp only [natChars_val, hsplit2, List.map_cons, List.map_nil, pad0_val, hofy]
  congr 1
  have hrt : daysOf (civil t) = dayIndex t := F.roundtrip
  rw [hrt]
  conv_rhs => rw [hdec]
  congr 1
  have : 3600 * (s / 3600) + 60 * (s % 3600 / 60) + s % 60 = s := by omega
  rw [this]

/-- **C13_list_dates.**  For every list of whole seconds of 1900-2100: one row per time, an empty line and
the final newline; each row is the textbook date and time of day of its time (`C13_date_line`) and reads
back as that time, so reading the listing back gives exactly the list — rows in bijection with the
verified times, in their order; two different times never print the same row. -/
theorem C13_list_dates (ts : List Int) (hr : ∀ t ∈ ts, C11.tLo ≤ t ∧ t < C11.tEnd) :
    splitC '\n' (listDates ts) = ts.map dateLine ++ [[], []] ∧
    readRows readDate? (listDates ts) = some ts ∧
    (∀ t ∈ ts, ∀ u ∈ ts, dateLine t = dateLine u → t = u) := by
  have hnl : ∀ l ∈ ts.map dateLine, '\n' ∉ l := by
    intro l hl
    obtain ⟨t, _, rfl⟩ := List.mem_map.1 hl
    unfold dateLine hmsChars
    intro hmem
    simp only [List.mem_append, List.mem_cons] at hmem
    rcases hmem with h | h | h | h | h | h | h
    · exact natChars_not_mem _ '\n' (by decide) h
    · exact absurd h (by decide)
    · exact not_mem_of_digits _ '\n' (by decide) (pad0_digits _ _) h
    · exact absurd h (by decide)
    · exact not_mem_of_digits _ '\n' (by decide) (pad0_digits _ _) h
    · exact absurd h (by decide)
    · exact not_mem_of_digits _ '\n' (by decide) (pad0_digits _ _) h
  refine ⟨?_, ?_, ?_⟩
  · unfold listDates
    rw [splitC_unlines]
    · simp
    · intro l hl
      rcases List.mem_append.1 hl with hl | hl
      · exact hnl l hl
      · simp at hl; subst hl; simp
  · unfold listDates
    rw [readRows_unlines readDate? _ hnl]
    have := collect_map dateLine readDate? id ts (fun t ht => readDate_dateLine t (hr t ht).1 (hr t ht).2)
    simpa using this
  · intro t ht u hu h
    have a := readDate_dateLine t (hr t ht).1 (hr t ht).2
    have b := readDate_dateLine u (hr u hu).1 (hr u hu).2
    rw [h, b] at a
    exact (Option.some.inj a).symm

/-- non-vacuity: 1969-12-31 23:00:00, 2012-01-02 06:30:00, 2000-02-29 12:34:56 -/
example : listDates [-3600, 1325485800, 951827696] =
    "19691231 23:00:00\n20120102 06:30:00\n20000229 12:34:56\n\n".toList := by decide +kernel
example := C13_list_dates [-3600, 1325485800] (by intro t ht; simp at ht; rcases ht with h | h <;> subst h <;> decide)

/-! ### locations -/

private theorem fracDigits_digits (k r : Nat) : ∀ c ∈ fracDigits k r, isDigitC c = true := by
  intro c hc
  simp only [fracDigits, List.mem_map, List.mem_reverse] at hc
  obtain ⟨d, hd, rfl⟩ := hc
  exact isDigitC_digitChar d (padRev_lt k r d hd)

private theorem fracDigits_val (k r : Nat) : digitsVal? (fracDigits k r) = some (r % 10 ^ k) := by
  unfold fracDigits
  rw [digitsVal_rev _ (padRev_lt k r), valRev_padRev]

private theorem fracDigits_length (k r : Nat) : (fracDigits k r).length = k := by
  simp [fracDigits, padRev_length]

/-- the unsigned part of `%.{k}f` reads back as `scaled / 10^k` -/
private theorem unsigned_fixed (k r : Nat) (hk : k ≠ 0) :
    unsignedVal? (natChars (r / 10 ^ k) ++ '.' :: fracDigits k (r % 10 ^ k)) = some ((r : Rat) / 10 ^ k) := by
  have hne : (fracDigits k (r % 10 ^ k)).isEmpty = false := by
    cases h : fracDigits k (r % 10 ^ k) with
    | nil => have := fracDigits_length k (r % 10 ^ k); rw [h] at this; simp at this; exact absurd this.symm hk
    | cons => rfl
  have hp := unsignedVal_parts (r / 10 ^ k) (fracDigits k (r % 10 ^ k)) [] (r % 10 ^ k % 10 ^ k)
    (fracDigits_digits _ _) (fracDigits_val _ _) (Or.inl rfl)
  simp only [hne, Bool.false_eq_true, if_false, List.append_nil] at hp
  rw [hp, fracDigits_length, Nat.mod_mod]
  simp only [expVal?]
  congr 1
  have h10 : 0 < 10 ^ k := Nat.pow_pos (by norm_num)
  have := natCast_div_add_mod r (10 ^ k) h10
  push_cast at this
  exact this

private theorem scaled_close (k : Nat) (q : Rat) :
    abs (((scaled k q : Nat) : Rat) / 10 ^ k - abs q) ≤ 1 / 2 / 10 ^ k := by
  have hden : 0 < q.den := q.den_pos
  have hs := roundHalfEven_spec (q.num.natAbs * 10 ^ k) q.den hden
  have h10 : (0 : Rat) < 10 ^ k := by positivity
  have e : ((q.num.natAbs * 10 ^ k : Nat) : Rat) / q.den = |q| * 10 ^ k := by
    rw [← natAbs_div_den q]; push_cast; ring
  rw [e] at hs
  unfold scaled
  have : ((roundHalfEven (q.num.natAbs * 10 ^ k) q.den : Nat) : Rat) / 10 ^ k - |q| =
      (((roundHalfEven (q.num.natAbs * 10 ^ k) q.den : Nat) : Rat) - |q| * 10 ^ k) / 10 ^ k := by
    field_simp
  rw [this, abs_div, abs_of_pos h10]
  exact div_le_div_of_nonneg_right hs (le_of_lt h10)

/-- **`%.{k}f` is sound** (k ≥ 1): the printed numeral reads back as a number within half a unit of its
k-th decimal of the exact value; it is never empty and contains neither a blank nor a newline. -/
theorem fixedF_sound (k : Nat) (hk : k ≠ 0) (q : Rat) :
    (∃ v : Rat, valueOf? (fixedF k q) = some (.fin v) ∧ |v - q| ≤ 1 / 2 / 10 ^ k) ∧
    fixedF k q ≠ [] ∧ ' ' ∉ fixedF k q ∧ '\n' ∉ fixedF k q := by
  have hu := unsigned_fixed k (scaled k q) hk
  have hc := scaled_close k q
  have hbody : ∀ d : Char, isDigitC d = false → d ≠ '.' →
      d ∉ natChars (scaled k q / 10 ^ k) ++ '.' :: fracDigits k (scaled k q % 10 ^ k) := by
    intro d hd hdot hmem
    rcases List.mem_append.1 hmem with h | h
    · exact natChars_not_mem _ d hd h
    · rcases List.mem_cons.1 h with h | h
      · exact hdot h
      · exact not_mem_of_digits _ d hd (fracDigits_digits _ _) h
  refine ⟨?_, ?_, ?_, ?_⟩
  · by_cases hq : q < 0
    · refine ⟨-((scaled k q : Nat) : Rat) / 10 ^ k, ?_, ?_⟩
      · simp only [fixedF, hq, if_true, hk, if_false, List.singleton_append]
        have := valueOf_neg _ _ hu
        rw [this]; congr 2; ring
      · rw [abs_of_neg hq] at hc
        have : -((scaled k q : Nat) : Rat) / 10 ^ k - q = -(((scaled k q : Nat) : Rat) / 10 ^ k - -q) := by ring
        rw [this, abs_neg]; exact hc
    · refine ⟨((scaled k q : Nat) : Rat) / 10 ^ k, ?_, ?_⟩
      · simp only [fixedF, hq, if_false, hk, List.nil_append]
        exact valueOf_pos _ _ hu
      · rw [abs_of_nonneg (not_lt.1 hq)] at hc; exact hc
  · simp only [fixedF, hk, if_false]
    have : natChars (scaled k q / 10 ^ k) ≠ [] := natChars_ne_nil _
    split <;> simp [this]
  · simp only [fixedF, hk, if_false]
    intro hmem
    rcases List.mem_append.1 hmem with h | h
    · split at h <;> simp at h
    · exact hbody ' ' (by decide) (by decide) h
  · simp only [fixedF, hk, if_false]
    intro hmem
    rcases List.mem_append.1 hmem with h | h
    · split at h <;> simp at h
    · exact hbody '\n' (by decide) (by decide) h

/-- `int(x)` of a float: within one of the value, toward zero; the identity on integers -/
theorem truncZ_int (z : Int) : truncZ (z : Rat) = z := by
  simp [truncZ]

/-- **C13_list_locations.**  For every list of locations: the printed text is the header line
`    id     lat     lon    elev`, one row per location in the given order, an empty line and the final
newline.  Row i has exactly four blank-separated fields: the id of location i (`%d`: truncated toward zero;
exactly the id when it is an integer, as station ids are), and its latitude, longitude and elevation read
back within half a unit of the last printed decimal (0.005 for lat / lon, 0.05 for elev) — the `%.2f` /
`%.1f` rounding of the exact value. -/
theorem C13_list_locations (ls : List ListOutput.Loc) :
    splitC '\n' (listLocations ls) = locHeader :: (ls.map locLine ++ [[], []]) ∧
    ∀ l ∈ ls, ∃ x y e : Rat,
      readLoc? (locLine l) = some (truncZ l.id, .fin x, .fin y, .fin e) ∧
      |x - l.lat| ≤ 1 / 200 ∧ |y - l.lon| ≤ 1 / 200 ∧ |e - l.elev| ≤ 1 / 20 ∧
      (∀ z : Int, l.id = (z : Rat) → truncZ l.id = z) := by
  have hfield : ∀ (k : Nat) (_ : k ≠ 0) (q : Rat) (w : Nat) (d : Char), d = '\n' → d ∉ padLeft w (fixedF k q) := by
    intro k hk q w d hd hmem
    subst hd
    unfold padLeft at hmem
    rcases List.mem_append.1 hmem with h | h
    · rw [List.mem_replicate] at h; exact absurd h.2 (by decide)
    · exact (fixedF_sound k hk q).2.2.2 h
  have hnl : ∀ l ∈ ls.map locLine, '\n' ∉ l := by
    intro l hl
    obtain ⟨p, _, rfl⟩ := List.mem_map.1 hl
    unfold locLine
    intro hmem
    simp only [List.mem_append, List.mem_cons] at hmem
    rcases hmem with h | h | h | h | h | h | h
    · unfold padLeft at h
      rcases List.mem_append.1 h with h | h
      · rw [List.mem_replicate] at h; exact absurd h.2 (by decide)
      · exact intChars_not_mem _ '\n' (by decide) (by decide) h
    · exact absurd h (by decide)
    · exact hfield 2 (by decide) _ _ _ rfl h
    · exact absurd h (by decide)
    · exact hfield 2 (by decide) _ _ _ rfl h
    · exact absurd h (by decide)
    · exact hfield 1 (by decide) _ _ _ rfl h
  constructor
  · unfold listLocations
    rw [splitC_unlines]
    · simp
    · intro l hl
      rcases List.mem_cons.1 hl with hl | hl
      · subst hl; decide
      · rcases List.mem_append.1 hl with hl | hl
        · exact hnl l hl
        · simp at hl; subst hl; simp
  · intro l _
    obtain ⟨⟨x, hx, hxc⟩, hxn, hxb, _⟩ := fixedF_sound 2 (by decide) l.lat
    obtain ⟨⟨y, hy, hyc⟩, hyn, hyb, _⟩ := fixedF_sound 2 (by decide) l.lon
    obtain ⟨⟨e, he, hec⟩, hen, heb, _⟩ := fixedF_sound 1 (by decide) l.elev
    refine ⟨x, y, e, ?_, by norm_num at hxc ⊢; exact hxc, by norm_num at hyc ⊢; exact hyc,
      by norm_num at hec ⊢; exact hec, fun z hz => by rw [hz, truncZ_int]⟩
    have hw : words (locLine l) =
        [intChars (truncZ l.id), fixedF 2 l.lat, fixedF 2 l.lon, fixedF 1 l.elev] := by
      unfold words locLine
      rw [words_field 6 _ _ (intChars_ne_nil _) (intChars_not_mem _ ' ' (by decide) (by decide)),
        words_field 7 _ _ hxn hxb, words_field 7 _ _ hyn hyb, words_last 7 _ hen heb]
    unfold readLoc?
    rw [hw]
    simp only [readInt_intChars, hx, hy, he]

/-- non-vacuity: the rows the real tool printed for (-7, 89.995, 179.995, 1234.56), (3, 50.125, -10.005, 12.25)
and (41, -0.001, 0.005, -0.04), given as the exact values of the doubles -/
example : listLocations [⟨-7, 791604391533609 / 8796093022208, 1583252763532329 / 8796093022208,
      2714826150374277 / 2199023255552⟩, ⟨3, 401 / 8, -5632314283980227 / 562949953421312, 49 / 4⟩,
      ⟨41, -1152921504606847 / 1152921504606846976, 5764607523034235 / 1152921504606846976,
      -5764607523034235 / 144115188075855872⟩] =
    ("    id     lat     lon    elev\n    -7   90.00  180.00  1234.6\n     3   50.12  -10.01    12.2\n" ++
     "    41   -0.00    0.01    -0.0\n\n").toList := by decide +kernel

/-! ### thresholds and quantiles -/

private theorem fmtG_no (x : XR) : fmtGChars 6 x ≠ [] ∧ ' ' ∉ fmtGChars 6 x ∧ '\n' ∉ fmtGChars 6 x := by
  refine ⟨C12.fmtGChars_ne 6 x, ?_, ?_⟩
  · intro h
    have := (C12.plain_iff ' ').1 (C12.fmtGChars_plain 6 x ' ' h)
    exact absurd this.2.2.2 (by decide)
  · intro h
    have := (C12.plain_iff '\n').1 (C12.fmtGChars_plain 6 x '\n' h)
    exact this.2.2.1 rfl

private theorem words_values (v : List XR) :
    wordsGo [] (v.flatMap fun x => fmtGChars 6 x ++ [' ']) = v.map (fmtGChars 6) := by
  induction v with
  | nil => simp [wordsGo]
  | cons x xs ih =>
    simp only [List.flatMap_cons, List.map_cons, List.append_assoc, List.singleton_append]
    rw [words_token _ _ (fmtG_no x).1 (fmtG_no x).2.1, ih]

/-- **C13_list_thresholds.**  `--list-thresholds` / `--list-quantiles` (`name` = `Thresholds:` / `Quantiles:`)
print ONE line: the name, then one `%g` token per value, in the given order, each followed by a blank, then
the newline.  Reading the line back gives the name and exactly one token per value; every token reads back
as a number: zero, NaN and ±inf exactly, any other value `q` as a number within half a unit of its sixth
significant digit (so exactly `q` when `q` has at most six significant digits). -/
theorem C13_list_thresholds (name : Str) (hne : name ≠ []) (hb : ' ' ∉ name) (hn : '\n' ∉ name) (v : List XR) :
    splitC '\n' (valuesLine name v) = [name ++ ' ' :: v.flatMap (fun x => fmtGChars 6 x ++ [' ']), []] ∧
    words (name ++ ' ' :: v.flatMap (fun x => fmtGChars 6 x ++ [' '])) = name :: v.map (fmtGChars 6) ∧
    (∀ x ∈ v, (x = .fin 0 ∨ x = .nan ∨ x = .pinf ∨ x = .ninf → valueOf? (fmtGChars 6 x) = some x) ∧
      ∀ q : Rat, q ≠ 0 → x = .fin q → ∃ w : Rat, valueOf? (fmtGChars 6 x) = some (.fin w) ∧
        |w - q| ≤ (1 / 2) * pow10 ((toDec 6 q.num.natAbs q.den).exp - 5)) := by
  refine ⟨?_, ?_, ?_⟩
  · have hline : '\n' ∉ name ++ ' ' :: v.flatMap (fun x => fmtGChars 6 x ++ [' ']) := by
      intro h
      rcases List.mem_append.1 h with h | h
      · exact hn h
      · rcases List.mem_cons.1 h with h | h
        · exact absurd h (by decide)
        · simp only [List.mem_flatMap, List.mem_append, List.mem_singleton] at h
          obtain ⟨x, _, h | h⟩ := h
          · exact (fmtG_no x).2.2 h
          · exact absurd h (by decide)
    have e : valuesLine name v = (name ++ ' ' :: v.flatMap (fun x => fmtGChars 6 x ++ [' '])) ++ '\n' :: [] := by
      simp [valuesLine]
    rw [e, splitC_append '\n' _ _ hline]
    rfl
  · unfold words
    rw [words_token name _ hne hb, words_values]
  · intro x _
    constructor
    · rintro (h | h | h | h) <;> subst h
      · exact fmtG_zero 6
      · exact fmtG_nan 6
      · exact fmtG_pinf 6
      · exact fmtG_ninf 6
    · intro q hq hx
      subst hx
      have := fmtG_sound 6 q hq
      simpa [precOf] using this

/-- the two names are admissible, and a listing of 1, 2.5, 1e-05, 1234567 -/
example : thresholdsName ≠ [] ∧ ' ' ∉ thresholdsName ∧ '\n' ∉ thresholdsName ∧
    quantilesName ≠ [] ∧ ' ' ∉ quantilesName ∧ '\n' ∉ quantilesName := by decide
example : listThresholds [.fin 1, .fin (5 / 2), .fin (1 / 100000), .fin 1234567] =
    "Thresholds: 1 2.5 1e-05 1.23457e+06 \n".toList := by decide +kernel
example : listQuantiles [] = "Quantiles: \n".toList := by decide +kernel

/-! ### several listings at once -/

/-- the blocks are printed in the fixed order thresholds, quantiles, locations, times, dates, whatever the
order of the flags on the command line (the flags are a record, not a sequence); a block whose flag is
absent contributes nothing -/
theorem C13_list_order (f : Flags) (thr qua : List XR) (locs : List ListOutput.Loc) (ts : List Int) :
    listing f thr qua locs ts =
      (if f.thresholds then listThresholds thr else []) ++ (if f.quantiles then listQuantiles qua else []) ++
      (if f.locations then listLocations locs else []) ++ (if f.times then listTimes ts else []) ++
      (if f.dates then listDates ts else []) := by
  simp [listing, List.append_assoc]

end VerifModel.C13
