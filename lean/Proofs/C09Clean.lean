import Proofs.C09
import Proofs.C04
/-
  C09 / C04 / C10 — the text reader and the NetCDF reader share their missing-value encodings.

  `TextInput.cleanTok` is C09's token-level model of `Text._clean` (input.py:560-568),
  `VerifModel.clean` the machine-checked model of `verif.util.clean` (the NetCDF side, C04 / C10),
  `VerifModel.textClean` C04's model of `Text._clean` on values.  Since f945b9c the code applies
  `fvalue == -999 or fvalue > 1e30` on both sides.
-/
namespace VerifModel.C09
open VerifModel

/-- C09's token classes as C04's tokens: the value of CPython `float()` or a ValueError -/
def toC04 (t : TextInput.Tok) : VerifModel.Tok :=
  match t.toXR? with
  | some v => .num v
  | none => .bad

/-- **C09_clean_agrees_with_netcdf.** For EVERY token that parses as a number (any rational, nan,
inf, -inf) the text reader's `_clean` returns what `verif.util.clean` returns for the same value
stored in a NetCDF variable: -999, NaN and everything above 1e30 (inf included) are missing in both
formats, every other value — -inf included — is kept unchanged in both. -/
theorem C09_clean_agrees_with_netcdf (t : TextInput.Tok) (v : XR) (h : t.toXR? = some v) :
    TextInput.cleanTok t = VerifModel.clean (.val v) := by
  cases t with
  | num q =>
    simp only [TextInput.Tok.toXR?, Option.some.injEq] at h; subst h
    by_cases h1 : q = -999
    · subst h1
      simp [TextInput.cleanTok, VerifModel.clean, XR.isNan, XR.eqb]
    · by_cases h2 : TextInput.big < q
      · have h2' : (1000000000000000019884624838656 : Rat) < q := h2
        simp [TextInput.cleanTok, VerifModel.clean, XR.isNan, XR.eqb, XR.gt, XR.lt, h2, h2']
      · have h2' : ¬ (1000000000000000019884624838656 : Rat) < q := h2
        simp [TextInput.cleanTok, VerifModel.clean, XR.isNan, XR.eqb, XR.gt, XR.lt, h1, h2, h2']
  | nan =>
    simp only [TextInput.Tok.toXR?, Option.some.injEq] at h; subst h
    simp [TextInput.cleanTok, VerifModel.clean, XR.isNan, XR.eqb]
  | inf =>
    simp only [TextInput.Tok.toXR?, Option.some.injEq] at h; subst h
    simp [TextInput.cleanTok, VerifModel.clean, XR.isNan, XR.eqb, XR.gt, XR.lt]
  | ninf =>
    simp only [TextInput.Tok.toXR?, Option.some.injEq] at h; subst h
    simp [TextInput.cleanTok, VerifModel.clean, XR.isNan, XR.eqb, XR.gt, XR.lt]
  | bad s => simp [TextInput.Tok.toXR?] at h

/-- **C09_clean_is_C04_textClean.** The two models of `Text._clean` — C09's (token classes, used by
the reader model) and C04's (values, machine-translated counterpart `Gen.Clean.textClean`) — are the
same function; an unparseable token is missing in both. -/
theorem C09_clean_is_C04_textClean (t : TextInput.Tok) :
    TextInput.cleanTok t = VerifModel.textClean (toC04 t) := by
  cases h : t.toXR? with
  | none =>
    cases t <;> simp [TextInput.Tok.toXR?] at h
    simp [toC04, TextInput.Tok.toXR?, VerifModel.textClean, TextInput.cleanTok]
  | some v =>
    rw [C09_clean_agrees_with_netcdf t v h]
    simp only [toC04, h]
    exact (C04.C04_text_nc_agree v).symm

/-- non-vacuity: the tokens `1e31`, `inf`, `-999`, `nan` are missing in both formats, `1e30` (the
double), `-inf` and 2.5 are values in both -/
example :
    TextInput.cleanTok (.num (10 ^ 31)) = .nan ∧ clean (.val (.fin (10 ^ 31))) = .nan ∧
    TextInput.cleanTok .inf = .nan ∧ clean (.val .pinf) = .nan ∧
    TextInput.cleanTok (.num (-999)) = .nan ∧ TextInput.cleanTok .nan = .nan ∧
    TextInput.cleanTok (.num 1000000000000000019884624838656) = .fin 1000000000000000019884624838656 ∧
    clean (.val (.fin 1000000000000000019884624838656)) = .fin 1000000000000000019884624838656 ∧
    TextInput.cleanTok .ninf = .ninf ∧ clean (.val .ninf) = .ninf ∧
    TextInput.cleanTok (.num (5/2)) = .fin (5/2) := by decide +kernel

end VerifModel.C09
