import VerifModel.Model.DiagramViews
import VerifModel.Spec.DiagramViews
import Proofs.Lemmas.XR
import Proofs.C16
import Mathlib.Data.List.Sort
import Mathlib.Tactic.Ring
import Mathlib.Tactic.Linarith
/-
  C16, views of a standard metric (-type rank, impact, map, maprank, mapimpact).
  Model = VerifModel/Model/DiagramViews.lean (what Standard._plot_rank_core, _plot_impact_core, _map_core and
  _plot_mapimpact_core hand to matplotlib), Spec = VerifModel/Spec/DiagramViews.lean.
-/
namespace VerifModel.C16Views
open VerifModel XR
open VerifModel.Diagram VerifModel.DiagramViews
open VerifModel.Spec.DiagramViews
set_option linter.unusedSimpArgs false
set_option linter.unusedVariables false

/-! ## rank -/

private theorem insertKey_perm (p : XR × Nat) (l : List (XR × Nat)) : (insertKey p l).Perm (p :: l) := by
  induction l with
  | nil => simp [insertKey]
  | cons q qs ih =>
    simp only [insertKey]
    split
    · exact (List.Perm.cons q ih).trans (List.Perm.swap p q qs)
    · exact List.Perm.refl _

private theorem sortKeys_perm (l : List (XR × Nat)) : (sortKeys l).Perm l := by
  induction l with
  | nil => simp [sortKeys]
  | cons p ps ih =>
    have : sortKeys (p :: ps) = insertKey p (sortKeys ps) := rfl
    rw [this]
    exact (insertKey_perm p _).trans (List.Perm.cons p ih)

private theorem zipIdx_snd (row : List XR) : row.zipIdx.map (·.2) = List.range row.length := by
  simp [List.range_eq_range']

/-- np.argsort of a row is a permutation of the inputs 0 … F-1: every input holds exactly one rank position
(whatever the scores are: ties, NaN, infinities) -/
theorem C16v_argsort_perm (row : List XR) : (argsortRow row).Perm (List.range row.length) := by
  unfold argsortRow
  rw [← zipIdx_snd]
  exact (sortKeys_perm _).map _

/-- each fully valid row contributes exactly one rank position to every input -/
theorem C16v_rank_row_once (row : List XR) (i : Nat) (hi : i < row.length) : (argsortRow row).count i = 1 := by
  rw [(C16v_argsort_perm row).count_eq]
  exact List.count_eq_one_of_mem (List.nodup_range) (List.mem_range.mpr hi)

/-- the argsort key on finite scores is the lexicographic order (score, input index) -/
private theorem keyLt_fin (a b : Rat) (i j : Nat) :
    keyLt (fin a, i) (fin b, j) = true ↔ a < b ∨ (a = b ∧ i < j) := by
  simp only [keyLt, XR.lt, Bool.or_eq_true, Bool.and_eq_true, Bool.not_eq_true', decide_eq_true_eq, decide_eq_false_iff_not]
  constructor
  · rintro (h | ⟨h1, h2⟩)
    · exact Or.inl h
    · rcases lt_trichotomy a b with h | h | h
      · exact Or.inl h
      · exact Or.inr ⟨h, h2⟩
      · exact absurd h h1
  · rintro (h | ⟨h1, h2⟩)
    · exact Or.inl h
    · exact Or.inr ⟨by rw [h1]; exact lt_irrefl _, h2⟩

private def FinKey (p : XR × Nat) : Prop := ∃ q : Rat, p.1 = fin q

private theorem keyLt_trans {a b c : XR × Nat} (ha : FinKey a) (hb : FinKey b) (hc : FinKey c)
    (h1 : keyLt a b = true) (h2 : keyLt b c = true) : keyLt a c = true := by
  obtain ⟨x, hx⟩ := ha; obtain ⟨y, hy⟩ := hb; obtain ⟨z, hz⟩ := hc
  obtain ⟨a1, a2⟩ := a; obtain ⟨b1, b2⟩ := b; obtain ⟨c1, c2⟩ := c
  simp only at hx hy hz; subst hx hy hz
  rw [keyLt_fin] at *
  rcases h1 with h1 | ⟨h1, h1'⟩ <;> rcases h2 with h2 | ⟨h2, h2'⟩
  · exact Or.inl (lt_trans h1 h2)
  · exact Or.inl (h2 ▸ h1)
  · exact Or.inl (h1 ▸ h2)
  · exact Or.inr ⟨h1.trans h2, lt_trans h1' h2'⟩

private theorem keyLt_total {a b : XR × Nat} (ha : FinKey a) (hb : FinKey b) (hne : a.2 ≠ b.2)
    (h : ¬ keyLt a b = true) : keyLt b a = true := by
  obtain ⟨x, hx⟩ := ha; obtain ⟨y, hy⟩ := hb
  obtain ⟨a1, a2⟩ := a; obtain ⟨b1, b2⟩ := b
  simp only at hx hy hne; subst hx hy
  rw [keyLt_fin] at *
  rcases lt_trichotomy x y with h' | h' | h'
  · exact absurd (Or.inl h') h
  · rcases Nat.lt_or_gt_of_ne hne with h'' | h''
    · exact absurd (Or.inr ⟨h', h''⟩) h
    · exact Or.inr ⟨h'.symm, h''⟩
  · exact Or.inl h'

private theorem mem_insertKey {p x : XR × Nat} {l : List (XR × Nat)} : x ∈ insertKey p l ↔ x = p ∨ x ∈ l := by
  rw [(insertKey_perm p l).mem_iff]; simp

private theorem insertKey_sorted (p : XR × Nat) (l : List (XR × Nat)) (hp : FinKey p)
    (hl : ∀ q ∈ l, FinKey q ∧ q.2 ≠ p.2) (hs : l.Pairwise fun a b => keyLt a b = true) :
    (insertKey p l).Pairwise fun a b => keyLt a b = true := by
  induction l with
  | nil => simp [insertKey]
  | cons q qs ih =>
    have hq := hl q (List.mem_cons_self)
    have hqs : ∀ r ∈ qs, FinKey r ∧ r.2 ≠ p.2 := fun r hr => hl r (List.mem_cons_of_mem _ hr)
    rw [List.pairwise_cons] at hs
    simp only [insertKey]
    split
    · rename_i hlt
      rw [List.pairwise_cons]
      refine ⟨?_, ih hqs hs.2⟩
      intro x hx
      rcases mem_insertKey.mp hx with rfl | hx
      · exact hlt
      · exact hs.1 x hx
    · rename_i hlt
      have hpq : keyLt p q = true := keyLt_total hq.1 hp hq.2 hlt
      rw [List.pairwise_cons]
      refine ⟨?_, List.pairwise_cons.mpr hs⟩
      intro x hx
      rcases List.mem_cons.mp hx with rfl | hx
      · exact hpq
      · exact keyLt_trans hp hq.1 (hqs x hx).1 hpq (hs.1 x hx)

private theorem sortKeys_sorted (l : List (XR × Nat)) (hf : ∀ q ∈ l, FinKey q) (hn : (l.map (·.2)).Nodup) :
    (sortKeys l).Pairwise fun a b => keyLt a b = true := by
  induction l with
  | nil => simp [sortKeys]
  | cons p ps ih =>
    have : sortKeys (p :: ps) = insertKey p (sortKeys ps) := rfl
    rw [this]
    rw [List.map_cons, List.nodup_cons] at hn
    apply insertKey_sorted p _ (hf p List.mem_cons_self)
    · intro q hq
      have hq' : q ∈ ps := (sortKeys_perm ps).mem_iff.mp hq
      refine ⟨hf q (List.mem_cons_of_mem _ hq'), ?_⟩
      intro he
      exact hn.1 (he ▸ List.mem_map_of_mem hq')
    · exact ih (fun q hq => hf q (List.mem_cons_of_mem _ hq)) hn.2

private theorem mem_zipIdx_fin (s : List Rat) (p : XR × Nat) (hp : p ∈ (s.map fin).zipIdx) :
    p.1 = fin (s.getD p.2 0) := by
  obtain ⟨v, i⟩ := p
  rw [List.mem_zipIdx_iff_getElem?] at hp
  simp only [List.getElem?_map, Option.map_eq_some_iff] at hp
  obtain ⟨a, ha, rfl⟩ := hp
  simp [List.getD, ha]

/-- Model = Spec for the ranking of one fully valid row: np.argsort orders the inputs by ascending score, equal
scores in command-line order -/
theorem C16v_argsort_sorted (s : List Rat) : (argsortRow (s.map fin)).Pairwise (Before s) := by
  unfold argsortRow
  rw [List.pairwise_map]
  have hsort := sortKeys_sorted (s.map fin).zipIdx
    (fun q hq => ⟨_, mem_zipIdx_fin s q hq⟩)
    (by rw [zipIdx_snd]; exact List.nodup_range)
  refine hsort.imp_of_mem ?_
  intro a b ha hb hab
  have ha' := mem_zipIdx_fin s a ((sortKeys_perm _).mem_iff.mp ha)
  have hb' := mem_zipIdx_fin s b ((sortKeys_perm _).mem_iff.mp hb)
  obtain ⟨a1, a2⟩ := a; obtain ⟨b1, b2⟩ := b
  simp only at ha' hb'; subst ha' hb'
  exact (keyLt_fin _ _ _ _).mp hab

private theorem rowInvalid_fin (s : List Rat) : rowInvalid (s.map fin) = false := by
  unfold rowInvalid
  rw [List.any_eq_false]
  intro x hx
  obtain ⟨q, _, rfl⟩ := List.mem_map.mp hx
  simp

private theorem rowEven_fin (tol : Rat) (s : List Rat) : rowEven (fin tol) (s.map fin) = true ↔ IsDraw tol s := by
  match s with
  | [] => simp [rowEven, IsDraw]
  | [a] => simp [rowEven, IsDraw]
  | a :: b :: rest =>
    simp only [List.map_cons, rowEven, IsDraw, fin_sub, XR.abs]
    by_cases h0 : a - b < 0
    · rw [if_pos h0]
      simp only [XR.lt, decide_eq_true_eq]
      constructor
      · intro h; constructor <;> linarith
      · intro h; linarith [h.1, h.2]
    · rw [if_neg h0]
      simp only [XR.lt, decide_eq_true_eq]
      constructor
      · intro h; constructor <;> linarith
      · intro h; linarith [h.1, h.2]

/-- Model = Spec for one x-axis entry at which every input has a score: it is a draw iff the first two inputs are
closer than the tolerance; otherwise the rank positions are held by the inputs in ascending order of their scores (equal
scores in command-line order), in descending order for a positively oriented score (`flip`). -/
theorem C16v_def_rank_row (flip : Bool) (tol : Rat) (s : List Rat) :
    (IsDraw tol s → rankRow flip (fin tol) (s.map fin) = .draw) ∧
    (¬ IsDraw tol s → ∃ r, IsRanking s r ∧ rankRow flip (fin tol) (s.map fin) = .ranks (if flip then r.reverse else r)) := by
  constructor
  · intro h
    simp [rankRow, rowInvalid_fin, (rowEven_fin tol s).mpr h]
  · intro h
    have he : rowEven (fin tol) (s.map fin) = false := by
      cases hh : rowEven (fin tol) (s.map fin)
      · rfl
      · exact absurd ((rowEven_fin tol s).mp hh) h
    refine ⟨argsortRow (s.map fin), ⟨?_, C16v_argsort_sorted s⟩, ?_⟩
    · simpa using C16v_argsort_perm (s.map fin)
    · simp [rankRow, rowInvalid_fin, he]

example : ¬ IsDraw (1/10) [1, 2, (3:Rat)/2] ∧ IsDraw (1/10) [1, (21:Rat)/20, 5] := by
  constructor <;> simp [IsDraw] <;> norm_num

def rankedCount (rs : List RankRow) : Nat :=
  rs.countP fun r => match r with
    | .ranks _ => true
    | _ => false

private theorem sum_indicator (l : List Nat) (i : Nat) :
    natSumL ((List.range l.length).map fun j => if (l[j]? == some i) = true then 1 else 0) = l.count i := by
  induction l with
  | nil => simp [natSumL]
  | cons x xs ih =>
    rw [List.length_cons, List.range_succ_eq_map, List.map_cons, List.map_map]
    simp only [natSumL, List.foldr_cons, Function.comp_def, List.getElem?_cons_zero, List.getElem?_cons_succ]
    have ih' : List.foldr (· + ·) 0 ((List.range xs.length).map fun j => if (xs[j]? == some i) = true then 1 else 0) = xs.count i := ih
    rw [ih', List.count_cons]
    by_cases hx : x = i
    · subst hx; simp; omega
    · have : ¬ i = x := fun h => hx h.symm
      simp [hx, this]

private theorem natSumL_add (f g : Nat → Nat) (l : List Nat) :
    natSumL (l.map fun j => f j + g j) = natSumL (l.map f) + natSumL (l.map g) := by
  induction l with
  | nil => simp [natSumL]
  | cons x xs ih =>
    simp only [natSumL, List.map_cons, List.foldr_cons] at *
    rw [ih]; omega

private theorem natSumL_zero (l : List Nat) : natSumL (l.map fun _ => 0) = 0 := by
  induction l with
  | nil => simp [natSumL]
  | cons x xs ih => simp only [natSumL, List.map_cons, List.foldr_cons] at *; rw [ih]

/-- the rank counts of an input over all positions sum to the number of ranked rows: every fully valid row that is not a draw
gives the input exactly one position -/
theorem C16v_rank_counts_sum (F : Nat) (rs : List RankRow) (i : Nat) (hi : i < F)
    (hp : ∀ l, RankRow.ranks l ∈ rs → l.Perm (List.range F)) :
    natSumL ((List.range F).map fun j => rankCount rs i j) = rankedCount rs := by
  induction rs with
  | nil =>
    have := natSumL_zero (List.range F)
    simpa [rankCount, rankedCount] using this
  | cons r rs ih =>
    have ih' := ih (fun l hl => hp l (List.mem_cons_of_mem _ hl))
    cases r with
    | ranks l =>
      have hl := hp l List.mem_cons_self
      have hlen : l.length = F := by simpa using hl.length_eq
      have hcount : l.count i = 1 := by
        rw [hl.count_eq]; exact List.count_eq_one_of_mem List.nodup_range (List.mem_range.mpr hi)
      have e : ∀ j, rankCount (RankRow.ranks l :: rs) i j = (if (l[j]? == some i) = true then 1 else 0) + rankCount rs i j := by
        intro j
        simp only [rankCount, List.countP_cons]
        split <;> omega
      simp only [e]
      rw [natSumL_add, ih', ← hlen, sum_indicator, hcount]
      simp [rankedCount, List.countP_cons]; omega
    | draw =>
      have e : ∀ j, rankCount (RankRow.draw :: rs) i j = rankCount rs i j := by
        intro j; simp [rankCount, List.countP_cons]
      simp only [e, ih']; simp [rankedCount, List.countP_cons]
    | missing =>
      have e : ∀ j, rankCount (RankRow.missing :: rs) i j = rankCount rs i j := by
        intro j; simp [rankCount, List.countP_cons]
      simp only [e, ih']; simp [rankedCount, List.countP_cons]

/-- ranked rows + draws = fully valid rows: an x-axis entry with a missing score is neither ranked nor a draw, every other
one is exactly one of the two.  With `C16v_rank_counts_sum`: for every input the bar heights over all rank positions plus the
height of `None` are (ranked + draws) / fully valid = 1. -/
theorem C16v_rank_total (flip : Bool) (md : XR) (y : Scores) :
    rankedCount (y.map (rankRow flip md)) + drawCount (y.map (rankRow flip md)) = numValid y := by
  induction y with
  | nil => simp [rankedCount, drawCount, numValid]
  | cons row rows ih =>
    simp only [rankedCount, drawCount, numValid, List.countP_map] at ih ⊢
    simp only [List.countP_cons, Function.comp_def] at ih ⊢
    unfold rankRow at ih ⊢
    by_cases h1 : rowInvalid row = true
    · simp only [h1, if_true] at ih ⊢; simp; omega
    · by_cases h2 : rowEven md row = true
      · simp only [h1, h2, if_true, if_false] at ih ⊢; simp; omega
      · simp only [h1, h2, if_false] at ih ⊢; simp; omega

/-- one bar container per input in command-line order, then `None` -/
theorem C16v_rank_series_order (F nv : Nat) (rs : List RankRow) :
    (rankBars F nv (rankTable F rs)).map (·.label) = (List.range F).map inName ++ ["None"] := by
  unfold rankBars
  rw [List.map_map]
  have hlen : (rankTable F rs).length = F + 1 := by simp [rankTable]
  apply List.ext_getElem
  · simp [hlen]
  · intro n h1 h2
    simp only [List.getElem_map, List.getElem_zipIdx, Function.comp_def, Nat.zero_add]
    by_cases hn : n < F
    · simp [hn, List.getElem_append_left]
    · have : n = F := by simp [hlen] at h1; omega
      subst this
      simp

/-! ## impact -/

/-- the cell test of the code (centre ± half the width of the FIRST bin) is the bin (lo, hi] of the -r edges whenever the bin is
as wide as the first one (equidistant edges, e.g. the default np.linspace) -/
theorem C16v_impact_bin (e0 e1 lo hi x : Rat) (rest : List XR) (hu : e1 - e0 = hi - lo) :
    impactMem (halfWidth (fin e0 :: fin e1 :: rest)) ((fin hi + fin lo) / fin 2) (fin x) = true ↔ inBinOC lo hi x := by
  have h2 : (2 : Rat) ≠ 0 := by norm_num
  simp only [impactMem, halfWidth, fin_sub, fin_add, fin_div_ne _ _ h2, XR.gt, XR.lt, XR.le, Bool.and_eq_true,
    decide_eq_true_eq, inBinOC]
  constructor
  · rintro ⟨h1, h2'⟩; constructor <;> linarith
  · rintro ⟨h1, h2'⟩; constructor <;> linarith

example : inBinOC 1 2 2 ∧ ¬ inBinOC 1 2 1 := by simp [inBinOC]

/-- the contribution of one case is (forecast of input 0 − obs)² − (forecast of input 1 − obs)² -/
theorem C16v_def_impact_cell (o x y : Rat) :
    impactDiff { obs := fin o, x := fin x, y := fin y } = fin (caseImpact (o, x, y)) := by
  have sq : ∀ d : Rat, XR.abs (fin d) * XR.abs (fin d) = fin (d ^ 2) := by
    intro d
    simp only [XR.abs]
    split <;> simp only [fin_mul] <;> congr 1 <;> ring
  simp only [impactDiff, fin_sub, sq, caseImpact]

/-- one cell per pair of bins, the bins of input 0 outermost (np.repeat / np.tile) -/
theorem C16v_impact_cells_order (edges : List XR) (cs : List ICase) :
    (impactCells edges cs).map (fun c => (c.1, c.2.1)) =
      (mids edges).flatMap fun cx => (mids edges).map fun cy => (cx, cy) := by
  simp [impactCells, List.map_flatMap, List.map_map, Function.comp_def]

/-- a cell is drawn in at most one group: red iff its contribution is positive, blue iff negative, none iff zero -/
theorem C16v_impact_groups (q : Rat) :
    (XR.gt (fin q) (fin 0) = true ↔ 0 < q) ∧ (XR.lt (fin q) (fin 0) = true ↔ q < 0) ∧
    ¬ (XR.gt (fin q) (fin 0) = true ∧ XR.lt (fin q) (fin 0) = true) := by
  refine ⟨?_, ?_, ?_⟩
  · simp only [XR.gt, XR.lt, decide_eq_true_eq]
  · simp only [XR.lt, decide_eq_true_eq]
  · simp only [XR.gt, XR.lt, decide_eq_true_eq]
    rintro ⟨h1, h2⟩; linarith

/-! ## maps -/

/-- every location with a score has exactly one marker (locations with equal coordinates and scores are counted with their
multiplicity), a location without a score has none, and the markers keep the order of the locations -/
theorem C16v_map_one_marker (locs : List Loc) (sc : Vec) :
    (mapMarkers locs sc).Sublist (locs.zip sc) ∧
    (∀ p, p.2.isNan = false → (mapMarkers locs sc).count p = (locs.zip sc).count p) ∧
    (∀ p, p.2.isNan = true → (mapMarkers locs sc).count p = 0) := by
  unfold mapMarkers
  refine ⟨List.filter_sublist, ?_, ?_⟩
  · intro p hp
    rw [List.count_filter] <;> simp [hp]
  · intro p hp
    apply List.count_eq_zero.mpr
    intro hmem
    have := (List.mem_filter.mp hmem).2
    simp [hp] at this

/-- the colour values of the markers are the scores that are not NaN, in location order -/
theorem C16v_def_map (locs : List Loc) (sc : Vec) (hl : locs.length = sc.length) :
    (mapMarkers locs sc).map (·.2) = sc.filter fun v => !v.isNan := by
  unfold mapMarkers
  have : sc = (locs.zip sc).map (·.2) := (List.map_snd_zip (by omega)).symm
  conv_rhs => rw [this]
  rw [List.filter_map]
  rfl

/-- one scatter per input in command-line order (axes 0, 2, 4, …: every subplot is followed by its colour bar) -/
theorem C16v_map_series_order (locs : List Loc) (cols : List Vec) :
    (mapFigure locs cols).map (·.ax) = (List.range cols.length).map (2 * ·) := by
  have key : ∀ (l : List (Vec × Nat)) (g : Vec × Nat → VSeries), (∀ p, (g p).ax = 2 * p.2) →
      (l.flatMap fun p => [g p]).map (·.ax) = l.map fun p => 2 * p.2 := by
    intro l g hg
    induction l with
    | nil => rfl
    | cons a as ih => simp only [List.flatMap_cons, List.map_append, List.map_cons, List.map_nil, hg, ih, List.singleton_append]
  unfold mapFigure mapFigure.perInputV
  refine (key cols.zipIdx _ (fun p => rfl)).trans ?_
  have h : cols.zipIdx.map (·.2) = List.range cols.length := by simp [List.range_eq_range']
  rw [← h, List.map_map]
  rfl

/-- mapimpact: a location with a finite difference is in exactly one group when the difference is not zero, in none when it is -/
theorem C16v_mapimpact_one_marker (q : Rat) :
    (q ≠ 0 → (XR.gt (fin q) (fin 0) = true ∧ XR.lt (fin q) (fin 0) = false) ∨
              (XR.gt (fin q) (fin 0) = false ∧ XR.lt (fin q) (fin 0) = true)) ∧
    (q = 0 → XR.gt (fin q) (fin 0) = false ∧ XR.lt (fin q) (fin 0) = false) := by
  simp only [XR.gt, XR.lt, decide_eq_true_eq, decide_eq_false_iff_not]
  constructor
  · intro h
    rcases lt_trichotomy q 0 with h' | h' | h'
    · right; exact ⟨by linarith, h'⟩
    · exact absurd h' h
    · left; exact ⟨h', by linarith⟩
  · rintro rfl; simp

end VerifModel.C16Views
