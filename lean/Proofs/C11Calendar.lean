import VerifModel.Base.Calendar
import VerifModel.Spec.Calendar
/-
  C11 — the heavy, closed calendar facts.

  One `decide +kernel` walks over every day 1900-01-01 … 2100-12-31 (73 414 days)
  and a second one over the 2 412 months of those years; both use `Nat` arithmetic only
  and structural recursion.  The results are unpacked into per-day propositions
  (`day_facts`) that `Proofs/C11.lean` lifts to every second of every day.

  The file is a separate module so that lake's .olean cache spares the quick tier the
  kernel run unless the calendar sources change.

  Kernel engineering (measured: 3 min → 45 s): the walker is written with the raw `Nat.add`,
  `Nat.div`, … primitives (GMP-accelerated in the kernel, no instance unfolding), `cond`
  instead of `if`, and every intermediate value is forced to a literal exactly once by
  `strict` (a `Nat.rec` on the value) because the kernel evaluates call-by-name.  The
  `*_sound` lemmas connect the walker to the ordinary definitions of `Base/Calendar.lean`
  and `Spec/Calendar.lean`; nothing downstream mentions the walker.
-/
namespace VerifModel.C11Cal
open VerifModel.Calendar VerifModel.Spec.Cal

/-- day number of 1900-01-01 -/
def lo : Nat := 693901
/-- number of days 1900-01-01 … 2100-12-31 -/
def count : Nat := 73414

/-! ### kernel-friendly evaluation -/

/-- `strict n f = f n`, but the kernel reduces `n` to a literal first -/
noncomputable def strict {α : Type} (n : Nat) (f : Nat → α) : α :=
  Nat.rec (motive := fun _ => α) (f 0) (fun k _ => f (Nat.succ k)) n

theorem strict_eq {α : Type} (n : Nat) (f : Nat → α) : strict n f = f n := by
  cases n <;> rfl

private theorem nadd (a b : Nat) : Nat.add a b = a + b := rfl
private theorem nsub (a b : Nat) : Nat.sub a b = a - b := rfl
private theorem nmul (a b : Nat) : Nat.mul a b = a * b := rfl
private theorem ndiv (a b : Nat) : Nat.div a b = a / b := rfl
private theorem nmod (a b : Nat) : Nat.mod a b = a % b := rfl
private theorem nbeq (a b : Nat) : (Nat.beq a b = true) = (a = b) := by simp
private theorem nble (a b : Nat) : (Nat.ble a b = true) = (a ≤ b) := by simp
private theorem nblt (a b : Nat) : (Nat.blt a b = true) = (a < b) := by
  simp [Nat.blt]; omega

/-- `civilFromDays z = ⟨y, m, d⟩`, evaluated with raw primitives -/
noncomputable def civilIs (z y m d : Nat) : Bool :=
  strict (Nat.div z 146097) fun era =>
  strict (Nat.mod z 146097) fun doe =>
  strict (Nat.div (Nat.sub (Nat.add (Nat.sub doe (Nat.div doe 1460)) (Nat.div doe 36524))
    (Nat.div doe 146096)) 365) fun yoe =>
  strict (Nat.sub doe (Nat.sub (Nat.add (Nat.mul 365 yoe) (Nat.div yoe 4)) (Nat.div yoe 100))) fun doy =>
  strict (Nat.div (Nat.add (Nat.mul 5 doy) 2) 153) fun mp =>
  strict (cond (Nat.blt mp 10) (Nat.add mp 3) (Nat.sub mp 9)) fun cm =>
  Nat.beq cm m &&
  Nat.beq (Nat.add (Nat.sub doy (Nat.div (Nat.add (Nat.mul 153 mp) 2) 5)) 1) d &&
  Nat.beq (cond (Nat.ble cm 2) (Nat.add (Nat.add yoe (Nat.mul era 400)) 1)
    (Nat.add yoe (Nat.mul era 400))) y

theorem civilIs_sound {z y m d : Nat} (h : civilIs z y m d = true) :
    civilFromDays z = ⟨y, m, d⟩ := by
  simp only [civilIs, strict_eq, nadd, nsub, nmul, ndiv, nmod, Bool.and_eq_true, nbeq, nble, nblt,
    Bool.cond_eq_ite] at h
  obtain ⟨⟨h1, h2⟩, h3⟩ := h
  unfold civilFromDays
  simp only [Date.mk.injEq]
  exact ⟨by rw [← h3], h1, h2⟩

/-- `daysFromCivil y m d = z`, evaluated with raw primitives -/
noncomputable def daysIs (y m d z : Nat) : Bool :=
  strict (cond (Nat.ble m 2) (Nat.sub y 1) y) fun y' =>
  strict (Nat.mod y' 400) fun yoe =>
  strict (cond (Nat.blt 2 m) (Nat.sub m 3) (Nat.add m 9)) fun mp =>
  Nat.beq (Nat.add (Nat.mul (Nat.div y' 400) 146097)
    (Nat.add (Nat.sub (Nat.add (Nat.mul yoe 365) (Nat.div yoe 4)) (Nat.div yoe 100))
      (Nat.sub (Nat.add (Nat.div (Nat.add (Nat.mul 153 mp) 2) 5) d) 1))) z

theorem daysIs_sound {y m d z : Nat} (h : daysIs y m d z = true) : daysFromCivil y m d = z := by
  simp only [daysIs, strict_eq, nadd, nsub, nmul, ndiv, nmod, nbeq, nble, nblt,
    Bool.cond_eq_ite] at h
  unfold daysFromCivil
  simp only [gt_iff_lt]
  rw [← h]

/-- `Spec.Cal.daysInMonth`, evaluated with raw primitives -/
def dimFast (y m : Nat) : Nat :=
  cond (Nat.beq m 2)
    (cond ((Nat.beq (Nat.mod y 4) 0 && !(Nat.beq (Nat.mod y 100) 0)) || Nat.beq (Nat.mod y 400) 0)
      29 28)
    (cond (Nat.beq m 4 || Nat.beq m 6 || Nat.beq m 9 || Nat.beq m 11) 30 31)

theorem dimFast_eq (y m : Nat) : dimFast y m = daysInMonth y m := by
  have e : ∀ a b : Nat, Nat.beq a b = (a == b) := by
    intro a b; rw [Bool.eq_iff_iff]; simp
  simp only [dimFast, daysInMonth, isLeap, nmod, e, Bool.cond_eq_ite, bne]
  rfl

/-- walk over `n` consecutive days starting at day number `z` whose civil date is claimed to be
`y-m-d`: check the claim with both of Hinnant's functions, the validity of the date, and step to
the next day by the textbook rule (`Spec.Cal.nextDay`). -/
noncomputable def walk : Nat → Nat → Nat → Nat → Nat → Bool
  | _, _, _, _, 0 => true
  | z, y, m, d, n + 1 =>
    civilIs z y m d && daysIs y m d z && Nat.ble 1900 y && Nat.ble y 2100 &&
    strict (dimFast y m) fun dim =>
    Nat.ble 1 d && Nat.ble d dim && Nat.ble 1 m && Nat.ble m 12 &&
    strict (Nat.add z 1) fun z' =>
      cond (Nat.blt d dim) (strict (Nat.add d 1) fun d' => walk z' y m d' n)
        (cond (Nat.blt m 12) (strict (Nat.add m 1) fun m' => walk z' y m' 1 n)
          (strict (Nat.add y 1) fun y' => walk z' y' 1 1 n))

set_option maxRecDepth 100000 in
/-- the kernel run: every day 1900-01-01 … 2100-12-31 -/
theorem walk_ok : walk lo 1900 1 1 count = true := by decide +kernel

/-- what the walk establishes for one day -/
structure DayOK (z : Nat) (c : Date) : Prop where
  civil : civilFromDays z = c
  days : daysOf c = z
  m1 : 1 ≤ c.m
  m12 : c.m ≤ 12
  d1 : 1 ≤ c.d
  dmax : c.d ≤ daysInMonth c.y c.m
  ylo : 1900 ≤ c.y
  yhi : c.y ≤ 2100

theorem addDays_succ_left (c : Date) (k : Nat) : addDays c (k + 1) = addDays (nextDay c) k := by
  induction k with
  | zero => rfl
  | succ k ih => rw [addDays, ih]; rfl

theorem addDays_add (c : Date) (a b : Nat) : addDays c (a + b) = addDays (addDays c a) b := by
  induction b with
  | zero => rfl
  | succ b ih => rw [← Nat.add_assoc, addDays, ih]; rfl

theorem walk_sound (n : Nat) : ∀ z y m d, walk z y m d n = true →
    ∀ k, k < n → DayOK (z + k) (addDays ⟨y, m, d⟩ k) := by
  induction n with
  | zero => intro z y m d _ k hk; omega
  | succ n ih =>
    intro z y m d h k hk
    simp only [walk, strict_eq, Bool.and_eq_true, nble, nblt, nadd, Bool.cond_eq_ite,
      dimFast_eq] at h
    obtain ⟨⟨⟨⟨hc, hd⟩, hy0⟩, hy1⟩, ⟨⟨⟨⟨hd1, hdm⟩, hm1⟩, hm12⟩, hnext⟩⟩ := h
    cases k with
    | zero =>
      exact ⟨civilIs_sound hc, daysIs_sound hd, hm1, hm12, hd1, hdm, hy0, hy1⟩
    | succ k =>
      have hk' : k < n := by omega
      rw [addDays_succ_left, show z + (k + 1) = (z + 1) + k by omega]
      by_cases h1 : d < daysInMonth y m
      · have : nextDay ⟨y, m, d⟩ = ⟨y, m, d + 1⟩ := by simp [nextDay, h1]
        rw [this]
        rw [if_pos h1] at hnext
        exact ih _ _ _ _ hnext k hk'
      · rw [if_neg h1] at hnext
        by_cases h2 : m < 12
        · have : nextDay ⟨y, m, d⟩ = ⟨y, m + 1, 1⟩ := by simp [nextDay, h1, h2]
          rw [this]
          rw [if_pos h2] at hnext
          exact ih _ _ _ _ hnext k hk'
        · have : nextDay ⟨y, m, d⟩ = ⟨y + 1, 1, 1⟩ := by simp [nextDay, h1, h2]
          rw [this]
          rw [if_neg h2] at hnext
          exact ih _ _ _ _ hnext k hk'

/-- every day of 1900-01-01 … 2100-12-31: its civil date by Hinnant's algorithm is the textbook
date (iterating "the day after" from 1900-01-01), `daysFromCivil` inverts it, and it is valid -/
theorem day_ok (z : Nat) (h0 : lo ≤ z) (h1 : z < lo + count) :
    DayOK z (addDays ⟨1900, 1, 1⟩ (z - lo)) := by
  have := walk_sound count lo 1900 1 1 walk_ok (z - lo) (by omega)
  rwa [show lo + (z - lo) = z by omega] at this

/-! ### the months -/

def dateEqb (a b : Date) : Bool := a.y == b.y && a.m == b.m && a.d == b.d

theorem dateEqb_eq {a b : Date} (h : dateEqb a b = true) : a = b := by
  cases a; cases b
  simp only [dateEqb, Bool.and_eq_true, beq_iff_eq] at h
  simp [h.1.1, h.1.2, h.2]

/-- start of the month after `y-m` -/
def nextMonthStart (y m : Nat) : Nat :=
  if m = 12 then daysFromCivil (y + 1) 1 1 else daysFromCivil y (m + 1) 1

/-- facts about month number `j` counted from January 1900 -/
noncomputable def monthOK (j : Nat) : Bool :=
  strict (1900 + j / 12) fun y => strict (j % 12 + 1) fun m =>
  strict (daysFromCivil y m 1) fun ms => strict (daysFromCivil y 1 1) fun ys =>
  strict (daysFromCivil (y + 1) 1 1) fun ys' => strict (nextMonthStart y m) fun nm =>
  dateEqb (civilFromDays ms) ⟨y, m, 1⟩
  && nm == ms + daysInMonth y m
  && decide (ys ≤ ms) && decide (nm ≤ ys')
  && leapDaysBefore m == ms - ys + (if isLeap y || decide (m ≤ 2) then 0 else 1)
  && decide (lo ≤ ms) && decide (nm ≤ lo + count)

set_option maxRecDepth 100000 in
theorem months_ok : allFrom monthOK 0 2412 = true := by decide +kernel

structure MonthOK (y m : Nat) : Prop where
  civil : civilFromDays (daysFromCivil y m 1) = ⟨y, m, 1⟩
  next : nextMonthStart y m = daysFromCivil y m 1 + daysInMonth y m
  ylo : daysFromCivil y 1 1 ≤ daysFromCivil y m 1
  yhi : nextMonthStart y m ≤ daysFromCivil (y + 1) 1 1
  before : leapDaysBefore m =
    daysFromCivil y m 1 - daysFromCivil y 1 1 + (if isLeap y || decide (m ≤ 2) then 0 else 1)
  lo_le : lo ≤ daysFromCivil y m 1
  hi_le : nextMonthStart y m ≤ lo + count

theorem month_ok (y m : Nat) (hy0 : 1900 ≤ y) (hy1 : y ≤ 2100) (hm1 : 1 ≤ m) (hm12 : m ≤ 12) :
    MonthOK y m := by
  have h := allFrom_spec monthOK 0 2412 months_ok ((y - 1900) * 12 + (m - 1)) (by omega) (by omega)
  have e1 : 1900 + ((y - 1900) * 12 + (m - 1)) / 12 = y := by omega
  have e2 : ((y - 1900) * 12 + (m - 1)) % 12 + 1 = m := by omega
  simp only [monthOK, strict_eq, e1, e2, Bool.and_eq_true, beq_iff_eq, decide_eq_true_eq] at h
  obtain ⟨⟨⟨⟨⟨⟨a, b⟩, c⟩, d⟩, e⟩, f⟩, g⟩ := h
  exact ⟨dateEqb_eq a, b, c, d, e, f, g⟩

/-! ### consequences for one day -/

/-- `daysFromCivil` is affine in the day of the month -/
theorem daysFromCivil_day (y m d : Nat) (hd : 1 ≤ d) :
    daysFromCivil y m d = daysFromCivil y m 1 + (d - 1) := by
  unfold daysFromCivil
  simp only []
  omega

/-- closed facts used to anchor the epoch and the end of the range -/
theorem civil_epoch : civilFromDays epoch = ⟨1970, 1, 1⟩ := by decide +kernel
theorem civil_lo : civilFromDays lo = ⟨1900, 1, 1⟩ := by decide +kernel
theorem civil_last : civilFromDays (lo + count - 1) = ⟨2100, 12, 31⟩ := by decide +kernel
theorem civil_end : civilFromDays (lo + count) = ⟨2101, 1, 1⟩ := by decide +kernel
theorem days_2101 : daysFromCivil 2101 1 1 = lo + count := by decide +kernel
theorem days_1970 : daysFromCivil 1970 1 1 = epoch := by decide +kernel

/-- everything `Proofs/C11.lean` needs about day `z` whose civil date (by `civilFromDays`) is `c`,
in terms of the ordinary definitions -/
structure DayFacts (z : Nat) (c : Date) : Prop where
  /-- Hinnant's date is the textbook date -/
  textbook : c = addDays ⟨1900, 1, 1⟩ (z - lo)
  /-- `daysFromCivil` inverts `civilFromDays` -/
  roundtrip : daysOf c = z
  valid : validDate c = true
  ylo : 1900 ≤ c.y
  yhi : c.y ≤ 2100
  /-- year start ≤ z < next year start, and the year start is 1 January of that year -/
  year_le : daysFromCivil c.y 1 1 ≤ z
  year_lt : z < daysFromCivil (c.y + 1) 1 1
  year_civil : civilFromDays (daysFromCivil c.y 1 1) = ⟨c.y, 1, 1⟩
  /-- month start ≤ z < next month start, and the month start is the 1st of that month -/
  month_le : daysFromCivil c.y c.m 1 ≤ z
  month_lt : z < nextMonthStart c.y c.m
  month_civil : civilFromDays (daysFromCivil c.y c.m 1) = ⟨c.y, c.m, 1⟩
  month_len : nextMonthStart c.y c.m = daysFromCivil c.y c.m 1 + daysInMonth c.y c.m
  /-- day of the month = offset from the month start -/
  dom : c.d = z - daysFromCivil c.y c.m 1 + 1
  /-- verif's day-of-year bucket (ordinal of month/day in the leap year 2000) … -/
  doy_model : daysFromCivil 2000 c.m c.d - daysFromCivil 2000 1 1 + 1 = leapOrdinal c.m c.d
  /-- … is the ordinal within the date's own year in leap years and in January/February, and one
  more than that from March on in common years -/
  doy_true : leapOrdinal c.m c.d =
    z - daysFromCivil c.y 1 1 + (if isLeap c.y || decide (c.m ≤ 2) then 1 else 2)

theorem day_facts (z : Nat) (h0 : lo ≤ z) (h1 : z < lo + count) : DayFacts z (civilFromDays z) := by
  have D := day_ok z h0 h1
  rw [← D.civil] at D
  have ht := D.civil
  generalize civilFromDays z = c at D ⊢
  have htb : c = addDays ⟨1900, 1, 1⟩ (z - lo) := by
    have := (day_ok z h0 h1).civil
    rw [← this]; exact D.civil.symm ▸ rfl
  obtain ⟨y, m, d⟩ := c
  have M := month_ok y m D.ylo D.yhi D.m1 D.m12
  have M2 := month_ok 2000 m (by omega) (by omega) D.m1 D.m12
  have J := month_ok y 1 D.ylo D.yhi (by omega) (by omega)
  have hz : z = daysFromCivil y m 1 + (d - 1) := by
    have := D.days
    simp only [daysOf] at this
    rw [daysFromCivil_day y m d D.d1] at this
    omega
  have hd1 := D.d1
  have hdm := D.dmax
  have ml := M.ylo
  have mn := M.next
  have mh := M.yhi
  have mb := M.before
  simp only at hd1 hdm
  refine ⟨htb, D.days, ?_, D.ylo, D.yhi, ?_, ?_, J.civil, ?_, ?_, M.civil, M.next, ?_, ?_, ?_⟩
  · simp only [validDate, Bool.and_eq_true, decide_eq_true_eq]
    exact ⟨⟨⟨D.m1, D.m12⟩, D.d1⟩, D.dmax⟩
  · show daysFromCivil y 1 1 ≤ z
    omega
  · show z < daysFromCivil (y + 1) 1 1
    omega
  · show daysFromCivil y m 1 ≤ z
    omega
  · show z < nextMonthStart y m
    omega
  · show d = z - daysFromCivil y m 1 + 1
    omega
  · show daysFromCivil 2000 m d - daysFromCivil 2000 1 1 + 1 = leapOrdinal m d
    have b2 := M2.before
    have l2 := M2.ylo
    have : isLeap 2000 = true := by decide
    rw [this] at b2
    simp only [Bool.true_or, if_true] at b2
    rw [daysFromCivil_day 2000 m d D.d1, leapOrdinal, b2]
    omega
  · show leapOrdinal m d = z - daysFromCivil y 1 1 + (if isLeap y || decide (m ≤ 2) then 1 else 2)
    rw [leapOrdinal, mb]
    split <;> omega

end VerifModel.C11Cal
