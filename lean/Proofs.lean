import Proofs.C01
import Proofs.C05
import Proofs.C06
import Proofs.C07
import Proofs.GenEq.Cmp
import Proofs.GenEq.Cont
import Proofs.GenEq.Det
