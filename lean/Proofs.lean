import Proofs.C07
import Proofs.GenEq.Cmp
