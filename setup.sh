#!/bin/bash
# Build the Lean model, proofs and driver from files on disk (offline).
set -e
cd "$(dirname "$0")"
export PYTHONPATH=/repo${PYTHONPATH:+:$PYTHONPATH}
/venv/bin/python harness/translate.py
cd lean
lake build VerifModel verifdrv Proofs
